(** Concurrent [Acked::ack] calls on ONE [Acked] instance (and its clones, which share the
    [Arc<Semaphore>]) — definitions only.  p2panda/src/streams/acked.rs lines 116-139:

        pub async fn ack(&self, header) -> Result<(), AckedError> {
            let _permit = self.semaphore.acquire().await;            (1) acquire the one permit
            if LogId::from_topic(self.topic) != header...log_id() {  (2) topic check (no await
                return Err(InvalidTopic) }                               between 1 and 2)
            let mut cursor = self.cursor().await?;                   (3) read: SELECT through the pool
            cursor.advance(author, log_id, seq_num);                     ... advance the local copy
            tx!(self.store, { self.store.set_cursor(&cursor) });     (4) begin; (5) upsert + commit
            Ok(())                                                   (6) return: [_permit] dropped
        }

    The machine below runs [k] such calls (headers [hs], index = call) and lets a schedule — a list
    of call indices — decide which call takes its next step.  One label = one passage between two
    of the program points the harness can hold a real call at:

        PIdle     not called yet
        PWait     called, queued on the semaphore (tokio's semaphore is fair: FIFO [m_queue])
        PHeld     permit held, topic check passed, before the SELECT      (hook point cursor_before_read)
        PRead c   SELECT done, local copy [c] advanced                    (hook point cursor_after_read)
        PBegun c  store transaction begun, before the upsert              (hook point begin_acquired)
        PWritten  upsert committed, permit still held                     (hook point ack_after_write)
        PDone ok  returned [Ok] / [InvalidTopic]; permit released and handed to the queue's head,
                  which runs its topic check at once (rejected calls pass the permit on: [grant])

    A label for a call that cannot move (queued, returned, index out of range) is a no-op, so every
    list of labels is a schedule.  The machine is generic in the store: [rd]/[adv]/[wr] are the
    read of the stored cursor, [Cursor::advance] and the committed write.  Instances:
    [conc_*] over the cursor store of Model/Cursor.v (C07) and [dconc_*] over the durable tables of
    Model/Replay.v (C15).  [m_wlog] is ghost state: the order in which writes were committed.

    [step_unserialised_read] and [step_early_release] are NOT the code: they are the two seeded
    re-orderings (read before acquire; release before the write) kept as regression variants; the
    theorems are about [step], the witness lemmas in Proofs/AckConc.v show the variants lose
    acknowledgements.  In the variants a call that finds the permit taken simply retries at its
    next label (no queue), which is all the witnesses need.

    Modelled, not verified: tokio's [Semaphore] (one permit, FIFO hand-over, release on drop),
    the SELECT sees exactly the committed upserts (SQLite read-committed through the pool), and a
    call does nothing else between the program points. *)
From Coq Require Import List Arith NArith Bool.
From PV Require Import Model.Heights Model.Cursor.
From PV Require Model.Replay.
Import ListNotations.

Inductive pc (Loc : Type) : Type :=
| PIdle
| PWait
| PHeld
| PRead (c : Loc)
| PBegun (c : Loc)
| PWritten
| PDone (ok : bool).
Arguments PIdle {Loc}.
Arguments PWait {Loc}.
Arguments PHeld {Loc}.
Arguments PRead {Loc} c.
Arguments PBegun {Loc} c.
Arguments PWritten {Loc}.
Arguments PDone {Loc} ok.

Definition upd {A : Type} (f : nat -> A) (i : nat) (v : A) : nat -> A :=
  fun j => if Nat.eqb j i then v else f j.

Section Machine.
  Variables St Loc Hd : Type.
  Variable okb : Hd -> bool.          (* the topic check *)
  Variable rd : St -> Loc.            (* [Acked::cursor]: the stored cursor, or an empty one *)
  Variable adv : Hd -> Loc -> Loc.    (* [Cursor::advance] with the header's author/log/seq_num *)
  Variable wr : St -> Loc -> St.      (* [set_cursor] inside a committed transaction *)

  Record mstate := {
    m_store : St;
    m_holder : option nat;
    m_queue : list nat;
    m_pc : nat -> pc Loc;
    m_wlog : list nat
  }.

  Definition m_init (s : St) : mstate :=
    {| m_store := s; m_holder := None; m_queue := []; m_pc := fun _ => PIdle; m_wlog := [] |}.

  (** One complete call on its own: what the serialised code does. *)
  Definition seqstep (s : St) (h : Hd) : St := wr s (adv h (rd s)).

  (** Hand the released permit to the first queued call; a call whose header is of another topic
      returns at once and passes the permit on. *)
  Fixpoint grant (hs : list Hd) (q : list nat) (pcs : nat -> pc Loc) : option nat * list nat * (nat -> pc Loc) :=
    match q with
    | [] => (None, [], pcs)
    | j :: q' =>
        match nth_error hs j with
        | Some h => if okb h then (Some j, q', upd pcs j PHeld) else grant hs q' (upd pcs j (PDone false))
        | None => grant hs q' pcs
        end
    end.

  Definition step (hs : list Hd) (s : mstate) (i : nat) : mstate :=
    match nth_error hs i with
    | None => s
    | Some h =>
        match m_pc s i with
        | PIdle =>
            match m_holder s with
            | Some _ =>
                {| m_store := m_store s; m_holder := m_holder s; m_queue := m_queue s ++ [i];
                   m_pc := upd (m_pc s) i PWait; m_wlog := m_wlog s |}
            | None =>
                if okb h
                then {| m_store := m_store s; m_holder := Some i; m_queue := m_queue s;
                        m_pc := upd (m_pc s) i PHeld; m_wlog := m_wlog s |}
                else {| m_store := m_store s; m_holder := None; m_queue := m_queue s;
                        m_pc := upd (m_pc s) i (PDone false); m_wlog := m_wlog s |}
            end
        | PWait => s
        | PHeld =>
            {| m_store := m_store s; m_holder := m_holder s; m_queue := m_queue s;
               m_pc := upd (m_pc s) i (PRead (adv h (rd (m_store s)))); m_wlog := m_wlog s |}
        | PRead c =>
            {| m_store := m_store s; m_holder := m_holder s; m_queue := m_queue s;
               m_pc := upd (m_pc s) i (PBegun c); m_wlog := m_wlog s |}
        | PBegun c =>
            {| m_store := wr (m_store s) c; m_holder := m_holder s; m_queue := m_queue s;
               m_pc := upd (m_pc s) i PWritten; m_wlog := m_wlog s ++ [i] |}
        | PWritten =>
            let '(ho, q, pcs) := grant hs (m_queue s) (upd (m_pc s) i (PDone true)) in
            {| m_store := m_store s; m_holder := ho; m_queue := q; m_pc := pcs; m_wlog := m_wlog s |}
        | PDone _ => s
        end
    end.

  Definition run (hs : list Hd) (s : mstate) (sched : list nat) : mstate := fold_left (step hs) sched s.

  Definition is_done (p : pc Loc) : bool := match p with PDone _ => true | _ => false end.

  (** "All k calls have returned." *)
  Definition all_done (hs : list Hd) (s : mstate) : Prop :=
    forall i, i < List.length hs -> is_done (m_pc s i) = true.

  Definition all_doneb (hs : list Hd) (s : mstate) : bool :=
    forallb (fun i => is_done (m_pc s i)) (seq 0 (List.length hs)).

  (** Headers of a list of call indices. *)
  Definition hdrs_of (hs : list Hd) (l : list nat) : list Hd :=
    flat_map (fun j => match nth_error hs j with Some h => [h] | None => [] end) l.

  (** Indices of the calls the topic check accepts, in program order. *)
  Definition accepted (hs : list Hd) : list nat :=
    filter (fun j => match nth_error hs j with Some h => okb h | None => false end) (seq 0 (List.length hs)).

  (** The schedule "one call after the other", each run to its end (5 labels per call). *)
  Definition serial_sched (k : nat) : list nat := flat_map (fun i => repeat i 5) (seq 0 k).

  (** ** Regression variants (NOT the code) *)

  (** Seeded order 1: topic check, read and advance BEFORE the permit is acquired; only the
      write is serialised. *)
  Definition step_unserialised_read (hs : list Hd) (s : mstate) (i : nat) : mstate :=
    match nth_error hs i with
    | None => s
    | Some h =>
        match m_pc s i with
        | PIdle =>
            {| m_store := m_store s; m_holder := m_holder s; m_queue := m_queue s;
               m_pc := upd (m_pc s) i (if okb h then PHeld else PDone false); m_wlog := m_wlog s |}
        | PHeld =>
            {| m_store := m_store s; m_holder := m_holder s; m_queue := m_queue s;
               m_pc := upd (m_pc s) i (PRead (adv h (rd (m_store s)))); m_wlog := m_wlog s |}
        | PRead c =>
            match m_holder s with
            | Some _ => s
            | None => {| m_store := m_store s; m_holder := Some i; m_queue := m_queue s;
                         m_pc := upd (m_pc s) i (PBegun c); m_wlog := m_wlog s |}
            end
        | PBegun c =>
            {| m_store := wr (m_store s) c; m_holder := m_holder s; m_queue := m_queue s;
               m_pc := upd (m_pc s) i PWritten; m_wlog := m_wlog s ++ [i] |}
        | PWritten =>
            {| m_store := m_store s; m_holder := None; m_queue := m_queue s;
               m_pc := upd (m_pc s) i (PDone true); m_wlog := m_wlog s |}
        | _ => s
        end
    end.

  (** Seeded order 2: the permit is released after read + advance, BEFORE the write. *)
  Definition step_early_release (hs : list Hd) (s : mstate) (i : nat) : mstate :=
    match nth_error hs i with
    | None => s
    | Some h =>
        match m_pc s i with
        | PIdle =>
            match m_holder s with
            | Some _ => s
            | None =>
                if okb h
                then {| m_store := m_store s; m_holder := Some i; m_queue := m_queue s;
                        m_pc := upd (m_pc s) i PHeld; m_wlog := m_wlog s |}
                else {| m_store := m_store s; m_holder := None; m_queue := m_queue s;
                        m_pc := upd (m_pc s) i (PDone false); m_wlog := m_wlog s |}
            end
        | PHeld =>
            {| m_store := m_store s; m_holder := m_holder s; m_queue := m_queue s;
               m_pc := upd (m_pc s) i (PRead (adv h (rd (m_store s)))); m_wlog := m_wlog s |}
        | PRead c =>
            {| m_store := m_store s; m_holder := None; m_queue := m_queue s;
               m_pc := upd (m_pc s) i (PBegun c); m_wlog := m_wlog s |}
        | PBegun c =>
            {| m_store := wr (m_store s) c; m_holder := m_holder s; m_queue := m_queue s;
               m_pc := upd (m_pc s) i PWritten; m_wlog := m_wlog s ++ [i] |}
        | PWritten =>
            {| m_store := m_store s; m_holder := m_holder s; m_queue := m_queue s;
               m_pc := upd (m_pc s) i (PDone true); m_wlog := m_wlog s |}
        | _ => s
        end
    end.
End Machine.

Arguments m_store {St Loc} m.
Arguments m_holder {St Loc} m.
Arguments m_queue {St Loc} m.
Arguments m_pc {St Loc} m.
Arguments m_wlog {St Loc} m.
Arguments m_init {St Loc} s.
Arguments is_done {Loc} p.

(** * C07 instance: one [Acked] [k] over the cursor store of Model/Cursor.v *)

Definition cadv (h : header) (c : cursor) : cursor := advance c (hauthor h) (hlog h) (hseq h).

Definition conc_state := mstate cstore cursor.

Definition conc_step (k : acked) (hs : list header) : conc_state -> nat -> conc_state :=
  step cstore cursor header (topic_ok k) (fun s => acked_cursor s k) cadv set_cursor hs.

Definition conc_run (k : acked) (hs : list header) (s : cstore) (sched : list nat) : conc_state :=
  fold_left (conc_step k hs) sched (m_init s).

Definition conc_all_done (hs : list header) (s : conc_state) : Prop :=
  forall i, i < List.length hs -> is_done (m_pc s i) = true.

(** The two regression variants over the same store. *)
Definition conc_run_unserialised_read (k : acked) (hs : list header) (s : cstore) (sched : list nat) : conc_state :=
  fold_left (step_unserialised_read cstore cursor header (topic_ok k) (fun s => acked_cursor s k) cadv set_cursor hs)
            sched (m_init s).

Definition conc_run_early_release (k : acked) (hs : list header) (s : cstore) (sched : list nat) : conc_state :=
  fold_left (step_early_release cstore cursor header (topic_ok k) (fun s => acked_cursor s k) cadv set_cursor hs)
            sched (m_init s).

(** * C15 instance: the stream's [Acked] over the durable tables of Model/Replay.v

    A call acknowledges the operation [r] (its header); the cursor row is the [cursor] field. *)

Definition dwr (d : Replay.durable) (c : list (Replay.key * N)) : Replay.durable :=
  {| Replay.rows := Replay.rows d; Replay.assoc := Replay.assoc d; Replay.cursor := c |}.

Definition dadv (r : Replay.row) (c : list (Replay.key * N)) : list (Replay.key * N) :=
  Replay.advance (Replay.rkey r) (Replay.r_seq r) c.

Definition dconc_state := mstate Replay.durable (list (Replay.key * N)).

Definition dconc_step (tlog : Replay.logid) (rs : list Replay.row) : dconc_state -> nat -> dconc_state :=
  step Replay.durable (list (Replay.key * N)) Replay.row
       (fun r => N.eqb (Replay.r_log r) tlog) Replay.cursor dadv dwr rs.

Definition dconc_run (tlog : Replay.logid) (rs : list Replay.row) (d : Replay.durable) (sched : list nat) : dconc_state :=
  fold_left (dconc_step tlog rs) sched (m_init d).

Definition dconc_all_done (rs : list Replay.row) (s : dconc_state) : Prop :=
  forall i, i < List.length rs -> is_done (m_pc s i) = true.
