(** Reference model of the SQLite log store (C08).

    Rust anchors (p2panda-store):
    - [operations/sqlite.rs]  [insert_operation] = [insert_or_ignore] (INSERT OR IGNORE on the
      primary key [hash]), [delete_operation] = [delete], [delete_operation_payload] =
      [delete_payload] (UPDATE .. SET body = NULL);
    - [logs/sqlite/mod.rs]  [get_latest_entry](_tx) = [latest] (ORDER BY seq_num DESC LIMIT 1),
      [get_log_heights] = [heights] (MAX(seq_num) .. WHERE log_id IN (..) GROUP BY log_id, [None]
      when no row comes back, and -- since the fix -- [None] at once for an empty list),
      [get_log_entries] = [entries], [get_log_size] = [size], [prune_entries] = [prune]
      (DELETE .. WHERE seq_num < ?).
    The table [operations_v1] is the list of its rows in rowid (= insertion) order; the only key is
    [hash] (no uniqueness on (author, log, seq_num): forks can be stored).

    Ranges: [after = None] reads [seq_num >= 0], [after = Some a] reads [seq_num > a];
    [until = None] binds [SeqNum::MAX = 2^32-1], the comparison is [<=].

    [get_log_size]: SUM(header_size), SUM(payload_size), COUNT( * ) decoded as u32 (a sum that does
    not fit is a decode *error*; no rows decodes as 0, so the answer is always [Some]); the two
    sums are added with [saturating_add] (since the fix; [size_legacy] is the old [+] that
    overflowed, a panic in the debug build).

    [header_size] is the length of the CBOR header of the operations the harness builds (signed,
    extensions = (), payload hash present iff payload_size > 0, backlink present iff seq_num > 0).

    Modelled, not verified: SQLite executes the issued SQL with its documented semantics
    (integer affinity turns the string-bound parameters into integers); sqlx decoding; the CBOR
    encoder (header length).  Which of several rows with the same maximal seq_num
    [ORDER BY seq_num DESC LIMIT 1] returns is left open by SQL: [latest_candidates] lists the
    admissible answers, rowid order first (what SQLite does today). *)
From Coq Require Import List NArith Bool.
Import ListNotations.
Local Open Scope N_scope.

Record row := mkrow {
  r_id : N; r_author : N; r_log : N; r_seq : N; r_hsize : N; r_psize : N; r_body : bool }.

Definition store := list row.

Definition u32_max : N := 4294967295.
Definition two32 : N := 4294967296.

(** * Writes *)

Definition has_id (s : store) (id : N) : bool := existsb (fun r => r_id r =? id) s.

Definition insert_or_ignore (s : store) (r : row) : store * bool :=
  if has_id s (r_id r) then (s, false) else (s ++ [r], true).

Definition delete (s : store) (id : N) : store * bool :=
  (filter (fun r => negb (r_id r =? id)) s, has_id s id).

Definition drop_body (r : row) : row :=
  mkrow (r_id r) (r_author r) (r_log r) (r_seq r) (r_hsize r) (r_psize r) false.

Definition delete_payload (s : store) (id : N) : store * bool :=
  (map (fun r => if r_id r =? id then drop_body r else r) s, has_id s id).

Definition in_log (a l : N) (r : row) : bool := (r_author r =? a) && (r_log r =? l).

Definition prune_hit (a l u : N) (r : row) : bool := in_log a l r && (r_seq r <? u).

Definition prune (s : store) (a l u : N) : store * N :=
  (filter (fun r => negb (prune_hit a l u r)) s,
   N.of_nat (length (filter (prune_hit a l u) s))).

(** * Queries *)

Definition log_rows (s : store) (a l : N) : list row := filter (in_log a l) s.

Fixpoint max_seq (rs : list row) : option N :=
  match rs with
  | [] => None
  | r :: t => match max_seq t with
              | None => Some (r_seq r)
              | Some m => Some (N.max (r_seq r) m)
              end
  end.

(** All rows of the log carrying the maximal seq_num, in rowid order. *)
Definition latest_candidates (s : store) (a l : N) : list row :=
  match max_seq (log_rows s a l) with
  | None => []
  | Some m => filter (fun r => r_seq r =? m) (log_rows s a l)
  end.

Definition latest (s : store) (a l : N) : option row := hd_error (latest_candidates s a l).

(** Sorted insertion without duplicates (the [BTreeMap] keys of the answer). *)
Fixpoint ins_key (x : N) (l : list N) : list N :=
  match l with
  | [] => [x]
  | y :: t => if x <? y then x :: y :: t else if x =? y then y :: t else y :: ins_key x t
  end.

Definition sort_keys (l : list N) : list N := fold_right ins_key [] l.

Definition height_of (s : store) (a l : N) : list (N * N) :=
  match max_seq (log_rows s a l) with
  | None => []
  | Some m => [(l, m)]
  end.

Definition heights (s : store) (a : N) (logs : list N) : option (list (N * N)) :=
  match flat_map (height_of s a) (sort_keys logs) with
  | [] => None
  | hs => Some hs
  end.

Definition in_range (after until : option N) (seq : N) : bool :=
  (match after with None => 0 <=? seq | Some a => a <? seq end)
  && (seq <=? match until with None => u32_max | Some u => u end).

Definition range_rows (s : store) (a l : N) (after until : option N) : list row :=
  filter (fun r => in_range after until (r_seq r)) (log_rows s a l).

(** ORDER BY seq_num; rows with equal seq_num are put in ascending id order (canonical choice,
    the harness prints them the same way). *)
Definition row_le (x y : row) : bool :=
  (r_seq x <? r_seq y) || ((r_seq x =? r_seq y) && (r_id x <=? r_id y)).

Fixpoint ins_row (x : row) (l : list row) : list row :=
  match l with
  | [] => [x]
  | y :: t => if row_le x y then x :: y :: t else y :: ins_row x t
  end.

Definition sort_rows (l : list row) : list row := fold_right ins_row [] l.

Definition entries (s : store) (a l : N) (after until : option N) : option (list row) :=
  match sort_rows (range_rows s a l after until) with
  | [] => None
  | es => Some es
  end.

Definition sumN (f : row -> N) (rs : list row) : N := fold_right (fun r acc => f r + acc) 0 rs.

(** Result of a store call: a value, an [Err], or a panic. *)
Inductive res (A : Type) := Val (a : A) | Err | Panic.
Arguments Val {A} a.
Arguments Err {A}.
Arguments Panic {A}.

Definition size (s : store) (a l : N) (after until : option N) : res (option (N * N)) :=
  let rs := range_rows s a l after until in
  let h := sumN r_hsize rs in
  let p := sumN r_psize rs in
  let c := N.of_nat (length rs) in
  if (two32 <=? h) || (two32 <=? p) || (two32 <=? c) then Err
  else Val (Some (c, N.min (h + p) u32_max)).

(** * The code before the two repairs (kept as regression witnesses, see Proofs/LogStore.v) *)

Definition heights_legacy (s : store) (a : N) (logs : list N) : res (option (list (N * N))) :=
  match logs with
  | [] => Panic            (* [", ?".repeat(len() - 1)] *)
  | _ => Val (heights s a logs)
  end.

Definition size_legacy (s : store) (a l : N) (after until : option N) : res (option (N * N)) :=
  let rs := range_rows s a l after until in
  let h := sumN r_hsize rs in
  let p := sumN r_psize rs in
  let c := N.of_nat (length rs) in
  if (two32 <=? h) || (two32 <=? p) || (two32 <=? c) then Err
  else if two32 <=? h + p then Panic   (* u32 + u32, overflow checks on *)
  else Val (Some (c, h + p)).

(** * Commands and queries as one step function over an operation table *)

Record opdef := mkop { o_author : N; o_seq : N; o_psize : N; o_body : bool }.

Definition cbor_uint_len (n : N) : N :=
  if n <? 24 then 1 else if n <? 256 then 2 else if n <? 65536 then 3 else if n <? two32 then 5 else 9.

(** array head, version, 32-byte key, 64-byte signature, payload_size [, payload_hash],
    seq_num [, backlink] *)
Definition header_size (o : opdef) : N :=
  1 + 1 + 34 + 66 + cbor_uint_len (o_psize o) + (if o_psize o =? 0 then 0 else 34)
  + cbor_uint_len (o_seq o) + (if o_seq o =? 0 then 0 else 34).

Definition row_of (k : N) (o : opdef) (l : N) : row :=
  mkrow k (o_author o) l (o_seq o) (header_size o) (o_psize o) (o_body o).

Inductive item :=
| Ins (k l : N)
| Del (k : N)
| DelPayload (k : N)
| Prune (a l u : N)
| Latest (a l : N)
| LatestTx (a l : N)
| Heights (a : N) (logs : list N)
| Entries (a l : N) (after until : option N)
| Size (a l : N) (after until : option N).

Inductive obs :=
| OBool (b : bool)
| ONum (n : N)
| OLatest (cands : list row)          (* admissible answers; [] = None *)
| OHeights (h : option (list (N * N)))
| OEntries (e : option (list row))
| OSize (sz : option (N * N))
| OErr
| OPanic.

Definition step (tab : list opdef) (s : store) (it : item) : store * obs :=
  match it with
  | Ins k l =>
      match nth_error tab (N.to_nat k) with
      | Some o => let '(s', b) := insert_or_ignore s (row_of k o l) in (s', OBool b)
      | None => (s, OErr)
      end
  | Del k => let '(s', b) := delete s k in (s', OBool b)
  | DelPayload k => let '(s', b) := delete_payload s k in (s', OBool b)
  | Prune a l u => let '(s', n) := prune s a l u in (s', ONum n)
  | Latest a l | LatestTx a l => (s, OLatest (latest_candidates s a l))
  | Heights a logs => (s, OHeights (heights s a logs))
  | Entries a l af un => (s, OEntries (entries s a l af un))
  | Size a l af un =>
      (s, match size s a l af un with Val v => OSize v | Err => OErr | Panic => OPanic end)
  end.

Fixpoint run (tab : list opdef) (s : store) (its : list item) : store * list obs :=
  match its with
  | [] => (s, [])
  | it :: r =>
      let '(s1, o) := step tab s it in
      let '(s2, os) := run tab s1 r in
      (s2, o :: os)
  end.
