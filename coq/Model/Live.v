(** Model of live-mode forwarding: the manager event stream
    (p2panda-sync/src/manager/event_stream.rs [ManagerEventStream::next_event], lines 66-150,
    with manager/mod.rs [session]/[subscribe] and manager/session_map.rs) together with the
    per-session de-duplication of the live loop (protocols/topic_log_sync.rs:202-305; the
    buffer is the C24 model, Model/Dedup.v).

    Static configuration: the sessions of one manager, each with a topic and a remote peer
    ([config]).  Dynamic state: per session its de-duplication buffer [dd] (seeded by the sync
    phase: [seed s] = the operations the session sent to its remote while syncing), its live
    channel [inq] (the [mpsc] of [ToSync::Payload] filled by the manager) and the not yet consumed
    part of its broadcast event channel [evq]; the manager's own buffer [mdd]; and a global
    [log] of what became observable, in order:
      [EArr s op]   session [s] took operation [op] from its remote (sync or live message)
      [ESent s op]  session [s] sent [Live op] to its remote
      [ECons s op]  the manager's event stream handed [OperationReceived op] (of session [s]) to the consumer.

    Transitions ([step]; the theorems quantify over arbitrary label sequences, i.e. over every
    interleaving of sessions, manager and arrivals, with duplicates from several sessions):
      [Arrive s op]   remote of [s] delivers [op]: [dedup.insert]; if new, an OperationReceived
                      event is queued for the manager (topic_log_sync.rs:282-304, log_sync.rs:318-343)
      [Mgr s]         [next_event] takes the oldest event of session [s]: sends
                      [ToSync::Payload(op)] to every *other* session of the same topic
                      (event_stream.rs:108-131), then consults the manager's buffer and hands the
                      event to the consumer only if new (event_stream.rs:141-146)
      [Pump s]        session [s] takes the oldest payload from its live channel:
                      [dedup.insert]; if new, sends [Live op] (topic_log_sync.rs:207-235)
      [Publish t op]  the application publishes a local operation to all sessions of topic [t]
                      (what p2panda-net's TopicManager does with session handles).

    Modelled, not verified: all sessions are in live mode and stay alive (no session is dropped
    from the manager's map; the `drop(session_id)` slip in the missing-sender branch needs an
    inconsistent map and is unreachable here); channels never overflow or lag (flows shorter than
    the capacities 1028); iteration order of the topic's session set is irrelevant (separate
    queues). *)
From Coq Require Import List Arith NArith Bool.
From PV Require Import Model.Dedup.
Import ListNotations.

Record sconf := { sid : N; stopic : N; speer : N }.
Definition config := list sconf.

Fixpoint topic_of (c : config) (s : N) : option N :=
  match c with
  | [] => None
  | x :: r => if N.eqb (sid x) s then Some (stopic x) else topic_of r s
  end.

Fixpoint peer_of (c : config) (s : N) : option N :=
  match c with
  | [] => None
  | x :: r => if N.eqb (sid x) s then Some (speer x) else peer_of r s
  end.

Definition in_topic (c : config) (s t : N) : bool :=
  match topic_of c s with Some x => N.eqb x t | None => false end.

Definition same_topic (c : config) (a b : N) : bool :=
  match topic_of c a with Some t => in_topic c b t | None => false end.

(** The sessions an event of session [s] is forwarded to: same topic, not [s] itself. *)
Definition fwd (c : config) (s x : N) : bool := same_topic c s x && negb (N.eqb x s).

Inductive entry := EArr (s op : N) | ESent (s op : N) | ECons (s op : N).

Record state := {
  dd : N -> buf;
  inq : N -> list N;
  evq : N -> list N;
  mdd : buf;
  log : list entry
}.

Definition upd {A} (f : N -> A) (k : N) (v : A) : N -> A := fun x => if N.eqb x k then v else f x.

Inductive label := Arrive (s op : N) | Mgr (s : N) | Pump (s : N) | Publish (t op : N).

Definition step (c : config) (st : state) (l : label) : state :=
  match l with
  | Arrive s op =>
      let '(b, fresh) := insert (dd st s) op in
      {| dd := upd (dd st) s b; inq := inq st;
         evq := if fresh then upd (evq st) s (evq st s ++ [op]) else evq st;
         mdd := mdd st; log := log st ++ [EArr s op] |}
  | Mgr s =>
      match evq st s with
      | [] => st
      | op :: r =>
          let '(b, fresh) := insert (mdd st) op in
          {| dd := dd st;
             inq := fun x => if fwd c s x then inq st x ++ [op] else inq st x;
             evq := upd (evq st) s r; mdd := b;
             log := if fresh then log st ++ [ECons s op] else log st |}
      end
  | Pump s =>
      match inq st s with
      | [] => st
      | op :: r =>
          let '(b, fresh) := insert (dd st s) op in
          {| dd := upd (dd st) s b; inq := upd (inq st) s r; evq := evq st; mdd := mdd st;
             log := if fresh then log st ++ [ESent s op] else log st |}
      end
  | Publish t op =>
      {| dd := dd st; inq := fun x => if in_topic c x t then inq st x ++ [op] else inq st x;
         evq := evq st; mdd := mdd st; log := log st |}
  end.

Definition run (c : config) (st : state) (tr : list label) : state := fold_left (step c) tr st.

(** Initial state: session buffers hold what the sync phase sent ([seed]); capacities [capS]
    (per session) and [capM] (manager). *)
Definition init (seed : N -> list N) (capS capM : nat) : state :=
  {| dd := fun s => {| items := seed s; cap := capS |};
     inq := fun _ => []; evq := fun _ => []; mdd := new capM; log := [] |}.

(** Nothing in flight for the sessions of the configuration. *)
Definition quiescent (c : config) (st : state) : bool :=
  forallb (fun x => match inq st (sid x), evq st (sid x) with [], [] => true | _, _ => false end) c.

(** A deterministic way to drain everything: [n] rounds of (manager, then pump) over all sessions. *)
Definition round (c : config) : list label :=
  map (fun x => Mgr (sid x)) c ++ map (fun x => Pump (sid x)) c.

Fixpoint settle (c : config) (n : nat) (st : state) : state :=
  match n with
  | 0 => st
  | S k => if quiescent c st then st else settle c k (run c st (round c))
  end.

(** A flow as driven by the correspondence harness: batches of arrivals / publications, each
    followed by draining. *)
Fixpoint flow (c : config) (st : state) (batches : list (list label)) : state :=
  match batches with
  | [] => st
  | b :: r => flow c (settle c (4 * (length b + 2) * (length c + 1)) (run c st b)) r
  end.

(** Sessions of one topic have pairwise different remote peers. *)
Definition distinct_peers (c : config) : Prop :=
  forall a b, same_topic c a b = true -> peer_of c a = peer_of c b -> a = b.
