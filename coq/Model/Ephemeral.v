(** Model of the wrapped ephemeral message and the publisher
    (p2panda/src/streams/ephemeral_stream.rs), for C16.

    Rust                                                   Gallina
    -----------------------------------------------------  -------------------------------------
    signed tuple (version, verifying_key, timestamp,        [fields]
      lamport_timestamp, body)
    [WrappedMessage] = fields + signature                   [wrapped]
    [encode_cbor] of the signed tuple                       [enc : fields -> bytes] (section
                                                            variable, injective by hypothesis)
    [SigningKey::sign] / [VerifyingKey::verify]             [sign] / [verify] (section variables;
                                                            ideal signature by hypotheses)
    [WrappedMessage::from_bytes] after CBOR decoding:       [from_wire]
      version check, then [verify()]
    what a subscription hands out for one channel item      [accept]: [Undecodable] bytes -> nothing
    what it hands out for a sequence of channel items       [sub_run] (stateless: [accept] per item)
    [WrappedMessage::new(body, ts, key)]                    [new_message]
    [EphemeralStreamPublisher::publish]: lock, increment    [publish] / [pub_run] over
      the stored hybrid timestamp, wrap, send               [Model.Timestamp.increment]
    publisher creation: [HybridTimestamp::now()]            initial state [(t0, 0)]

    The definitions are generic in the signature scheme and the encodings (section variables).
    [Sym] below instantiates them with the free term algebra (signature = the pair (key,
    message), encodings = identity), which is what the correspondence run evaluates and what
    shows that the hypotheses used in Proofs/Ephemeral.v are satisfiable.

    Modelled, not verified: Ed25519 ([verify_strict]) and ciborium's encoder/decoder.  CBOR
    decoding is not modelled at byte level: an incoming byte string is either [Undecodable] or
    [Decoded w]; byte-level tampering of an honest encoding (one byte changed, truncation) is
    taken to give [Undecodable] or a [Decoded] tuple that differs from the original, except for
    carrier-only edits which leave the decoded tuple unchanged: trailing bytes (ignored by the
    decoder) and an array header declaring more than six elements or an indefinite length
    (ciborium's tuple visitor reads six elements and stops).  All of this is observed on every
    run by the harness (every byte position of honest messages). *)
From Coq Require Import List NArith Bool.
From PV Require Import Model.Timestamp.
Import ListNotations.
Local Open Scope N_scope.

Definition MESSAGE_VERSION : N := 1.

Section Scheme.
  Variables key skey sigT bytes : Type.
  Variable sk_of : key -> skey.
  Variable sign : skey -> bytes -> sigT.
  Variable verify : key -> bytes -> sigT -> bool.

  Record fields := { ver : N; author : key; time : N; logical : N; body : N }.
  Record wrapped := { wf : fields; wsig : sigT }.

  Variable enc : fields -> bytes.

  Inductive werr := UnsupportedVersion | InvalidSignature.

  Definition from_wire (w : wrapped) : wrapped + werr :=
    if negb (ver (wf w) =? MESSAGE_VERSION) then inr UnsupportedVersion
    else if verify (author (wf w)) (enc (wf w)) (wsig w) then inl w
    else inr InvalidSignature.

  Inductive incoming := Undecodable | Decoded (w : wrapped).

  (** What the subscription yields for one incoming item (nothing for anything invalid). *)
  Definition accept (i : incoming) : option wrapped :=
    match i with
    | Undecodable => None
    | Decoded w => match from_wire w with inl m => Some m | inr _ => None end
    end.

  (** A subscription over a whole sequence of incoming items
      ([EphemeralStreamSubscription::poll_next], item after item).  The subscription keeps no
      state between two items (no cache of verified signatures, no de-duplication): each item
      goes through [from_bytes] on its own, so an exact duplicate of an authentic message is
      yielded again and a tampered copy is rejected wherever it stands in the sequence. *)
  Fixpoint sub_run (l : list incoming) : list wrapped :=
    match l with
    | [] => []
    | i :: r => match accept i with Some m => m :: sub_run r | None => sub_run r end
    end.

  (** Specification side (no [verify], no [accept]): a message is authentic when it has the
      supported version and carries the signature of its claimed author over exactly its
      fields; [auth_filter l ys]: [ys] are the authentic messages of [l], in order. *)
  Definition authentic (w : wrapped) : Prop :=
    ver (wf w) = MESSAGE_VERSION /\ wsig w = sign (sk_of (author (wf w))) (enc (wf w)).

  Inductive auth_filter : list incoming -> list wrapped -> Prop :=
  | af_nil : auth_filter [] []
  | af_keep w l ys : authentic w -> auth_filter l ys -> auth_filter (Decoded w :: l) (w :: ys)
  | af_drop w l ys : ~ authentic w -> auth_filter l ys -> auth_filter (Decoded w :: l) ys
  | af_skip l ys : auth_filter l ys -> auth_filter (Undecodable :: l) ys.

  Definition mk_fields (pk : key) (ts : hts) (b : N) : fields :=
    {| ver := MESSAGE_VERSION; author := pk; time := fst ts; logical := snd ts; body := b |}.

  Definition new_message (pk : key) (ts : hts) (b : N) : wrapped :=
    {| wf := mk_fields pk ts b; wsig := sign (sk_of pk) (enc (mk_fields pk ts b)) |}.

  Definition msg_ts (w : wrapped) : hts := (time (wf w), logical (wf w)).

  (** One publish at clock reading [now]: new publisher state and the message sent. *)
  Definition publish (pk : key) (st : hts) (now b : N) : option (hts * wrapped) :=
    match increment st now with
    | None => None
    | Some ts' => Some (ts', new_message pk ts' b)
    end.

  (** A publisher's life: script of (clock reading, body); [false] = panic. *)
  Fixpoint pub_run (pk : key) (st : hts) (script : list (N * N)) : list wrapped * bool :=
    match script with
    | [] => ([], true)
    | (now, b) :: r =>
        match publish pk st now b with
        | None => ([], false)
        | Some (st', w) => let '(ms, ok) := pub_run pk st' r in (w :: ms, ok)
        end
    end.
End Scheme.

Arguments ver {key}. Arguments author {key}. Arguments time {key}. Arguments logical {key}. Arguments body {key}.
Arguments wf {key sigT}. Arguments wsig {key sigT}.
Arguments Undecodable {key sigT}. Arguments Decoded {key sigT}.

(** * Symbolic instance (free term algebra) *)
Module Sym.
  Definition key := N.
  Definition skey := N.
  Definition sk_of (k : key) : skey := k.
  Definition bytes := fields key.
  Inductive sigT := Sg (k : skey) (m : bytes) | Junk.

  Definition fields_eqb (a b : fields key) : bool :=
    (ver a =? ver b) && (author a =? author b) && (time a =? time b)
    && (logical a =? logical b) && (body a =? body b).

  Definition sign (k : skey) (m : bytes) : sigT := Sg k m.
  Definition verify (p : key) (m : bytes) (s : sigT) : bool :=
    match s with
    | Sg k m' => (k =? sk_of p) && fields_eqb m m'
    | Junk => false
    end.
  Definition enc (f : fields key) : bytes := f.

  Definition from_wire := from_wire key sigT bytes verify enc.
  Definition accept := accept key sigT bytes verify enc.
  Definition new_message := new_message key skey sigT bytes sk_of sign enc.
  Definition pub_run := pub_run key skey sigT bytes sk_of sign enc.
  Definition sub_run := sub_run key sigT bytes verify enc.
End Sym.
