(** Overlapping [ingest_operation] calls on one store (C05, concurrent deliveries).

    Rust code each definition stands for:

    - [tstate], [step]     one call of p2panda-stream/src/ingest/operation.rs [ingest_operation],
                           cut at its await points, in the order of the real code:
                             [TStart]   nothing done yet; the step runs [validate_operation]
                                        (pure, before any store access);
                             [TWait]    validated, inside [store.begin()] waiting for the permit;
                             [THold]    permit acquired ([Semaphore::new(1)] in
                                        p2panda-store/src/sqlite.rs [begin]: at most one holder),
                                        transaction open;
                             [TCheck]   [has_operation_tx] answered "not stored";
                             [TRead p]  [get_latest_entry_tx] answered [p] (read INSIDE the
                                        transaction, i.e. while holding the permit);
                             [TIns]     [validate_prunable_backlink] passed, [insert_operation]
                                        (+ topic association) written into the open transaction,
                                        not yet visible to others;
                             [TDone r]  returned [r]; on [commit] the row becomes part of the
                                        committed store and the permit is released; on the early
                                        return ([rollback]) and on a validation error / panic (the
                                        permit is dropped, its [Drop] rolls back and then releases
                                        the semaphore) the store is unchanged and the permit is
                                        released.
    - [config]             committed table content, current permit holder, state of every call.
    - [run_sched]          an arbitrary interleaving: a list of call indices, each entry lets that
                           call run up to its next await point; a step of a call that waits for
                           the permit held by another call, or that has returned, does nothing.
    - [seq_run]            the same calls awaited one after the other in the order [pi].
    - [vstate], [vstep]    the VARIANT (not the code as it is; regression witness only) that reads
                           the log tip with the non-transactional [get_latest_entry] before
                           [begin()] and validates against that value later.

    Modelled, not verified: the permit is a fair binary semaphore and is released only after
    commit / rollback finished (sqlite.rs [commit], [rollback], [Drop for TransactionPermit]);
    uncommitted writes of the holder are invisible to the other calls (they only read through
    [*_tx] methods, which need the permit); the rollback task spawned by [Drop] does run. *)
From Coq Require Import List Arith NArith Bool.
From PV Require Import Model.Ingest.
Import ListNotations.

Definition dummy : op := mkOp 0 0 0 0 0 None false false false.

Inductive tstate :=
| TStart | TWait | THold | TCheck | TRead (p : option row) | TIns | TDone (r : res).

Record config := mkCfg { c_store : store; c_lock : option nat; c_th : nat -> tstate }.

Definition upd {A : Type} (f : nat -> A) (i : nat) (v : A) : nat -> A :=
  fun j => if Nat.eqb j i then v else f j.

Definition init (s0 : store) : config := mkCfg s0 None (fun _ => TStart).

Definition is_done (t : tstate) : bool := match t with TDone _ => true | _ => false end.

Definition all_done (k : nat) (c : config) : bool := forallb (fun i => is_done (c_th c i)) (seq 0 k).

Section Calls.
  Variable vpb : option row -> op -> bool -> vres.
  Variable ops : list op.

  Definition opn (i : nat) : op := nth i ops dummy.

  (** Call [i] runs to its next await point. *)
  Definition step (c : config) (i : nat) : config :=
    if negb (i <? List.length ops) then c else
    let o := opn i in
    let s := c_store c in
    match c_th c i with
    | TStart =>
        if o_valid o then mkCfg s (c_lock c) (upd (c_th c) i TWait)
        else mkCfg s (c_lock c) (upd (c_th c) i (TDone (Rejected EInvalid)))
    | TWait =>
        match c_lock c with
        | None => mkCfg s (Some i) (upd (c_th c) i THold)
        | Some _ => c
        end
    | THold =>
        if has_op s (o_id o) then mkCfg s None (upd (c_th c) i (TDone AlreadyExists))
        else mkCfg s (c_lock c) (upd (c_th c) i TCheck)
    | TCheck => mkCfg s (c_lock c) (upd (c_th c) i (TRead (latest s (o_author o) (o_log o))))
    | TRead p =>
        match vpb p o (o_prune o) with
        | VOk => mkCfg s (c_lock c) (upd (c_th c) i TIns)
        | VErr e => mkCfg s None (upd (c_th c) i (TDone (Rejected e)))
        | VPanic => mkCfg s None (upd (c_th c) i (TDone Panicked))
        end
    | TIns => mkCfg (s ++ [row_of o]) None (upd (c_th c) i (TDone Inserted))
    | TDone _ => c
    end.

  Definition run_sched (sch : list nat) (c : config) : config := fold_left step sch c.

  (** The calls [pi] awaited one after the other: final store and result per call. *)
  Definition seq_step (acc : store * list (nat * res)) (i : nat) : store * list (nat * res) :=
    let '(s, r) := ingest_with vpb (fst acc) (opn i) in (s, snd acc ++ [(i, r)]).

  Definition seq_run (s0 : store) (pi : list nat) : store * list (nat * res) :=
    fold_left seq_step pi (s0, []).

  (** * Variant: tip read before [begin()] (non-transactional read, no permit). *)
  Inductive vstate :=
  | VStart | VEarly (p : option row) | VHold (p : option row) | VRead (p : option row) | VIns | VDone (r : res).

  Record vconfig := mkV { v_store : store; v_lock : option nat; v_th : nat -> vstate }.

  Definition vstep (c : vconfig) (i : nat) : vconfig :=
    if negb (i <? List.length ops) then c else
    let o := opn i in
    let s := v_store c in
    match v_th c i with
    | VStart =>
        if o_valid o then mkV s (v_lock c) (upd (v_th c) i (VEarly (latest s (o_author o) (o_log o))))
        else mkV s (v_lock c) (upd (v_th c) i (VDone (Rejected EInvalid)))
    | VEarly p =>
        match v_lock c with
        | None => mkV s (Some i) (upd (v_th c) i (VHold p))
        | Some _ => c
        end
    | VHold p =>
        if has_op s (o_id o) then mkV s None (upd (v_th c) i (VDone AlreadyExists))
        else mkV s (v_lock c) (upd (v_th c) i (VRead p))
    | VRead p =>
        match vpb p o (o_prune o) with
        | VOk => mkV s (v_lock c) (upd (v_th c) i VIns)
        | VErr e => mkV s None (upd (v_th c) i (VDone (Rejected e)))
        | VPanic => mkV s None (upd (v_th c) i (VDone Panicked))
        end
    | VIns => mkV (s ++ [row_of o]) None (upd (v_th c) i (VDone Inserted))
    | VDone _ => c
    end.

  Definition vinit (s0 : store) : vconfig := mkV s0 None (fun _ => VStart).
  Definition vrun_sched (sch : list nat) (c : vconfig) : vconfig := fold_left vstep sch c.
  Definition v_is_done (t : vstate) : bool := match t with VDone _ => true | _ => false end.
  Definition v_all_done (k : nat) (c : vconfig) : bool := forallb (fun i => v_is_done (v_th c i)) (seq 0 k).
End Calls.

(** * What the harness compares with: the outcomes of all sequential orders of a batch.

    After the batch the harness runs the log-prune step of every prune-flagged call that
    returned Ok, in batch order ([prune_below] calls commute: they are filters). *)
Fixpoint insert_all (x : nat) (l : list nat) : list (list nat) :=
  match l with
  | [] => [[x]]
  | y :: t => (x :: y :: t) :: map (cons y) (insert_all x t)
  end.

Fixpoint perms (l : list nat) : list (list nat) :=
  match l with
  | [] => [[]]
  | x :: t => flat_map (insert_all x) (perms t)
  end.

Definition result_of (rs : list (nat * res)) (i : nat) : res :=
  match find (fun x => Nat.eqb (fst x) i) rs with Some x => snd x | None => Panicked end.

Definition prune_after (batch : list op) (rs : list res) (s : store) : store :=
  fold_left (fun s x => if res_ok (snd x) && o_prune (fst x)
                        then prune_below s (o_author (fst x)) (o_log (fst x)) (o_seq (fst x)) else s)
            (combine batch rs) s.

(** results per call, rows appended in commit order, store before and after the prunes *)
Record outcome := mkOut { out_res : list res; out_ins : list row; out_before : store; out_after : store }.

Definition outcome_of (s0 : store) (batch : list op) (pi : list nat) : outcome :=
  let '(s, rs) := seq_run validate_prunable_backlink batch s0 pi in
  let res := map (result_of rs) (seq 0 (List.length batch)) in
  mkOut res (skipn (List.length s0) s) s (prune_after batch res s).

Definition outcomes (s0 : store) (batch : list op) : list outcome :=
  map (outcome_of s0 batch) (perms (seq 0 (List.length batch))).

(** Rows in insertion order: within one log the sequence numbers strictly increase. *)
Fixpoint incr (s : store) : Prop :=
  match s with
  | [] => True
  | r :: t => (forall x, In x t -> in_log (r_author r) (r_log r) x = true -> (r_seq r < r_seq x)%N) /\ incr t
  end.

Fixpoint incrb (s : store) : bool :=
  match s with
  | [] => true
  | r :: t => forallb (fun x => negb (in_log (r_author r) (r_log r) x) || (r_seq r <? r_seq x)%N) t && incrb t
  end.
