(** Model of p2panda-core/src/timestamp.rs [HybridTimestamp] and of the two p2panda-net
    functions that rely on it (p2panda-net/src/addrs.rs).

    Rust                                              Gallina
    ------------------------------------------------  ------------------------------------------
    [HybridTimestamp(Timestamp, LamportTimestamp)]    [hts = (time, logical) : N * N]
    derived [Ord] (lexicographic on the two fields)   [hlt] / [hltb]
    [Timestamp::now()] (wall clock, micros, u64)      explicit argument [now : N]
    [HybridTimestamp::now()]                          [hnow now = (now, 0)]
    [LamportTimestamp::increment] ([self.0 + 1])      [lamport_inc]: [None] = overflow panic of the
                                                      debug build (overflow checks on, which is how
                                                      the harness is built); [lamport_inc_wrap] is
                                                      the release build (wraps to 0)
    [HybridTimestamp::increment] (after the repair    [increment]
       "fix: HybridTimestamp::increment ...")
    the same function before the repair               [increment_asis] (kept as regression witness)
    [UnsignedTransportInfo::increment_timestamp]      [increment_timestamp]
    [NodeInfo::update_transports]                     [update_transports]

    Modelled, not verified: the clock (an arbitrary [N] handed in; on the Rust side
    [duration.as_micros() as u64] of the mocked [SystemTime]); the Ed25519 signature check of
    [AuthenticatedTransportInfo::verify] is the boolean field [sig_ok] of the model record
    (what matters here is only that a record signed by the node itself verifies); addresses are
    an opaque number. *)
From Coq Require Import List NArith Bool.
Import ListNotations.
Local Open Scope N_scope.

Definition u64max : N := 18446744073709551615.

Definition hts : Type := (N * N)%type.

Definition hltb (a b : hts) : bool :=
  (fst a <? fst b) || ((fst a =? fst b) && (snd a <? snd b)).
Definition hlt (a b : hts) : Prop :=
  fst a < fst b \/ (fst a = fst b /\ snd a < snd b).

Definition hnow (now : N) : hts := (now, 0).

(** [self.0 + 1] on u64 with overflow checks. *)
Definition lamport_inc (l : N) : option N := if l <? u64max then Some (l + 1) else None.
(** ... and without (release profile). *)
Definition lamport_inc_wrap (l : N) : N := if l <? u64max then l + 1 else 0.

(** Repaired code:
      let timestamp = Timestamp::now();
      if timestamp > self.0 { Self(timestamp, LamportTimestamp::default()) }
      else { Self(self.0, self.1.increment()) }                                   *)
Definition increment (h : hts) (now : N) : option hts :=
  if fst h <? now then Some (now, 0)
  else match lamport_inc (snd h) with
       | Some l => Some (fst h, l)
       | None => None
       end.

Definition increment_wrap (h : hts) (now : N) : hts :=
  if fst h <? now then (now, 0) else (fst h, lamport_inc_wrap (snd h)).

(** Code before the repair:
      if timestamp == self.0 { Self(timestamp, self.1.increment()) }
      else { Self(timestamp, LamportTimestamp::default()) }                       *)
Definition increment_asis (h : hts) (now : N) : option hts :=
  if now =? fst h
  then match lamport_inc (snd h) with Some l => Some (now, l) | None => None end
  else Some (now, 0).

(** A sequence of increments under a scripted clock; the outputs so far are returned together
    with [false] when an increment panicked (the run stops there). *)
Fixpoint run (h : hts) (nows : list N) : list hts * bool :=
  match nows with
  | [] => ([], true)
  | n :: r =>
      match increment h n with
      | None => ([], false)
      | Some h1 => let '(out, ok) := run h1 r in (h1 :: out, ok)
      end
  end.

(** * Transport records (p2panda-net/src/addrs.rs) *)
Record tinfo := { ts : hts; sig_ok : bool; addrs : N }.

(** [UnsignedTransportInfo::increment_timestamp(self, previous)]: [self.timestamp] was taken
    from [HybridTimestamp::now()] when the record was created; with a previous record it is
    replaced by [previous.timestamp.increment()]. *)
Definition increment_timestamp (own : hts) (previous : option tinfo) (now : N) : option hts :=
  match previous with
  | Some p => increment (ts p) now
  | None => Some own
  end.

Inductive upd := UErr | UOk (newer : bool).

(** [NodeInfo::update_transports]: verify first, then last-write-wins on the timestamp. *)
Definition update_transports (cur : option tinfo) (other : tinfo) : upd * option tinfo :=
  if negb (sig_ok other) then (UErr, cur)
  else match cur with
       | None => (UOk true, Some other)
       | Some c => if hltb (ts c) (ts other) then (UOk true, Some other) else (UOk false, cur)
       end.

(** A node republishing its own record again and again: each time a fresh record (created at
    clock reading [fst p], incremented at clock reading [snd p]) is derived from the one stored
    in its own [NodeInfo], signed with its own key and handed to [update_transports].  The
    result lists, per round, the new timestamp and whether it was accepted as newer; [false]
    marks a panic. *)
Fixpoint republish (cur : tinfo) (rounds : list (N * N)) : list (hts * bool) * bool :=
  match rounds with
  | [] => ([], true)
  | (created, now) :: r =>
      match increment_timestamp (hnow created) (Some cur) now with
      | None => ([], false)
      | Some t =>
          let other := {| ts := t; sig_ok := true; addrs := addrs cur + 1 |} in
          let '(res, st) := update_transports (Some cur) other in
          let acc := match res with UOk true => true | _ => false end in
          let cur' := match st with Some c => c | None => cur end in
          let '(out, ok) := republish cur' r in ((t, acc) :: out, ok)
      end
  end.
