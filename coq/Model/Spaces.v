(** Model of the message dispatch and the replay guards of the p2panda-spaces manager.

    Rust (p2panda-spaces/src):
    - [route] / [route_asis]      <-> the [match &message.borrow()] in [Manager::process]
                                      (manager.rs): which [SpacesArgs] variant goes to which
                                      processor.  [TPanic] stands for [unimplemented!()] on a path a
                                      remote peer selects by choosing the message kind/content.
    - [deliver]                   <-> [TestPeer::persist_operation] + [Manager::process_persisted]:
                                      the operation is stored ([INSERT OR IGNORE] = [store_msg]),
                                      routed, the dispatch preconditions of
                                      [handle_space_membership_message] are checked (referenced
                                      auth message present in the message store, is an [Auth]
                                      message, space known or the action is a "create"), then the
                                      replay guard in front of each handler:
        KeyBundle        (author, bundle) already in the key registry
                         ([IdentityManager::has_key_bundle], added by the fix; checked before the
                         bundle is verified, so a registered bundle that expired meanwhile is
                         skipped silently)
        Auth             [groups_y.inner.operations.contains_key(id)]          (group.rs)
        SpaceMembership  [y.encryption_y.orderer.has_seen(id)] of that space   (space.rs)
        Application      the same orderer guard (added by the fix)
      and, on success of the handler, the state is persisted, which records the key:
      the auth operation id in the operations map, the message id *and its dependencies* as nodes
      of the space's orderer graph ([add_dependency] uses [add_edge], which creates the dependency
      nodes), the bundle in the registry, the space id in the spaces table.
    - [cfg]                       selects between the code as found ([asis]) and the code after the
                                  [fix:] commits ([fixed]); theorems are about [fixed], the
                                  refutations about [asis] are kept for the record.

    Modelled, not verified: the handlers themselves (p2panda-auth group CRDT, DCGKA, encryption,
    event construction) are *parameters* [handlers]: any function from the full manager state and
    the message to "error" or "new inner state + events".  What is assumed about the real handlers
    is only what the wrapper does here on their behalf: a successful run records the key, an
    error persists nothing, and no handler removes keys from the guard sets.  Validity of a key
    bundle ([kb_valid]: signature + lifetime at the time of processing) is a predicate of the
    message, i.e. expiry between two deliveries is not modelled (it turns the second delivery into
    an error, which emits nothing either).  Panics inside handlers are not modelled; they are
    searched for by the correspondence runs. *)
From Coq Require Import List NArith Bool.
Import ListNotations.

(** * Messages *)

Inductive action := ACreate | AAdd | ARemove | APromote | ADemote.

Inductive kind :=
| KKeyBundle (bundle : N)
| KAuth (a : action)
| KSpaceMembership (space : N) (auth_ref : N)
| KSpaceUpdate (space : N)
| KApplication (space : N).

(** [mhok] is only used by the executable instance of the handlers (see [Oracle/C39.v]): the
    answer of the unmodelled handler for this delivery.  The theorems quantify over all handlers
    and never look at it. *)
Record msg := { mid : N; mauthor : N; mkind : kind; mdeps : list N; mhok : bool }.

Definition supported (a : action) : bool :=
  match a with APromote | ADemote => false | _ => true end.
Definition is_create (a : action) : bool :=
  match a with ACreate => true | _ => false end.

(** * Routing *)

Inductive target := TIdentity | TGroup | TMembership | TApplication | TReject | TPanic.

Record cfg := {
  su_rejects : bool;       (* SpaceUpdate returns UnexpectedMessage instead of unimplemented!() *)
  promote_rejects : bool;  (* Promote/Demote auth actions are rejected instead of unimplemented!() *)
  kb_guard : bool;         (* key bundles already registered are skipped *)
  app_guard : bool         (* application messages already seen by the space are skipped *)
}.
Definition fixed : cfg := {| su_rejects := true; promote_rejects := true; kb_guard := true; app_guard := true |}.
Definition asis : cfg := {| su_rejects := false; promote_rejects := false; kb_guard := false; app_guard := false |}.

Definition route_cfg (c : cfg) (k : kind) : target :=
  match k with
  | KKeyBundle _ => TIdentity
  | KAuth a => if promote_rejects c && negb (supported a) then TReject else TGroup
  | KSpaceMembership _ _ => TMembership
  | KSpaceUpdate _ => if su_rejects c then TReject else TPanic
  | KApplication _ => TApplication
  end.
Definition route := route_cfg fixed.
Definition route_asis := route_cfg asis.

(** * State *)

Inductive skind := SKeyBundle | SAuth (a : action) | SMembership | SUpdate | SApplication.
Definition skind_of (k : kind) : skind :=
  match k with
  | KKeyBundle _ => SKeyBundle
  | KAuth a => SAuth a
  | KSpaceMembership _ _ => SMembership
  | KSpaceUpdate _ => SUpdate
  | KApplication _ => SApplication
  end.

Definition memN (x : N) (l : list N) : bool := existsb (N.eqb x) l.
Definition eqb2 (a b : N * N) : bool := N.eqb (fst a) (fst b) && N.eqb (snd a) (snd b).
Definition mem2 (x : N * N) (l : list (N * N)) : bool := existsb (eqb2 x) l.

Fixpoint lookup {A} (k : N) (l : list (N * A)) : option A :=
  match l with
  | [] => None
  | (k', v) :: r => if N.eqb k k' then Some v else lookup k r
  end.

Record mstate (S : Type) := {
  auth_ops : list N;           (* keys of the global auth operations map *)
  space_seen : list (N * N);   (* (space, id): nodes of the orderer graph of that space *)
  spaces : list N;             (* spaces table *)
  stored : list (N * skind);   (* operation store: id -> variant of the stored message *)
  bundles : list (N * N);      (* key registry: (member, bundle) *)
  inner : S                    (* everything the handlers own *)
}.
Arguments auth_ops {S}. Arguments space_seen {S}. Arguments spaces {S}. Arguments stored {S}.
Arguments bundles {S}. Arguments inner {S}.

Definition init {S} (s : S) : mstate S :=
  {| auth_ops := []; space_seen := []; spaces := []; stored := []; bundles := []; inner := s |}.

(** [INSERT OR IGNORE INTO operations_v1]. *)
Definition store_msg {S} (st : mstate S) (m : msg) : mstate S :=
  match lookup (mid m) (stored st) with
  | Some _ => st
  | None => {| auth_ops := auth_ops st; space_seen := space_seen st; spaces := spaces st;
               stored := stored st ++ [(mid m, skind_of (mkind m))]; bundles := bundles st; inner := inner st |}
  end.

(** What persisting the result of a successful handler run records. *)
Definition record {S} (st : mstate S) (m : msg) (s' : S) : mstate S :=
  match mkind m with
  | KKeyBundle b =>
      {| auth_ops := auth_ops st; space_seen := space_seen st; spaces := spaces st; stored := stored st;
         bundles := (mauthor m, b) :: bundles st; inner := s' |}
  | KAuth _ =>
      {| auth_ops := mid m :: auth_ops st; space_seen := space_seen st; spaces := spaces st; stored := stored st;
         bundles := bundles st; inner := s' |}
  | KSpaceMembership sp _ | KApplication sp =>
      {| auth_ops := auth_ops st;
         space_seen := (sp, mid m) :: map (pair sp) (mdeps m) ++ space_seen st;
         spaces := if memN sp (spaces st) then spaces st else sp :: spaces st;
         stored := stored st; bundles := bundles st; inner := s' |}
  | KSpaceUpdate _ => st
  end.

(** * Outcomes *)

Inductive err := EUnexpected | EMissingAuth | EIncorrectVariant | EHandler (t : target).
Inductive outcome (E : Type) := Panic | Err (e : err) | Done (events : list E).
Arguments Panic {E}. Arguments Err {E}. Arguments Done {E}.

Section Manager.
  Variable S : Type.   (* handler-owned state *)
  Variable E : Type.   (* events *)

  Record handlers := {
    kb_valid : msg -> bool;                                        (* key_bundle.verify() *)
    ev_kb : N -> E;                                                (* Event::KeyBundle { author } *)
    h_identity : mstate S -> msg -> option S;                      (* register_member *)
    h_group : mstate S -> msg -> option (S * list E);              (* Group::process *)
    h_member : mstate S -> msg -> option (S * list E);             (* Space::handle_membership_message *)
    h_app : mstate S -> msg -> option (S * list E)                 (* Space::handle_application_message *)
  }.

  Variable c : cfg.
  Variable H : handlers.

  Definition run_handler (t : target) (h : mstate S -> msg -> option (S * list E)) (st : mstate S) (m : msg)
    : mstate S * outcome E :=
    match h st m with
    | None => (st, Err (EHandler t))
    | Some (s', ev) => (record st m s', Done ev)
    end.

  (** [Manager::process_persisted] after the operation has been stored. *)
  Definition process (st : mstate S) (m : msg) : mstate S * outcome E :=
    match mkind m with
    | KKeyBundle b =>
        if kb_guard c && mem2 (mauthor m, b) (bundles st) then (st, Done [])
        else if negb (kb_valid H m) then (st, Err (EHandler TIdentity))
        else match h_identity H st m with
             | None => (st, Err (EHandler TIdentity))
             | Some s' => (record st m s', Done [ev_kb H (mauthor m)])
             end
    | KAuth a =>
        if promote_rejects c && negb (supported a) then (st, Err EUnexpected)
        else if memN (mid m) (auth_ops st) then (st, Done [])
        else if negb (supported a) then
          (* as found: [auth_message_to_group_event] is [unimplemented!()] for these actions, the
             panic comes after [AuthGroup::process] and before anything is persisted *)
          match h_group H st m with None => (st, Err (EHandler TGroup)) | Some _ => (st, Panic) end
        else run_handler TGroup (h_group H) st m
    | KSpaceMembership sp ref =>
        match lookup ref (stored st) with
        | None => (st, Err EMissingAuth)
        | Some (SAuth a) =>
            if promote_rejects c && negb (supported a) then (st, Err EUnexpected)
            else if memN sp (spaces st) || is_create a then
              (* [get_or_init_state]: an unknown space starts with an empty orderer *)
              if memN sp (spaces st) && mem2 (sp, mid m) (space_seen st) then (st, Done [])
              else if negb (supported a) then
                (* as found: [EncryptionMessage::from_membership] is [unimplemented!()] *)
                match h_member H st m with None => (st, Err (EHandler TMembership)) | Some _ => (st, Panic) end
              else run_handler TMembership (h_member H) st m
            else (st, Err EUnexpected)
        | Some _ => (st, Err EIncorrectVariant)
        end
    | KSpaceUpdate _ => if su_rejects c then (st, Err EUnexpected) else (st, Panic)
    | KApplication sp =>
        if memN sp (spaces st) then
          if app_guard c && mem2 (sp, mid m) (space_seen st) then (st, Done [])
          else run_handler TApplication (h_app H) st m
        else (st, Err EUnexpected)
    end.

  Definition deliver (st : mstate S) (m : msg) : mstate S * outcome E := process (store_msg st m) m.

  (** Messages a peer forged itself: [forge] stores them, the [*_persisted] API persists the
      resulting state, i.e. they are recorded without going through [process]. *)
  Definition local (st : mstate S) (m : msg) : mstate S := record (store_msg st m) m (inner st).

  Inductive op := ODeliver (m : msg) | OLocal (m : msg).

  Definition step (st : mstate S) (o : op) : mstate S * option (outcome E) :=
    match o with
    | ODeliver m => let '(st', r) := deliver st m in (st', Some r)
    | OLocal m => (local st m, None)
    end.

  Fixpoint run (st : mstate S) (ops : list op) : mstate S :=
    match ops with
    | [] => st
    | o :: r => run (fst (step st o)) r
    end.

  Fixpoint trace (st : mstate S) (ops : list op) : list (option (outcome E)) :=
    match ops with
    | [] => []
    | o :: r => let '(st', x) := step st o in x :: trace st' r
    end.
End Manager.

Arguments kb_valid {S E}. Arguments ev_kb {S E}. Arguments h_identity {S E}. Arguments h_group {S E}.
Arguments h_member {S E}. Arguments h_app {S E}.

(** What the second processing of a message may at most return, given the first outcome: the same
    error, or success without events. *)
Definition quiet {E} (o : outcome E) : outcome E :=
  match o with Done _ => Done [] | x => x end.

(** * The generic replay guard: a [seen] set in front of an arbitrary handler. *)
Section Guard.
  Variables (St M K Ev : Type).
  Variable key : M -> K.
  Variable keqb : K -> K -> bool.
  Variable handler : list K -> St -> M -> option (St * list Ev).

  Definition gstep (s : list K * St) (m : M) : (list K * St) * list Ev :=
    if existsb (keqb (key m)) (fst s) then (s, [])
    else match handler (fst s) (snd s) m with
         | None => (s, [])
         | Some (s', ev) => ((key m :: fst s, s'), ev)
         end.

  Fixpoint grun (s : list K * St) (ms : list M) : list K * St :=
    match ms with
    | [] => s
    | m :: r => grun (fst (gstep s m)) r
    end.
End Guard.
