(** Model of p2panda-core/src/cursor.rs ([Cursor]), p2panda/src/streams/acked.rs ([Acked::ack],
    [Acked::cursor]) and the cursor table of p2panda-store/src/cursors/sqlite.rs — definitions only.

    Rust                                                 Gallina
    -------------------------------------------------    ------------------------------------
    [Cursor { name, state }]                              [cursor] ([cname], [cstate])
    [Cursor::log_height]                                  [log_height]
    [Cursor::compare(&self, other)]                       [cursor_compare c other = compare other (cstate c)]
    [Cursor::advance(author, log_id, log_height)]         [advance]
    table [cursors_v1(name PRIMARY KEY, cursor)]          [cstore = list (name * heights)]
    [CursorStore::get_cursor] / [set_cursor] (upsert)     [get_cursor] / [set_cursor]
    [Acked { cursor_name, topic, store, semaphore }]      [acked] ([aname], [atopic]) + a [cstore]
    [Acked::cursor] (stored cursor or an empty one)       [acked_cursor]
    [Acked::ack(header)]                                  [ack]
    [LogId::from_topic(topic)]                            [log_id_of_topic]

    Cursor names and topics are [N] (index in the scenario).  A header is reduced to the three
    fields [ack] reads: [verifying_key], [extensions.log_id()], [seq_num].

    Modelled, not verified:
    - [LogId::from_topic] is BLAKE3 of the topic bytes; log ids are identified with the index of
      the topic they are derived from ([log_id_of_topic t = t]), i.e. distinct topics have
      distinct log ids (collision freedom of the hash);
    - the SQLite upsert / select of [cursors_v1] behaves as a finite map keyed by name, and the
      CBOR encoding of a cursor decodes to the same cursor;
    - one [ack] is atomic: the instance's semaphore (one permit) serialises the calls made
      through one [Acked] (and its clones).  [ack_read]/[ack_write] split the call at its store
      accesses to describe what two *separately constructed* instances with the same cursor name
      could do (Proofs/Cursor.v [two_instances_can_regress]); that situation is outside the
      property's quantifier (one [Acked] per topic stream). *)
From Coq Require Import List Arith NArith Bool.
From PV Require Import Model.Heights.
Import ListNotations.

Record cursor := { cname : N; cstate : heights }.

Definition cursor_new (name : N) (st : heights) : cursor := {| cname := name; cstate := st |}.

Definition log_height (c : cursor) (a l : N) : option N := lookup2 (cstate c) a l.

Definition cursor_compare (c : cursor) (other : heights) : ranges := compare other (cstate c).

(** [advance]: ignore a height lower than or equal to the current one, otherwise
    [state.entry(author).or_default().insert(log_id, log_height)]. *)
Definition advance (c : cursor) (a l h : N) : cursor :=
  match log_height c a l with
  | Some cur =>
      if N.leb h cur then c
      else {| cname := cname c; cstate := set2 (cstate c) a l h |}
  | None => {| cname := cname c; cstate := set2 (cstate c) a l h |}
  end.

(** One advance call: author, log id, height. *)
Definition adv := (N * N * N)%type.

Definition advance_all (c : cursor) (xs : list adv) : cursor :=
  fold_left (fun c x => advance c (fst (fst x)) (snd (fst x)) (snd x)) xs c.

(** Specification: the maximum of the initial height of log [(a, l)] and of every height it was
    advanced to. *)
Definition pointwise_max (st : heights) (xs : list adv) (a l : N) : option N :=
  fold_left (fun acc x =>
               if N.eqb (fst (fst x)) a && N.eqb (snd (fst x)) l then omax acc (Some (snd x)) else acc)
            xs (lookup2 st a l).

(** * Cursor store and [Acked] *)

Definition cstore := list (N * heights).

Definition get_cursor (s : cstore) (name : N) : option cursor :=
  match alookup name s with
  | Some st => Some (cursor_new name st)
  | None => None
  end.

Definition set_cursor (s : cstore) (c : cursor) : cstore := ainsert (cname c) (cstate c) s.

Record acked := { aname : N; atopic : N }.

Record header := { hauthor : N; hlog : N; hseq : N }.

Definition log_id_of_topic (t : N) : N := t.

Inductive ack_result := AckOk | AckInvalidTopic.

Definition acked_cursor (s : cstore) (k : acked) : cursor :=
  match get_cursor s (aname k) with
  | Some c => c
  | None => cursor_new (aname k) []
  end.

Definition topic_ok (k : acked) (h : header) : bool := N.eqb (log_id_of_topic (atopic k)) (hlog h).

Definition ack (s : cstore) (k : acked) (h : header) : cstore * ack_result :=
  if negb (topic_ok k h) then (s, AckInvalidTopic)
  else
    let c := advance (acked_cursor s k) (hauthor h) (hlog h) (hseq h) in
    (set_cursor s c, AckOk).

(** A history of ack calls, each made through some [Acked] instance. *)
Definition ack_all (s : cstore) (ops : list (acked * header)) : cstore :=
  fold_left (fun s op => fst (ack s (fst op) (snd op))) ops s.

(** The same call split at its two store accesses (read + advance, then write).  Only used to
    describe interleavings of two instances that do not share a semaphore. *)
Definition ack_read (s : cstore) (k : acked) (h : header) : option cursor :=
  if negb (topic_ok k h) then None
  else Some (advance (acked_cursor s k) (hauthor h) (hlog h) (hseq h)).

Definition ack_write (s : cstore) (c : cursor) : cstore := set_cursor s c.

(** * Scenario runner used by the correspondence check (Oracle/C07.v).

    [insts] is the list of [Acked] instances of the scenario (index = position); an op is
    "instance [i] acks a header".  The observation after every op is the result of the call and
    the cursor ([Acked::cursor]) of every instance. *)
Definition obs := (ack_result * list heights)%type.

Definition cursors_of (s : cstore) (insts : list acked) : list heights :=
  map (fun k => cstate (acked_cursor s k)) insts.

Fixpoint run_acks (insts : list acked) (s : cstore) (ops : list (nat * header)) : list obs :=
  match ops with
  | [] => []
  | (i, h) :: r =>
      match nth_error insts i with
      | None => []
      | Some k =>
          let '(s1, res) := ack s k h in
          (res, cursors_of s1 insts) :: run_acks insts s1 r
      end
  end.
