(** Model of [GroupCrdt::process] / [validate] / [apply_action] / [state_at] / [merge_states] /
    [heads] (p2panda-auth/src/group/crdt/mod.rs) for C33, on top of Model/GroupState.v.
    Definitions only.

    Rust                                              Gallina
    ------------------------------------------------  ----------------------------------------
    GroupAction<ID, ()>  (individual members only)    [Action]
    trait Operation (id, author, dependencies,        [Op]
      group_id, action)
    GroupStates = HashMap<ID, GroupMembersState>      [GroupStates] (association list, [glookup]/[gset])
    GroupCrdtInnerState {operations, graph, states}   [Replica] ([ops] = accepted operations, newest
                                                      first; [states] = state after each of them)
    GroupCrdtInnerState::heads                        [heads]
    merge_states / state_at                           [merge_group_states] / [state_at]
    apply_action                                      [apply_action]
    GroupCrdt::process (validate + add_operation +    [process]
      states.insert)

    Scope (PARTIAL, stated in design/C33.md): the [StrongRemove] resolver is not modelled.  The
    model is the resolver-free semantics: the state after an operation is
    [apply_action (state_at dependencies) op], computed once.  This is what the code computes
    whenever the resolver's filter ([ignore]) and [mutual_removes] are empty, which is the case
    for every history that is [conflict_free]: no remove/demote of a member X is concurrent with
    an operation authored by X or re-adding X in the same group (see design/C33.md for the
    argument from resolver.rs / authority_graphs.rs).  [conflict_free] is computed by the model
    itself from the accepted operations so the correspondence run knows when a generated history
    leaves the modelled fragment.

    Modelled, not verified:
    - members are individuals (no nested groups: [would_create_cycle] and
      [ManagerGroupsNotAllowed] never trigger); conditions are [()] and never set;
    - operation ids/authors/groups are [N]; HashMaps/HashSets are lists read through lookups;
    - in the concurrent branch of [validate] the code re-computes the states of the
      operation's predecessors with the resolver on a pruned graph; in the conflict-free
      fragment this equals the stored states (each state is a function of the operation's
      causal history), so [process] validates against [state_at];
    - [apply_action] on a non-create operation whose group is absent at the dependencies hits
      [expect("group already present in states map")]: modelled as outcome [OPanic]. *)
From Coq Require Import List Arith NArith Bool.
From PV Require Import Model.GroupState.
Import ListNotations.

Definition ueqb (_ _ : unit) : bool := true.
Definition ucmp (_ _ : unit) : option comparison := Some Eq.
Definition MState := State unit.
Definition acc (l : AccessLevel) : Access unit := mkAccess None l.

(** generic association list *)
Fixpoint alookup {V} (k : N) (l : list (N * V)) : option V :=
  match l with
  | [] => None
  | (k', v) :: r => if N.eqb k k' then Some v else alookup k r
  end.
Fixpoint aremove {V} (k : N) (l : list (N * V)) : list (N * V) :=
  match l with
  | [] => []
  | (k', v) :: r => if N.eqb k k' then aremove k r else (k', v) :: aremove k r
  end.
Definition aset {V} (k : N) (v : V) (l : list (N * V)) : list (N * V) := (k, v) :: aremove k l.

Definition GroupStates := list (N * MState).
Definition glookup (g : N) (gs : GroupStates) : option MState := alookup g gs.
Definition gset (g : N) (s : MState) (gs : GroupStates) : GroupStates := aset g s gs.

Inductive Action :=
  | Create (init : list (N * AccessLevel))
  | Add (m : N) (l : AccessLevel)
  | Remove (m : N)
  | Promote (m : N) (l : AccessLevel)
  | Demote (m : N) (l : AccessLevel).

Definition is_create (a : Action) : bool := match a with Create _ => true | _ => false end.

Record Op := mkOp {
  op_id : N;
  op_author : N;
  op_deps : list N;
  op_group : N;
  op_action : Action
}.

Record Replica := mkReplica {
  ops : list Op;                       (* accepted operations, newest first *)
  states : list (N * GroupStates)      (* [states] map: operation id -> groups state *)
}.

Definition init : Replica := mkReplica [] [].

Definition memN (x : N) (l : list N) : bool := existsb (N.eqb x) l.

(** graph tips: accepted operations no accepted operation depends on *)
Definition heads (y : Replica) : list N :=
  filter (fun id => negb (existsb (fun o => memN id (op_deps o)) (ops y))) (map op_id (ops y)).

(** mod.rs:169 [merge_states]: fold the groups of one dependency's state into the accumulator *)
Definition merge_group_states (cur gs : GroupStates) : GroupStates :=
  fold_left
    (fun acc gs1 =>
       match glookup (fst gs1) acc with
       | Some c => gset (fst gs1) (merge ucmp (snd gs1) c) acc
       | None => gset (fst gs1) (snd gs1) acc
       end)
    gs cur.

(** [state_at]; [None] = [StatesNotFound] *)
Definition state_at (y : Replica) (deps : list N) : option GroupStates :=
  fold_left
    (fun acc d =>
       match acc, alookup d (states y) with
       | Some cur, Some gs => Some (merge_group_states cur gs)
       | _, _ => None
       end)
    deps (Some []).

Inductive ares :=
  | APanic                           (* expect("group already present in states map") *)
  | AErr (e : MembershipError)
  | AOk (gs : GroupStates).

(** what the state functions do with one action on the members state of the group *)
Definition apply_members (my : MState) (actor : N) (a : Action) : result MState :=
  match a with
  | Add m l => add my actor m (acc l)
  | Remove m => remove my actor m
  | Promote m l => promote ueqb my actor m (acc l)
  | Demote m l => demote ueqb my actor m (acc l)
  | Create ini => Ok (create (map (fun ml => (fst ml, acc (snd ml))) ini))
  end.

(** mod.rs:695 [apply_action] with an empty filter *)
Definition apply_action (gs : GroupStates) (g actor : N) (a : Action) : ares :=
  match (if is_create a then Some [] else glookup g gs) with
  | None => APanic
  | Some my =>
      match apply_members my actor a with
      | Ok my' => AOk (gset g my' gs)
      | Err e => AErr e
      end
  end.

Inductive Outcome :=
  | OOk
  | ODup                              (* GroupCrdtError::DuplicateOperation *)
  | OErr (e : MembershipError)        (* GroupCrdtError::StateChangeError *)
  | ONoState                          (* GroupCrdtInnerError::StatesNotFound *)
  | OPanic.

(** mod.rs:496 [process] (validate, add_operation, states.insert) *)
Definition process (y : Replica) (o : Op) : Replica * Outcome :=
  if memN (op_id o) (map op_id (ops y)) then (y, ODup)
  else
    match state_at y (op_deps o) with
    | None => (y, ONoState)
    | Some gs =>
        match apply_action gs (op_group o) (op_author o) (op_action o) with
        | APanic => (y, OPanic)
        | AErr e => (y, OErr e)
        | AOk gs' => (mkReplica (o :: ops y) ((op_id o, gs') :: states y), OOk)
        end
    end.

(** process a list of operations, collecting the outcomes *)
Fixpoint run (y : Replica) (l : list Op) : Replica * list Outcome :=
  match l with
  | [] => (y, [])
  | o :: r =>
      let '(y1, out) := process y o in
      let '(y2, outs) := run y1 r in
      (y2, out :: outs)
  end.

(** * The modelled fragment: no operation concurrent with the removal of its author/target *)

(** all causal predecessors of the accepted operation [id] (fuel = number of operations) *)
Fixpoint ancestors (fuel : nat) (l : list Op) (id : N) : list N :=
  match fuel with
  | O => []
  | S f =>
      match find (fun o => N.eqb (op_id o) id) l with
      | None => []
      | Some o => op_deps o ++ flat_map (ancestors f l) (op_deps o)
      end
  end.

Definition precedes (l : list Op) (a b : N) : bool := memN a (ancestors (List.length l) l b).
Definition concurrent (l : list Op) (a b : N) : bool :=
  negb (N.eqb a b) && negb (precedes l a b) && negb (precedes l b a).

Definition level_is_manage (l : AccessLevel) : bool := level_eqb l Manage.

(** resolver.rs [removed_or_demoted_manager] *)
Definition removal_target (a : Action) : option N :=
  match a with
  | Remove m => Some m
  | Demote m l => if level_is_manage l then None else Some m
  | _ => None
  end.

(** [o] would be filtered because of [r] (resolver.rs [is_removed] / [is_readd]) *)
Definition conflicts (r o : Op) : bool :=
  match removal_target (op_action r) with
  | None => false
  | Some x =>
      N.eqb (op_group r) (op_group o)
      && (N.eqb (op_author o) x
          || match op_action o with Add m _ => N.eqb m x | _ => false end)
  end.

Definition conflict_free (y : Replica) : bool :=
  forallb (fun r => forallb (fun o =>
     negb (concurrent (ops y) (op_id r) (op_id o) && conflicts r o)) (ops y)) (ops y).
