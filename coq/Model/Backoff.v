(** Model of p2panda-net/src/discovery/backoff.rs [Backoff].

    All durations are whole milliseconds ([N]).  The clock is part of the state: [elapsed] is
    [last_reset_at.elapsed()], advanced by explicit [Adv]/[Deadline] operations (arbitrary
    amounts) and set to 0 by [reset].  The random number generator is a parameter: any type [R]
    of generator states with a function [sample lo hi r] standing for
    [rng.random_range::<u128, _>(lo..hi)]; the theorems hold for every such function (bounds) or
    for every one that answers within the requested range (reset interval, increment sizes).

    Rust                                      model
    ---------------------------------------------------------------------------------------
    [Config] (six [Duration]s)                [config] (ms)
    [Backoff::new(config, rng)]               [new]
    [Backoff::increment]                      [increment]  (with the repair: clamp at once)
                                              [increment_asis] (before: clamp on the next call)
    [Backoff::reset]                          [reset]
    [random_increment]/[random_reset_after]   [sample (min_..) (max_..)]
    [ChaCha20Rng] + rand's uniform sampling   [canon_sample] over the ChaCha20 word stream

    Modelled, not verified:
    - rand 0.10 [UniformInt<u128>::sample_single] (Canon's method, biased variant, one retry)
      and [StandardUniform] for u128 (two [next_u64], low half first) are re-stated as
      [canon_sample]; the ChaCha20 key stream for a seed is computed by the python driver and
      handed to the model as a list of u64 words.  Both are confirmed on every run by exact
      agreement of every drawn value with the real [Backoff].
    - The config durations are whole milliseconds below 2^64 ms (as every [Duration] built by
      [from_secs]/[from_millis]); [Duration] addition does not overflow.
    - A config with [min_increment >= max_increment] or [min_reset >= max_reset] makes
      [random_range] panic ("cannot sample empty range"): [valid] excludes it.
    - [sleep] is not modelled (it only reads [value]). *)
From Coq Require Import List Arith NArith ZArith Bool.
Import ListNotations.
Local Open Scope N_scope.

Record config := {
  initial_value : N;
  min_increment : N;
  max_increment : N;
  max_value : N;
  min_reset : N;
  max_reset : N;
}.

(** [Config::default()]. *)
Definition default_config : config :=
  {| initial_value := 0; min_increment := 1000; max_increment := 5000; max_value := 30000;
     min_reset := 60000; max_reset := 180000 |}.

(** What [Backoff::new] needs not to panic, plus [initial_value <= max_value] without which
    "between initial and maximum" is empty. *)
Definition valid (c : config) : bool :=
  (min_increment c <? max_increment c) && (min_reset c <? max_reset c)
  && (initial_value c <=? max_value c).

Inductive op :=
| Inc                  (* increment() *)
| Reset                (* reset() *)
| Adv (d : N)          (* d ms pass *)
| Deadline (delta : Z) (* time passes until delta ms after the reset interval is over (harness op) *).

Section Backoff.
  Variable R : Type.
  Variable sample : N -> N -> R -> N * R.
  Variable cfg : config.

  Record state := { value : N; elapsed : N; reset_after : N; rng : R }.

  Definition reset (s : state) : state :=
    let '(ra, r) := sample (min_reset cfg) (max_reset cfg) (rng s) in
    {| value := initial_value cfg; elapsed := 0; reset_after := ra; rng := r |}.

  Definition new (r : R) : state :=
    reset {| value := initial_value cfg; elapsed := 0; reset_after := 0; rng := r |}.

  (** First half of [increment]; [clamp_now] distinguishes the repaired code from the original. *)
  Definition bump (clamp_now : bool) (s : state) : state :=
    if max_value cfg <? value s then
      {| value := max_value cfg; elapsed := elapsed s; reset_after := reset_after s; rng := rng s |}
    else if value s <? max_value cfg then
      let '(k, r) := sample (min_increment cfg) (max_increment cfg) (rng s) in
      let v := value s + k in
      {| value := if clamp_now then N.min v (max_value cfg) else v;
         elapsed := elapsed s; reset_after := reset_after s; rng := r |}
    else s.

  Definition maybe_reset (s : state) : state :=
    if reset_after s <=? elapsed s then reset s else s.

  Definition increment (s : state) : state := maybe_reset (bump true s).
  Definition increment_asis (s : state) : state := maybe_reset (bump false s).

  Definition advance (d : N) (s : state) : state :=
    {| value := value s; elapsed := elapsed s + d; reset_after := reset_after s; rng := rng s |}.

  Definition to_deadline (delta : Z) (s : state) : state :=
    let target := Z.to_N (Z.of_N (reset_after s) + delta) in
    {| value := value s; elapsed := N.max (elapsed s) target; reset_after := reset_after s; rng := rng s |}.

  Definition step_with (inc : state -> state) (s : state) (o : op) : state :=
    match o with
    | Inc => inc s
    | Reset => reset s
    | Adv d => advance d s
    | Deadline delta => to_deadline delta s
    end.

  Definition step := step_with increment.
  Definition step_asis := step_with increment_asis.

  (** All states passed through, the first one included. *)
  Fixpoint trace_with (inc : state -> state) (s : state) (ops : list op) : list state :=
    match ops with
    | [] => [s]
    | o :: r => s :: trace_with inc (step_with inc s o) r
    end.

  Definition trace := trace_with increment.
  Definition trace_asis := trace_with increment_asis.
End Backoff.

Arguments value {R}.
Arguments elapsed {R}.
Arguments reset_after {R}.
Arguments rng {R}.

(** * Generators *)

(** A scripted generator: the answers are given, in order (an arbitrary adversary); 0 when the
    script is exhausted. *)
Definition script_sample (lo hi : N) (r : list N) : N * list N :=
  match r with
  | [] => (lo, [])
  | x :: t => (x, t)
  end.

(** rand 0.10 on a stream of u64 words ([next_u64] of ChaCha20Rng). *)
Definition two64 : N := 18446744073709551616.
Definition two128 : N := two64 * two64.

Definition next_u64 (ws : list N) : N * list N :=
  match ws with
  | [] => (0, [])
  | w :: r => (w mod two64, r)
  end.

Definition next_u128 (ws : list N) : N * list N :=
  let '(lo, r1) := next_u64 ws in
  let '(hi, r2) := next_u64 r1 in
  (hi * two64 + lo, r2).

(** [UniformInt::<u128>::sample_single(lo, hi)] for [lo < hi]. *)
Definition canon_sample (lo hi : N) (ws : list N) : N * list N :=
  let range := hi - lo in
  let '(x, r1) := next_u128 ws in
  let m := x * range in
  let result := m / two128 in
  let lo_order := m mod two128 in
  if two128 - range <? lo_order then
    let '(x2, r2) := next_u128 r1 in
    let new_hi := (x2 * range) / two128 in
    (lo + result + (if two128 <=? lo_order + new_hi then 1 else 0), r2)
  else (lo + result, r1).
