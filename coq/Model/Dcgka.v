(** Symbolic *knowledge* model of the "data encryption" group scheme:
    p2panda-encryption/src/data_scheme/group.rs ([EncryptionGroup] create/add/remove/update/
    receive/send), dcgka.rs ([Dcgka] create/add/remove/update/process_xxx) and group_secret.rs
    (the secret bundle as a set of secret ids).

    What is kept: per member the [GroupState] reduced to
      [welcomed] = [is_welcomed], [view] = the DGM members view ([Dcgka::members]),
      [knows] = the ids in [secrets : SecretBundleState], [queued] = messages held by the orderer
      until the member is welcomed;
    per control message: sender, operation, the recipients of its direct messages
    ([send_group_secret]: who is sent the new secret), and for [Add] the welcome bundle and the
    DGM history.  A secret is identified with the index of the control message that generated it
    ([SecretBundle::generate] in create/remove/update).

    PARTIAL / modelled, not verified:
    - DCGKA internals are abstracted to "who is sent which secret": the pairwise 2SM channels
      are ideal (a direct message is opened by its recipient and nobody else — C37);
    - data encryption is an ideal AEAD: a ciphertext under secret [s] is opened exactly by the
      holders of [s] ([can_decrypt]);
    - the DGM is the plain set DGM of the harness (create = initial members, add/remove = set
      insert/remove, from_welcome = adder's view plus ourselves);
    - the orderer delivers in causal order (the generator only produces causal deliveries; the
      model has no orderer besides the "not yet welcomed" queue of group.rs);
    - timestamps / which secret is "latest" (C36) are not modelled: statements are made about the
      whole set of secrets, which implies them for the latest one under any order. *)
From Coq Require Import List Arith Bool.
Import ListNotations.

Definition member := nat.
Definition sid := nat.

(** Sets of numbers as strictly sorted lists. *)
Fixpoint ins (y : nat) (l : list nat) : list nat :=
  match l with
  | [] => [y]
  | h :: t => if y <? h then y :: h :: t else if y =? h then h :: t else h :: ins y t
  end.
Definition mem (x : nat) (l : list nat) : bool := existsb (Nat.eqb x) l.
Definition rem (x : nat) (l : list nat) : list nat := filter (fun y => negb (y =? x)) l.
Definition union (a b : list nat) : list nat := fold_left (fun acc x => ins x acc) b a.
Definition of_list (l : list nat) : list nat := union [] l.

Inductive op :=
| Create (init : list member)
| Add (j : member)
| Remove (j : member)
| Update.

Definition generates (o : op) : bool := match o with Add _ => false | _ => true end.

(** A control message with its direct messages. *)
Record message := {
  m_sender : member;
  m_op : op;
  m_rcpt : list member;     (* recipients of the 2SM direct messages carrying the new secret *)
  m_bundle : list sid;      (* the sender's secret bundle when it issued the message: for Add the
                               content of the welcome; otherwise what [SecretBundle::generate]
                               saw (the new secret gets a timestamp above all of these) *)
  m_history : list member   (* Add: DGM state in the welcome *)
}.

Record mstate := {
  welcomed : bool;
  view : list member;
  knows : list sid;
  queued : list (nat * message)
}.

Definition mstate0 : mstate := {| welcomed := false; view := []; knows := []; queued := [] |}.

(** [Dcgka::process] (remote message number [k]) followed by the bundle update of
    [EncryptionGroup::process_remote] and the [is_welcomed] update of [process_ready]. *)
Definition process1 (j : member) (s : mstate) (k : nat) (m : message) : mstate :=
  let v := match m_op m with
           | Create init => init
           | Add x => if x =? j then ins j (m_history m) else ins x (view s)
           | Remove x => rem x (view s)
           | Update => view s
           end in
  let kn := match m_op m with
            | Add x => if x =? j then union (knows s) (m_bundle m) else knows s
            | _ => if mem j (m_rcpt m) then ins k (knows s) else knows s
            end in
  {| welcomed := welcomed s || mem j v; view := v; knows := kn; queued := queued s |}.

(** "we got removed" signal of [process_ready] *)
Definition removed_signal (j : member) (s : mstate) : bool := welcomed s && negb (mem j (view s)).

Inductive dobs := DDot | DRemoved | DErr | DNone.

Definition is_welcome (j : member) (m : message) : bool :=
  match m_op m with
  | Create init => mem j init
  | Add x => x =? j
  | _ => false
  end.

Fixpoint process_all (j : member) (s : mstate) (l : list (nat * message)) : mstate * bool :=
  match l with
  | [] => (s, false)
  | (k, m) :: r =>
      let s1 := process1 j s k m in
      let '(s2, sig) := process_all j s1 r in
      (s2, removed_signal j s1 || sig)
  end.

(** [EncryptionGroup::receive] of control message number [k]. *)
Definition deliver1 (j : member) (s : mstate) (k : nat) (m : message) : mstate * dobs :=
  if welcomed s then
    match m_op m with
    | Create _ => (s, DErr)                       (* GroupAlreadyEstablished *)
    | _ => let s1 := process1 j s k m in (s1, if removed_signal j s1 then DRemoved else DDot)
    end
  else if is_welcome j m then
    let '(s1, sig) := process_all j {| welcomed := false; view := view s; knows := knows s; queued := [] |}
                                  (queued s ++ [(k, m)]) in
    (s1, if sig then DRemoved else DDot)
  else
    ({| welcomed := false; view := view s; knows := knows s; queued := queued s ++ [(k, m)] |}, DDot).

(** Local operations: [EncryptionGroup::create/add/remove/update] including [process_local].
    [k] is the number the new control message gets (= id of the generated secret). *)
Definition issue (i : member) (s : mstate) (k : nat) (o : op) : option (mstate * message) :=
  match o with
  | Create init =>
      if welcomed s then None
      else
        let init' := ins i (of_list init) in
        Some ({| welcomed := true; view := init'; knows := ins k (knows s); queued := queued s |},
              {| m_sender := i; m_op := Create init'; m_rcpt := rem i init'; m_bundle := knows s; m_history := [] |})
  | Update =>
      if welcomed s then
        Some ({| welcomed := true; view := view s; knows := ins k (knows s); queued := queued s |},
              {| m_sender := i; m_op := Update; m_rcpt := rem i (view s); m_bundle := knows s; m_history := [] |})
      else None
  | Remove x =>
      if welcomed s then
        Some ({| welcomed := true; view := rem x (view s); knows := ins k (knows s); queued := queued s |},
              {| m_sender := i; m_op := Remove x; m_rcpt := rem x (rem i (view s)); m_bundle := knows s;
                 m_history := [] |})
      else None
  | Add x =>
      if welcomed s && negb (x =? i) then
        Some ({| welcomed := true; view := ins x (view s); knows := knows s; queued := queued s |},
              {| m_sender := i; m_op := Add x; m_rcpt := []; m_bundle := knows s; m_history := view s |})
      else None
  end.

(** * The group: [nmem] members [0 .. nmem-1], the issued control messages, what was delivered *)
Record world := {
  nmem : nat;
  st : member -> mstate;
  msgs : list message;
  dlv : member -> list nat
}.

Definition upd {A} (f : member -> A) (p : member) (v : A) : member -> A :=
  fun q => if q =? p then v else f q.

Definition init_world (n : nat) : world :=
  {| nmem := n; st := fun _ => mstate0; msgs := []; dlv := fun _ => [] |}.

Inductive event :=
| Issue (i : member) (o : op)
| Deliver (j : member) (k : nat)
| Quiesce
| Probe.

Definition deliver (w : world) (j : member) (k : nat) : world * dobs :=
  if (j <? nmem w) && negb (mem k (dlv w j)) then
    match nth_error (msgs w) k with
    | None => (w, DNone)
    | Some m =>
        let '(s1, o) := deliver1 j (st w j) k m in
        match o with
        | DErr => (w, DErr)
        | _ => ({| nmem := nmem w; st := upd (st w) j s1; msgs := msgs w; dlv := upd (dlv w) j (ins k (dlv w j)) |}, o)
        end
    end
  else (w, DNone).

Definition do_issue (w : world) (i : member) (o : op) : world * bool :=
  if i <? nmem w then
    let k := length (msgs w) in
    match issue i (st w i) k o with
    | None => (w, false)
    | Some (s1, m) =>
        ({| nmem := nmem w; st := upd (st w) i s1; msgs := msgs w ++ [m]; dlv := upd (dlv w) i (ins k (dlv w i)) |}, true)
    end
  else (w, false).

(** deliver everything undelivered, by message index then member (a causal order) *)
Definition qstep (acc : world * list (nat * nat * dobs)) (jk : nat * nat) : world * list (nat * nat * dobs) :=
  let '(w0, log) := acc in
  let '(j, k) := jk in
  let '(w1, o) := deliver w0 j k in
  (w1, match o with DDot | DNone => log | _ => log ++ [(j, k, o)] end).

Definition qpairs (w : world) : list (nat * nat) :=
  flat_map (fun k => map (fun j => (j, k)) (seq 0 (nmem w))) (seq 0 (length (msgs w))).

Definition quiesce (w : world) : world * list (nat * nat * dobs) := fold_left qstep (qpairs w) (w, []).

(** ideal AEAD: data encrypted under secret [s] is opened exactly by the holders of [s] *)
Definition can_decrypt (w : world) (j : member) (s : sid) : bool := mem s (knows (st w j)).

Inductive eobs :=
| EIssue (ok : bool)
| EDeliver (o : dobs)
| EQuiesce (log : list (nat * nat * dobs))
| EProbe.

Definition step (w : world) (e : event) : world * eobs :=
  match e with
  | Issue i o => let '(w1, ok) := do_issue w i o in (w1, EIssue ok)
  | Deliver j k => let '(w1, o) := deliver w j k in (w1, EDeliver o)
  | Quiesce => let '(w1, log) := quiesce w in (w1, EQuiesce log)
  | Probe => (w, EProbe)
  end.

Fixpoint run (w : world) (evs : list event) : world :=
  match evs with
  | [] => w
  | e :: r => run (fst (step w e)) r
  end.
