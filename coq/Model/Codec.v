(** Model of p2panda-net/src/codec.rs: [Codec<M>] (tokio-util [Encoder]/[Decoder]) and of the
    loop that tokio-util's [FramedRead] runs around [Decoder::decode].

    Rust                                             model
    ------------------------------------------------------------------------------------------
    [Codec::max_frame_len : usize]                   [max : N]
    [BytesMut] (append at the back, advance front)   [bytes = list N], every element < 256
    [dst.put_u32(frame_len)] (big endian)            [be32]
    [u32::from_be_bytes(src[..4])]                   [of_be32]
    [Encoder::encode(item, dst)]                     [encode]   (item rejected: [dst] untouched)
    [Decoder::decode(src)]                           [decode]   ([Ok(None)] = [DecNone]; an error
                                                                  leaves [src] untouched)
    calling [decode] until [Ok(None)] / [Err]        [drain]
    one [decode] loop per chunk read into the buffer [feed_chunks]
    [FramedRead] stream incl. [decode_eof] at EOF    [stream_out]

    Modelled, not verified:
    - postcard.  A message is known to the codec only through its serialisation: [ser m] are the
      bytes [postcard::to_io] writes, [blen (ser m)] is what the [Size] flavour reports, and
      [de] is [postcard::from_bytes] on exactly the frame's payload slice.  [M], [ser], [de] are
      Section variables; the theorems assume [de (ser m) = Some m] only.  The harness's message
      types are instances: [Raw] (payload = the bytes themselves, [de_raw false], total) and
      [Picky] ([de_raw true]: rejects a payload that starts with 0xFF) and real p2panda message
      types (treated as their postcard bytes).
    - tokio-util's [FramedRead] state machine (decode until [None], read, at EOF [decode_eof]
      whose default reports left-over bytes as an io error, stop after the first error) is
      re-stated here as [stream_out]; the harness runs the real [FramedRead].
    - [usize] is 64 bit ([4 + frame_len] cannot overflow). *)
From Coq Require Import List Arith NArith Bool.
Import ListNotations.
Local Open Scope N_scope.

Definition bytes := list N.

Definition blen (b : bytes) : N := N.of_nat (length b).

Definition u32_max : N := 4294967295.

(** [u32::to_be_bytes] / [u32::from_be_bytes]. *)
Definition be32 (n : N) : bytes :=
  [ (n / 256 / 256 / 256) mod 256; (n / 256 / 256) mod 256; (n / 256) mod 256; n mod 256 ].
Definition of_be32 (b0 b1 b2 b3 : N) : N := ((b0 * 256 + b1) * 256 + b2) * 256 + b3.

(** [CodecError], by variant. *)
Inductive error := TooLargeMessage (len mx : N) | Postcard | Io.

Inductive enc_result := EncOk (dst : bytes) | EncErr (e : error) | EncPanic.

Section Codec.
  Variable M : Type.
  Variable ser : M -> bytes.
  Variable de : bytes -> option M.
  Variable max : N.

  Inductive dec_result := DecNone | DecSome (m : M) (rest : bytes) | DecErr (e : error).
  Inductive item := IOk (m : M) | IErr (e : error).

  (** The size checks of [Encoder::encode] as a function of the frame length the [Size] flavour
      reports: against [max_frame_len], then the prefix must fit a u32 (a frame of 4 GiB or
      more that is within [max_frame_len] is refused with the same error variant). *)
  Definition enc_check (fl : N) : option error :=
    if max <? fl then Some (TooLargeMessage fl max)
    else if u32_max <? fl then Some (TooLargeMessage fl u32_max)
    else None.

  (** [Encoder::encode]: a refused item leaves [dst] untouched, otherwise prefix and message are
      appended. *)
  Definition encode (m : M) (dst : bytes) : enc_result :=
    match enc_check (blen (ser m)) with
    | Some e => EncErr e
    | None => EncOk (dst ++ be32 (blen (ser m)) ++ ser m)
    end.

  (** The second check before the repair was [u32::try_from(frame_len).expect("already checked")]:
      a panic. *)
  Definition enc_check_asis (fl : N) : enc_result :=
    if max <? fl then EncErr (TooLargeMessage fl max)
    else if u32_max <? fl then EncPanic
    else EncOk [].

  Definition frame (m : M) : bytes := be32 (blen (ser m)) ++ ser m.

  (** Encoding a message sequence into one buffer ([FramedWrite::feed] repeatedly); a refused
      message leaves the buffer as it was and the next one is tried.  Per message: [None] =
      accepted, [Some e] = refused with [e]. *)
  Fixpoint encode_all (ms : list M) (dst : bytes) : list (option error) * bytes :=
    match ms with
    | [] => ([], dst)
    | m :: r =>
        match encode m dst with
        | EncOk dst' => let '(o, b) := encode_all r dst' in (None :: o, b)
        | EncErr e => let '(o, b) := encode_all r dst in (Some e :: o, b)
        | EncPanic => ([], dst)
        end
    end.

  (** [Decoder::decode]. *)
  Definition decode (src : bytes) : dec_result :=
    match src with
    | b0 :: b1 :: b2 :: b3 :: body =>
        let fl := of_be32 b0 b1 b2 b3 in
        if max <? fl then DecErr (TooLargeMessage fl max)
        else if blen body <? fl then DecNone
        else match de (firstn (N.to_nat fl) body) with
             | None => DecErr Postcard
             | Some m => DecSome m (skipn (N.to_nat fl) body)
             end
    | _ => DecNone
    end.

  (** Call [decode] until it asks for more bytes or fails.  Result: the items produced and the
      buffer left ([None] once an error was produced: the stream is over).  [fuel] bounds the
      number of frames; a frame takes at least 4 bytes, [S (length buf)] is always enough. *)
  Fixpoint drain (fuel : nat) (buf : bytes) : list item * option bytes :=
    match fuel with
    | O => ([], Some buf)
    | S f =>
        match decode buf with
        | DecNone => ([], Some buf)
        | DecErr e => ([IErr e], None)
        | DecSome m rest => let '(o, b) := drain f rest in (IOk m :: o, b)
        end
    end.

  Definition drain_all (buf : bytes) : list item * option bytes := drain (S (length buf)) buf.

  (** A chunk arrives: append it to the buffer, decode what is complete. *)
  Definition feed1 (st : list item * option bytes) (chunk : bytes) : list item * option bytes :=
    match snd st with
    | None => st
    | Some b => let '(o, b') := drain_all (b ++ chunk) in (fst st ++ o, b')
    end.

  Definition feed_chunks (chunks : list bytes) : list item * option bytes :=
    fold_left feed1 chunks ([], Some []).

  (** End of input ([decode_eof]): left-over bytes are an io error. *)
  Definition eof_items (st : option bytes) : list item :=
    match st with
    | Some (_ :: _) => [IErr Io]
    | _ => []
    end.

  (** What a [FramedRead] over a reader that delivers [chunks] yields until it ends. *)
  Definition stream_out (chunks : list bytes) : list item :=
    let '(o, st) := feed_chunks chunks in o ++ eof_items st.
End Codec.

Arguments DecNone {M}.
Arguments DecSome {M}.
Arguments DecErr {M}.
Arguments IOk {M}.
Arguments IErr {M}.

(** * The harness's transparent message types: the message is its payload.
    [Raw]: serialises as the bytes themselves, deserialises any payload.
    [Picky]: same, but deserialisation fails (a postcard error) if the payload starts with 0xFF. *)
Definition ser_raw (m : bytes) : bytes := m.
Definition de_raw (picky : bool) (p : bytes) : option bytes :=
  match p with
  | 255 :: _ => if picky then None else Some p
  | _ => Some p
  end.

(** All ways to cut a stream are given by the chunk sizes; [split_at sizes s] cuts [s] into
    chunks of the given sizes, the remainder is the last chunk. *)
Fixpoint split_at (sizes : list nat) (s : bytes) : list bytes :=
  match sizes with
  | [] => [s]
  | n :: r => firstn n s :: split_at r (skipn n s)
  end.
