(** Model of p2panda-encryption/src/message_scheme/ratchet.rs.

    - [ratchet_forward]      = [RatchetSecret::ratchet_forward] (sender side and chain stepping);
    - [secret_for_decryption] = [DecryptionRatchet::secret_for_decryption], transcribed branch by
      branch: [past_secrets : VecDeque<Option<RatchetKeyMaterial>>] is a list (front = index 0),
      [push_front] is cons, [truncate] is [truncN], [get_mut(i).take()] is [nthN]/[setN];
    - all generations and window sizes are u32, modelled as [N] with the arithmetic of the code
      made explicit: [u32::MAX - fwd], the guarded [head + fwd], [(head - g) as i32 - 1], and the
      overflow of [y.generation += 1] at [u32::MAX].  The harness is a debug build (overflow
      checks on), so an overflow is the outcome [RPanic].

    The key derivation is abstract (Section variables, no assumptions): [chain] stands for
    HKDF(secret, "chain"), [km] for the pair (HKDF(secret,"key"), HKDF(secret,"nonce")).  The
    secret of generation [n] is therefore the free term [chain^n s0] ([sec]).

    The Rust function takes the state by value and returns it only on success; a caller that
    wants to keep the ratchet after an error has to keep its own copy.  The model returns the
    unchanged state on [RErr]/[RPanic].

    Modelled, not verified: HKDF-SHA256 is a deterministic function that never fails for these
    output lengths; serde, [VecDeque] semantics. *)
From Coq Require Import List NArith Bool.
From PV Require Import Lib.NList.
Import ListNotations.
Local Open Scope N_scope.

Definition U32MAX : N := 4294967295.
Definition I32LIM : N := 2147483648.   (* 2^31: first u32 value that is negative [as i32] *)

Inductive err := TooFuture | TooPast | IndexOOB | Reuse.

Section Ratchet.
  Variables (S K : Type).
  Variable chain : S -> S.
  Variable km : S -> K.

  Inductive res := ROk (k : K) | RErr (e : err) | RPanic.

  (** [RatchetSecretState] *)
  Record rs := { r_secret : S; r_gen : N }.

  Definition rs_at (b : N) (s : S) : rs := {| r_secret := s; r_gen := b |}.

  (** [RatchetSecret::ratchet_forward]; [None] = arithmetic overflow of [generation += 1]. *)
  Definition ratchet_forward (y : rs) : option (rs * N * K) :=
    if r_gen y =? U32MAX then None
    else Some ({| r_secret := chain (r_secret y); r_gen := r_gen y + 1 |}, r_gen y, km (r_secret y)).

  (** [DecryptionRatchetState] *)
  Record ds := { past : list (option K); head : rs }.

  (** [DecryptionRatchet::init] is [ds_at 0 s]; other bases only serve the correspondence runs
      near the u32 boundaries. *)
  Definition ds_at (b : N) (s : S) : ds := {| past := []; head := rs_at b s |}.

  (** Body of the [for _ in 0..(generation - generation_head)] loop. *)
  Definition push1 (o : option ds) : option ds :=
    match o with
    | None => None
    | Some y =>
        match ratchet_forward (head y) with
        | None => None
        | Some (h', _, k) => Some {| past := Some k :: past y; head := h' |}
        end
    end.

  Definition secret_for_decryption (y : ds) (g fwd ooo : N) : ds * res :=
    let h := r_gen (head y) in
    if (h <? U32MAX - fwd) && (h + fwd <? g) then (y, RErr TooFuture)
    else if (g <? h) && (ooo <? h - g) then (y, RErr TooPast)
    else if h <=? g then
      match N.iter (g - h) push1 (Some y) with
      | None => (y, RPanic)
      | Some y1 =>
          match ratchet_forward (head y1) with
          | None => (y, RPanic)
          | Some (h', _, k) => ({| past := truncN ooo (None :: past y1); head := h' |}, ROk k)
          end
      end
    else
      let d := h - g in
      (* [((generation_head - generation) as i32) - 1] *)
      if d =? I32LIM then (y, RPanic)
      else if I32LIM <? d then (y, RErr TooPast)
      else
        match nthN (past y) (d - 1) with
        | None => (y, RErr IndexOOB)
        | Some None => (y, RErr Reuse)
        | Some (Some k) => ({| past := setN (past y) (d - 1) None; head := head y |}, ROk k)
        end.

  (** A request: generation, maximum_forward_distance, ooo_tolerance. *)
  Definition req : Type := N * N * N.
  Definition rq_g (r : req) : N := fst (fst r).

  Fixpoint run (y : ds) (rqs : list req) : ds * list res :=
    match rqs with
    | [] => (y, [])
    | (g, fwd, ooo) :: r =>
        let '(y1, o) := secret_for_decryption y g fwd ooo in
        let '(y2, os) := run y1 r in
        (y2, o :: os)
    end.

  (** The sender: [n] calls of [ratchet_forward]; the [n]-th returns generation [b + n - 1]. *)
  Fixpoint sender (y : rs) (n : nat) : list (N * K) :=
    match n with
    | O => []
    | Datatypes.S n' =>
        match ratchet_forward y with
        | None => []
        | Some (y', g, k) => (g, k) :: sender y' n'
        end
    end.
End Ratchet.

Arguments ROk {K}. Arguments RErr {K}. Arguments RPanic {K}.
Arguments r_secret {S}. Arguments r_gen {S}. Arguments rs_at {S}.
Arguments past {S K}. Arguments head {S K}. Arguments ds_at {S K}.

(** * Abstract specification (what the property says): a head counter and the set of generations
    already handed out; a request succeeds iff it is inside both windows and unused. *)
Inductive cls := COk | CErr (e : err) | CPanic.

Definition memN (x : N) (l : list N) : bool := existsb (N.eqb x) l.

Definition spec_step (b : N) (st : N * list N) (r : N * N * N) : (N * list N) * cls :=
  let '(g, fwd, ooo) := r in
  let '(h, used) := st in
  if h + fwd <? g then (st, CErr TooFuture)
  else if (g <? h) && (ooo <? h - g) then (st, CErr TooPast)
  else if g <? b then (st, CErr IndexOOB)
  else if memN g used then (st, CErr Reuse)
  else ((N.max h (g + 1), g :: used), COk).

Fixpoint spec_run (b : N) (st : N * list N) (rqs : list (N * N * N)) : (N * list N) * list cls :=
  match rqs with
  | [] => (st, [])
  | r :: rest =>
      let '(st1, c) := spec_step b st r in
      let '(st2, cs) := spec_run b st1 rest in
      (st2, c :: cs)
  end.

Definition class_of {K} (r : @res K) : cls :=
  match r with ROk _ => COk | RErr e => CErr e | RPanic => CPanic end.
