(** Model of [EphemeralStreamSubscription::poll_next] (p2panda/src/streams/ephemeral_stream.rs)
    over [GossipSubscription] = [BroadcastStream<Vec<u8>>] (p2panda-net/src/gossip/api.rs),
    with the waker contract explicit (C17).

    Rust                                                   Gallina
    -----------------------------------------------------  -------------------------------------
    what [self.inner.poll_next_unpin(cx)] can hand out      [item]: [Valid v] = [Some(Ok(bytes))]
                                                            with [WrappedMessage::from_bytes(bytes)
                                                            = Ok] (v = body id), [Invalid] = bytes
                                                            that do not decode / wrong version /
                                                            bad signature, [Lagged] =
                                                            [Some(Err(Lagged(_)))]
    unread content of the broadcast channel                 [queue : list item] (oldest first)
    inner poll: item available -> [Ready(Some(item))],      head of the queue; [[]] -> [Pending]
      none -> [Pending] **and the receiver's waker is       with [registered := true]; closed and
      registered with the channel**; sender dropped and     empty -> [Ready(None)]
      nothing unread -> [Ready(None)]
    [poll_next] after "fix: ephemeral subscription keeps    [poll_fixed] (loops over invalid /
      polling after an invalid or lagged item"              lagged items)
    [poll_next] before the repair (returns [Poll::Pending]  [poll_asis]
      after consuming an invalid / lagged item)
    the consumer task [while let Some(m) = rx.next().await] [task_run]: polled only while [woken];
      under an executor honouring the waker contract        a [Ready(Some)] is followed by the next
                                                            [next()] in the same run
    [broadcast::Sender::send] with capacity [cap]           [send]: keeps the last [cap] unread
      (a power of two): the oldest unread message is        messages, marks the loss by one
      overwritten, the receiver next sees [Lagged]          [Lagged] at the head; wakes the
                                                            receiver iff its waker is registered

    Modelled, not verified: tokio's broadcast channel (retention of the last [cap] messages,
    [Lagged] once at the receiver's cursor, wake-up of registered receivers on send/close),
    tokio's cooperative budget (an inner [Pending] for budget reasons comes with a wake-up, i.e.
    is a live [Pending]; exercised only by the harness' in-runtime flood cases), and message
    validity (C16's [from_bytes]) which is a tag here. *)
From Coq Require Import List NArith Bool Arith.
Import ListNotations.

Inductive item := Valid (v : N) | Invalid | Lagged.

Inductive presult := Pending | Yield (v : N) | Finished.

(** Result of one [poll_next]: what is returned, what stays unread, and whether the waker is
    registered with the channel when the call returns. *)
Definition pollres : Type := (presult * list item * bool)%type.

Definition is_valid (i : item) : bool := match i with Valid _ => true | _ => false end.

Definition valids (q : list item) : list N :=
  flat_map (fun i => match i with Valid v => [v] | _ => [] end) q.

Fixpoint poll_fixed (closed : bool) (q : list item) : pollres :=
  match q with
  | [] => if closed then (Finished, [], false) else (Pending, [], true)
  | Valid v :: r => (Yield v, r, false)
  | _ :: r => poll_fixed closed r
  end.

Definition poll_asis (closed : bool) (q : list item) : pollres :=
  match q with
  | [] => if closed then (Finished, [], false) else (Pending, [], true)
  | Valid v :: r => (Yield v, r, false)
  | _ :: r => (Pending, r, false)
  end.

(** The consumer task. *)
Record task := {
  queue : list item;      (* unread channel content *)
  closed : bool;          (* all senders dropped *)
  registered : bool;      (* receiver's waker registered with the channel *)
  woken : bool;           (* task scheduled to be polled *)
  finished : bool;        (* stream returned None: consumer loop ended *)
  out : list N            (* bodies yielded so far *)
}.

Definition init : task :=
  {| queue := []; closed := false; registered := false; woken := true; finished := false; out := [] |}.

(** Run the task while it is scheduled.  [fuel] bounds the number of polls ([length queue + 2]
    is always enough, see Proofs). *)
Fixpoint task_run (poll : bool -> list item -> pollres) (fuel : nat) (s : task) : task :=
  match fuel with
  | O => s
  | S f =>
      if negb (woken s) || finished s then s
      else
        let '(r, q', reg) := poll (closed s) (queue s) in
        match r with
        | Yield v =>
            task_run poll f {| queue := q'; closed := closed s; registered := reg; woken := true;
                               finished := false; out := out s ++ [v] |}
        | Pending =>
            {| queue := q'; closed := closed s; registered := reg; woken := false;
               finished := false; out := out s |}
        | Finished =>
            {| queue := q'; closed := closed s; registered := reg; woken := false;
               finished := true; out := out s |}
        end
  end.

Definition run (poll : bool -> list item -> pollres) (s : task) : task :=
  task_run poll (length (queue s) + 2) s.

(** Channel with capacity [cap]: the messages (never [Lagged]) still retained. *)
Definition msgs (q : list item) : list item :=
  filter (fun i => match i with Lagged => false | _ => true end) q.

Definition push (cap : nat) (q : list item) (m : item) : list item :=
  let ms := msgs q in
  if Nat.ltb (length ms) cap then q ++ [m]
  else Lagged :: tl ms ++ [m].

Definition send (cap : nat) (s : task) (m : item) : task :=
  {| queue := push cap (queue s) m; closed := closed s;
     registered := false; woken := woken s || registered s;
     finished := finished s; out := out s |}.

Definition close (s : task) : task :=
  {| queue := queue s; closed := true;
     registered := false; woken := woken s || registered s;
     finished := finished s; out := out s |}.

(** A scenario: phases; in each phase some messages are sent back to back (the consumer does not
    run in between), then the executor runs the task until it is no longer scheduled.  The
    yields of each phase are recorded. *)
Definition phase (poll : bool -> list item -> pollres) (cap : nat) (s : task) (ms : list item) : task :=
  run poll (fold_left (send cap) ms s).

Fixpoint phases (poll : bool -> list item -> pollres) (cap : nat) (s : task) (phs : list (list item))
  : task * list (list N) :=
  match phs with
  | [] => (s, [])
  | ms :: r =>
      let n := length (out s) in
      let s1 := phase poll cap s ms in
      let '(s2, ys) := phases poll cap s1 r in
      (s2, skipn n (out s1) :: ys)
  end.

(** Whole scenario: first poll on an empty channel (subscribing task starts), the phases, then
    optionally the senders are dropped. *)
Definition scenario (poll : bool -> list item -> pollres) (cap : nat) (phs : list (list item)) (do_close : bool)
  : task * list (list N) :=
  let s0 := run poll init in
  let '(s1, ys) := phases poll cap s0 phs in
  if do_close then (run poll (close s1), ys) else (s1, ys).

(** Specification: what a subscription that never stalls yields — in every phase the valid ones
    among the messages the channel retained (the last [cap] of the phase). *)
Definition lastn {A} (n : nat) (l : list A) : list A := skipn (length l - n) l.

Definition expected (cap : nat) (phs : list (list item)) : list (list N) :=
  map (fun ms => valids (lastn cap ms)) phs.
