(** Model of p2panda-discovery/src/psi_hash.rs — the confidential ("PSI by salted hashes")
    discovery protocol between Alice (initiator) and Bob (acceptor).

    Rust                                   model
    ------------------------------------   -------------------------------------------------
    [Topic] (32 bytes; raw topics and      [topic] (section variable; one type for both, as in
      salted hashes share the type)          Rust)
    [[u8; 32]] salt half, [generate_salt_half]  [half] (section variable); the two random halves
                                             are *inputs* [sa], [sb] of the model
    [combine_salt a b byte] (65 bytes)     [(a, b, byte) : salt]; [ALICE_SALT_BYTE] = [false],
                                             [BOB_SALT_BYTE] = [true]
    [hash(topic, salt)] = BLAKE3(topic||salt)   [H : topic -> salt -> topic] (section variable)
    [hash_vector]                          [hash_vector]
    [HashSet::from_iter(..)]               [dedup] (a list without repetitions; order is never
                                             observed — all statements go through [In])
    [compute_intersection]                 [compute_intersection]
    [PsiHashMessage]                       [msg]
    [AddressBookStore] (SqliteStore): rows [book = list node]; [node_infos_by_topics] (non-stale
      node_infos_v1 + topics2node_infos_v1   nodes with at least one of the topics),
                                             [node_info] (row by id, stale or not),
                                             [all_node_infos] (non-stale rows)
    [gather_transport_infos]               [gather]  ([BTreeMap::insert] = [bt_insert])
    [alice] / [bob]                        [alice_run] / [bob_run]: a function from the sequence of
                                             items the side finds on its stream ([Rx m], [RxErr],
                                             end of list = stream closed) to the messages it sends
                                             and its outcome
    a session of two honest peers          [session]: the two functions composed in the protocol's
                                             ping-pong order; [transcript] = all messages in causal
                                             order

    Modelled, not verified: BLAKE3 (only the two section hypotheses of Proofs/Psi.v are used);
    the SQL text of the three address-book queries (the model states their documented meaning;
    the correspondence run drives the real [SqliteStore]); errors of the store, the subscription
    and the sink ([PsiHashError::Store/Subscription/Hash] do not occur in the model: the
    store and the subscription answer; a sink that stops accepting messages is modelled by
    [alice_run_k]/[bob_run_k]); serde encoding of the
    messages; the channel (reliable, ordered).  Node ids and transport infos are numbers. *)
From Coq Require Import List Arith NArith Bool.
Import ListNotations.

(** [BTreeMap<ID, Transports>::insert] on a list sorted by key. *)
Fixpoint bt_insert (k v : N) (m : list (N * N)) : list (N * N) :=
  match m with
  | [] => [(k, v)]
  | (k', v') :: r =>
      if N.ltb k k' then (k, v) :: m
      else if N.eqb k k' then (k, v) :: r
      else (k', v') :: bt_insert k v r
  end.

Fixpoint interleave {A} (l1 l2 : list A) : list A :=
  match l1, l2 with
  | x :: r1, y :: r2 => x :: y :: interleave r1 r2
  | _, [] => l1
  | [], _ => l2
  end.

Section Psi.
  Variable topic : Type.
  Variable half : Type.
  Variable teqb : topic -> topic -> bool.

  Definition salt : Type := (half * half * bool)%type.
  Variable H : topic -> salt -> topic.

  Definition ALICE_SALT_BYTE := false.
  Definition BOB_SALT_BYTE := true.
  Definition combine_salt (a b : half) (byte : bool) : salt := (a, b, byte).

  Definition mem (t : topic) (l : list topic) : bool := existsb (teqb t) l.

  Fixpoint dedup (l : list topic) : list topic :=
    match l with
    | [] => []
    | x :: r => if mem x r then dedup r else x :: dedup r
    end.

  Definition hash_vector (ts : list topic) (s : salt) : list topic := map (fun t => H t s) ts.

  (** [HashSet::from_iter(hash_vector(..))] *)
  Definition hash_set (ts : list topic) (s : salt) : list topic := dedup (hash_vector ts s).

  Definition compute_intersection (local remote : list topic) (s : salt) : list topic :=
    dedup (filter (fun t => mem (H t s) remote) local).

  (** * Address book *)
  Record node := { nid : N; nstale : bool; ntransport : option N; ntopics : list topic }.

  Definition node_infos_by_topics (ts : list topic) (b : list node) : list node :=
    filter (fun n => negb (nstale n) && existsb (fun t => mem t ts) (ntopics n)) b.

  Definition node_info (id : N) (b : list node) : option node :=
    find (fun n => N.eqb (nid n) id) b.

  Definition all_node_infos (b : list node) : list node := filter (fun n => negb (nstale n)) b.

  Definition selected (restricted : bool) (me : N) (b : list node) (common : list topic) : list node :=
    if restricted then
      let r := node_infos_by_topics common b in
      if existsb (fun n => N.eqb (nid n) me) r then r
      else match node_info me b with
           | Some n => r ++ [n]
           | None => r
           end
    else all_node_infos b.

  Definition assemble (ns : list node) : list (N * N) :=
    fold_left (fun m n => match ntransport n with
                          | Some tr => bt_insert (nid n) tr m
                          | None => m
                          end) ns [].

  Definition gather (restricted : bool) (me : N) (b : list node) (common : list topic) : list (N * N) :=
    assemble (selected restricted me b common).

  (** * Messages, sides *)
  Inductive msg :=
  | AliceSaltHalf (a : half)
  | BobSaltHalfAndHashedData (b : half) (hs : list topic)
  | AliceHashedData (hs : list topic)
  | Nodes (infos : list (N * N)).

  Inductive rx := Rx (m : msg) | RxErr.

  Inductive err := UnexpectedMessage | StreamErr | SinkErr.

  Record result := { res_remote : N; res_infos : list (N * N); res_topics : list topic }.

  Inductive outcome := Done (r : result) | Fail (e : err).

  Record party := { p_me : N; p_remote : N; p_restricted : bool; p_topics : list topic; p_book : list node }.

  Definition send_nodes (p : party) (common : list topic) : msg :=
    Nodes (gather (p_restricted p) (p_me p) (p_book p) common).

  Definition alice_run (p : party) (sa : half) (inc : list rx) : list msg * outcome :=
    let m1 := AliceSaltHalf sa in
    match inc with
    | [] | RxErr :: _ => ([m1], Fail StreamErr)
    | Rx (BobSaltHalfAndHashedData sb hs) :: rest =>
        let alice_final := combine_salt sa sb ALICE_SALT_BYTE in
        let bob_final := combine_salt sa sb BOB_SALT_BYTE in
        let common := compute_intersection (p_topics p) hs bob_final in
        let m3 := AliceHashedData (hash_set (p_topics p) alice_final) in
        match rest with
        | [] | RxErr :: _ => ([m1; m3], Fail StreamErr)
        | Rx (Nodes infos) :: _ =>
            ([m1; m3; send_nodes p common],
             Done {| res_remote := p_remote p; res_infos := infos; res_topics := common |})
        | Rx _ :: _ => ([m1; m3], Fail UnexpectedMessage)
        end
    | Rx _ :: _ => ([m1], Fail UnexpectedMessage)
    end.

  Definition bob_run (p : party) (sb : half) (inc : list rx) : list msg * outcome :=
    match inc with
    | [] | RxErr :: _ => ([], Fail StreamErr)
    | Rx (AliceSaltHalf sa) :: rest =>
        let alice_final := combine_salt sa sb ALICE_SALT_BYTE in
        let bob_final := combine_salt sa sb BOB_SALT_BYTE in
        let m2 := BobSaltHalfAndHashedData sb (hash_set (p_topics p) bob_final) in
        match rest with
        | [] | RxErr :: _ => ([m2], Fail StreamErr)
        | Rx (AliceHashedData hs) :: rest2 =>
            let common := compute_intersection (p_topics p) hs alice_final in
            let m4 := send_nodes p common in
            match rest2 with
            | [] | RxErr :: _ => ([m2; m4], Fail StreamErr)
            | Rx (Nodes infos) :: _ =>
                ([m2; m4], Done {| res_remote := p_remote p; res_infos := infos; res_topics := common |})
            | Rx _ :: _ => ([m2; m4], Fail UnexpectedMessage)
            end
        | Rx _ :: _ => ([m2], Fail UnexpectedMessage)
        end
    | Rx _ :: _ => ([], Fail UnexpectedMessage)
    end.

  (** * Sink failures.

      Every send in [alice]/[bob] is [tx.send(m).await.map_err(|_| PsiHashError::Sink)?].  The
      same two functions once more, for a sink that accepts only the first [k] messages (the
      peer dropped its receiver after reading [k] of them): the [k+1]-th send fails with [Sink]
      at the place where it stands in the code. *)
  Definition alice_run_k (k : nat) (p : party) (sa : half) (inc : list rx) : list msg * outcome :=
    let m1 := AliceSaltHalf sa in
    if Nat.ltb k 1 then ([], Fail SinkErr) else
    match inc with
    | [] | RxErr :: _ => ([m1], Fail StreamErr)
    | Rx (BobSaltHalfAndHashedData sb hs) :: rest =>
        let alice_final := combine_salt sa sb ALICE_SALT_BYTE in
        let bob_final := combine_salt sa sb BOB_SALT_BYTE in
        let common := compute_intersection (p_topics p) hs bob_final in
        let m3 := AliceHashedData (hash_set (p_topics p) alice_final) in
        if Nat.ltb k 2 then ([m1], Fail SinkErr) else
        match rest with
        | [] | RxErr :: _ => ([m1; m3], Fail StreamErr)
        | Rx (Nodes infos) :: _ =>
            if Nat.ltb k 3 then ([m1; m3], Fail SinkErr) else
            ([m1; m3; send_nodes p common],
             Done {| res_remote := p_remote p; res_infos := infos; res_topics := common |})
        | Rx _ :: _ => ([m1; m3], Fail UnexpectedMessage)
        end
    | Rx _ :: _ => ([m1], Fail UnexpectedMessage)
    end.

  Definition bob_run_k (k : nat) (p : party) (sb : half) (inc : list rx) : list msg * outcome :=
    match inc with
    | [] | RxErr :: _ => ([], Fail StreamErr)
    | Rx (AliceSaltHalf sa) :: rest =>
        let alice_final := combine_salt sa sb ALICE_SALT_BYTE in
        let bob_final := combine_salt sa sb BOB_SALT_BYTE in
        let m2 := BobSaltHalfAndHashedData sb (hash_set (p_topics p) bob_final) in
        if Nat.ltb k 1 then ([], Fail SinkErr) else
        match rest with
        | [] | RxErr :: _ => ([m2], Fail StreamErr)
        | Rx (AliceHashedData hs) :: rest2 =>
            let common := compute_intersection (p_topics p) hs alice_final in
            let m4 := send_nodes p common in
            if Nat.ltb k 2 then ([m2], Fail SinkErr) else
            match rest2 with
            | [] | RxErr :: _ => ([m2; m4], Fail StreamErr)
            | Rx (Nodes infos) :: _ =>
                ([m2; m4], Done {| res_remote := p_remote p; res_infos := infos; res_topics := common |})
            | Rx _ :: _ => ([m2; m4], Fail UnexpectedMessage)
            end
        | Rx _ :: _ => ([m2], Fail UnexpectedMessage)
        end
    | Rx _ :: _ => ([], Fail UnexpectedMessage)
    end.

  (** Specification: the run is the unlimited run cut at the first send the sink refuses. *)
  Definition with_sink (k : nat) (r : list msg * outcome) : list msg * outcome :=
    if Nat.leb (length (fst r)) k then r else (firstn k (fst r), Fail SinkErr).

  (** * A session of two honest peers.

      Alice speaks first; each side's next message is its reaction to everything the other side
      has sent so far.  Three rounds reach the fixed point (Proofs/Psi.v [session_closed]). *)
  Definition rxs (l : list msg) : list rx := map Rx l.

  Definition session (pa pb : party) (sa sb : half) : (list msg * outcome) * (list msg * outcome) :=
    let a0 := fst (alice_run pa sa []) in
    let b1 := fst (bob_run pb sb (rxs a0)) in
    let a1 := fst (alice_run pa sa (rxs b1)) in
    let b2 := fst (bob_run pb sb (rxs a1)) in
    let a2 := alice_run pa sa (rxs b2) in
    let b3 := bob_run pb sb (rxs (fst a2)) in
    (a2, b3).

  Definition alice_sent pa pb sa sb := fst (fst (session pa pb sa sb)).
  Definition bob_sent pa pb sa sb := fst (snd (session pa pb sa sb)).
  Definition alice_outcome pa pb sa sb := snd (fst (session pa pb sa sb)).
  Definition bob_outcome pa pb sa sb := snd (snd (session pa pb sa sb)).

  (** All messages of the session in causal order (the protocol alternates strictly). *)
  Definition transcript (pa pb : party) (sa sb : half) : list msg :=
    interleave (alice_sent pa pb sa sb) (bob_sent pa pb sa sb).

  (** The 32-byte [Topic]-typed values a message carries. *)
  Definition words (m : msg) : list topic :=
    match m with
    | BobSaltHalfAndHashedData _ hs => hs
    | AliceHashedData hs => hs
    | _ => []
    end.

  Definition occurs (t : topic) (m : msg) : Prop := In t (words m).

  (** The node infos a message carries. *)
  Definition infos_of (m : msg) : list (N * N) :=
    match m with
    | Nodes i => i
    | _ => []
    end.

  (** * Specification of the message order each side insists on. *)
  Inductive kind := KS1 | KS2 | KH3 | KN.

  Definition kind_of (m : msg) : kind :=
    match m with
    | AliceSaltHalf _ => KS1
    | BobSaltHalfAndHashedData _ _ => KS2
    | AliceHashedData _ => KH3
    | Nodes _ => KN
    end.

  Definition kind_eqb (a b : kind) : bool :=
    match a, b with
    | KS1, KS1 | KS2, KS2 | KH3, KH3 | KN, KN => true
    | _, _ => false
    end.

  (** Walk the expected kinds along the incoming items: [None] = all expected messages arrived in
      order; otherwise the error of the first deviation together with how many were accepted. *)
  Fixpoint expect (ks : list kind) (inc : list rx) (accepted : nat) : option err * nat :=
    match ks with
    | [] => (None, accepted)
    | k :: ks' =>
        match inc with
        | [] | RxErr :: _ => (Some StreamErr, accepted)
        | Rx m :: rest =>
            if kind_eqb (kind_of m) k then expect ks' rest (S accepted)
            else (Some UnexpectedMessage, accepted)
        end
    end.

  Definition alice_expects := [KS2; KN].
  Definition bob_expects := [KS1; KH3; KN].
  (** * Specification predicates used by the theorems *)

  (** [n] subscribes to one of [common]. *)
  Definition shares_common (n : node) (common : list topic) : Prop :=
    exists t, In t (ntopics n) /\ In t common.

  (** [(id, tr)] is a row of [p]'s address book that is either [p] itself or a non-stale node
      subscribed to a topic both [p] and [other] subscribe to. *)
  Definition in_scope (p other : party) (id tr : N) : Prop :=
    exists n, In n (p_book p) /\ nid n = id /\ ntransport n = Some tr /\
      (id = p_me p \/
       (nstale n = false /\
        exists t, In t (ntopics n) /\ In t (p_topics p) /\ In t (p_topics other))).

  (** The same relative to a given list of "common" topics (one-sided runs). *)
  Definition in_scope_of (p : party) (common : list topic) (id tr : N) : Prop :=
    exists n, In n (p_book p) /\ nid n = id /\ ntransport n = Some tr /\
      (id = p_me p \/ (nstale n = false /\ shares_common n common)).

  Definition outcome_err (o : outcome) : option err :=
    match o with
    | Done _ => None
    | Fail e => Some e
    end.
End Psi.

Arguments AliceSaltHalf {topic half}.
Arguments BobSaltHalfAndHashedData {topic half}.
Arguments AliceHashedData {topic half}.
Arguments Nodes {topic half}.
Arguments Rx {topic half}.
Arguments RxErr {topic half}.
Arguments Done {topic}.
Arguments Fail {topic}.
