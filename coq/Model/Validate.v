(** Model of operation validation and of the accept/reject behaviour of ingest — property C01.

    Rust code modelled (definitions only; proofs are in Proofs/Validate.v):

    - [op_error]            = [p2panda_core::OperationError] (operation.rs:437), variant names kept.
    - [header_verify]       = [Header::verify] (operation.rs:287): no signature -> false, else
                              [verify_strict] of the claimed signature over the encoding of the
                              header with the signature removed.
    - [validate_header]     = [validate_header] (operation.rs:517), branch for branch, same order.
    - [validate_operation]  = [validate_operation] (operation.rs:484).
    - [operation]           = [Operation<E>] ([hash] is a field filled in by whoever decoded the
                              operation; all decode paths in the repository set it to
                              [header.hash()], the harness does the same).
    - [ingest]              = [p2panda_stream::ingest::ingest_operation]
                              (p2panda-stream/src/ingest/operation.rs:20) reduced to what C01 speaks
                              about: validate first; then "already stored" -> [Existed], store
                              untouched (rollback); then the log-integrity check
                              ([validate_prunable_backlink] against the latest stored entry — an
                              abstract function [log_check] here, modelled in detail by
                              Model/Ingest.v for C03-C05) -> rejected, store untouched (the
                              transaction permit is dropped, which rolls back); else insert.
    - [fresh_log_check]     = [validate_prunable_backlink None header prune_flag] (prune.rs), i.e.
                              the log check on a store that has no entry for that author/log.

    Cryptography is symbolic: [verify_sig], [hash_body] are parameters. Proofs/Validate.v states
    the assumptions (ideal signatures, injective hash) as Section hypotheses.  [ideal_sign],
    [ideal_verify], [ideal_hash] below are one concrete instance (signatures and hashes as free
    terms serialised into [bytes]) used to *evaluate* the model on generated cases.

    Modelled, not verified: Ed25519 [verify_strict], BLAKE3, SQLite/sqlx executing the
    transaction (begin / rollback on drop / commit), [Body::size] as [len mod 2^32]. *)
From Coq Require Import List NArith Bool Arith.
From PV Require Import Model.Header.
Import ListNotations.

Inductive op_error :=
| UnsupportedVersion | MissingSignature | SignatureMismatch | SeqNumMismatch
| InconsistentPayloadInfo | MissingPayloadHash | PayloadMismatch | TooManyAuthors
| SeqNumNonIncremental | BacklinkMissing | BacklinkMismatch.

Record operation := mkOp { op_hash : bytes; op_header : header; op_body : option bytes }.

Definition opt_bytes_eq (a b : option bytes) : bool :=
  match a, b with
  | None, None => true
  | Some x, Some y => bytes_eqb x y
  | _, _ => false
  end.

(** [Body::size]: [self.0.len() as u32] *)
Definition body_size (b : bytes) : N := N.modulo (N.of_nat (length b)) u32_bound.

Section Validate.
  (** [VerifyingKey::verify pk msg sig] (verify_strict) *)
  Variable verify_sig : bytes -> list token -> bytes -> bool.
  (** BLAKE3 of the body bytes *)
  Variable hash_body : bytes -> bytes.
  (** iteration order of [HashSet] at the place where the header is re-encoded *)
  Variable order : list bytes -> list bytes.

  Definition header_verify (h : header) : bool :=
    match h_sig h with
    | Some s => verify_sig (h_pk h) (enc_header order (unsigned h)) s
    | None => false
    end.

  (** [None] = [Ok(())] *)
  Definition validate_header (h : header) : option op_error :=
    if negb (header_verify h) then Some SignatureMismatch
    else if negb (N.eqb (h_version h) 1) then Some UnsupportedVersion
    else if (is_some (h_phash h) && N.eqb (h_psize h) 0)
            || (negb (is_some (h_phash h)) && N.ltb 0 (h_psize h)) then Some InconsistentPayloadInfo
    else if is_some (h_backlink h) && N.eqb (h_seq h) 0 then Some SeqNumMismatch
    else if negb (is_some (h_backlink h)) && N.ltb 0 (h_seq h) then Some BacklinkMissing
    else None.

  Definition validate_operation (op : operation) : option op_error :=
    let h := op_header op in
    match validate_header h with
    | Some e => Some e
    | None =>
        let claimed_size := h_psize h in
        let claimed :=
          if N.eqb claimed_size 0 then inl None
          else match h_phash h with
               | None => inr MissingPayloadHash
               | Some x => inl (Some x)
               end in
        match claimed with
        | inr e => Some e
        | inl claimed_hash =>
            match op_body op with
            | Some body =>
                if negb (opt_bytes_eq claimed_hash (Some (hash_body body)))
                   || negb (N.eqb claimed_size (body_size body))
                then Some PayloadMismatch else None
            | None => None
            end
        end
    end.

  (** * ingest, as far as C01 needs it *)

  Variable store : Type.
  Variable has_op : store -> bytes -> bool.
  (** log integrity against what is stored (depends on log id and prune flag, which are fixed
      arguments of one ingest call) *)
  Variable log_check : store -> operation -> option op_error.
  Variable insert : store -> operation -> store.

  Inductive ingest_result := Inserted | Existed | Rejected (e : op_error).

  Definition ingest (s : store) (op : operation) : store * ingest_result :=
    match validate_operation op with
    | Some e => (s, Rejected e)
    | None =>
        if has_op s (op_hash op) then (s, Existed)
        else match log_check s op with
             | Some e => (s, Rejected e)
             | None => (insert s op, Inserted)
             end
    end.
End Validate.

(** [validate_prunable_backlink None header prune_flag] *)
Definition fresh_log_check (prune : bool) (h : header) : option op_error :=
  if N.ltb 0 (h_seq h) then (if prune then None else Some BacklinkMissing) else None.

(** * A concrete ideal instance, for evaluating the model on cases

    Signatures and hashes are free terms: [sign k m] is an injective serialisation of the pair
    (key, message), [hash b] of the body.  The markers 1000.. are not bytes, so such a term never
    equals a literal byte string of a case. *)

Definition ser_token (t : token) : list N :=
  match t with
  | TUInt n => [2000; n]
  | TBytes b => 2001 :: N.of_nat (length b) :: b
  | TBool b => [2002; if b then 1 else 0]
  | TSeq n => [2003; N.of_nat n]
  end%N.

Definition ser_tokens (ts : list token) : list N := flat_map ser_token ts.

Definition ideal_sign (sk : bytes) (m : list token) : bytes :=
  1000%N :: N.of_nat (length sk) :: sk ++ ser_tokens m.

(** the secret key of a public key is represented by the public key itself *)
Definition ideal_verify (pk : bytes) (m : list token) (s : bytes) : bool :=
  bytes_eqb s (ideal_sign pk m).

Definition ideal_hash (b : bytes) : bytes := 1001%N :: b.

(** Simplest store: the list of stored operations, newest first. *)
Definition lstore := list operation.
Definition lhas (s : lstore) (h : bytes) : bool := existsb (fun o => bytes_eqb (op_hash o) h) s.
Definition linsert (s : lstore) (o : operation) : lstore := o :: s.
