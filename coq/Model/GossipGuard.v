(** Model of the topic reference counting of the p2panda-net gossip front end (C29), as a
    labelled transition system over thread steps and manager steps for ONE topic.

    Rust (p2panda-net/src/gossip/api.rs, gossip/actors/manager.rs)  | here
    ---------------------------------------------------------------+---------------------------
    TopicDropGuard.counter : Arc<AtomicUsize>, one per              | [ctr] : one counter per
      TopicDropGuard::new (= per Subscribe)                         |   "generation" g
    Gossip.senders[topic] (the guard stored by the last             | [cur] : generation stored
      completed slow path, clone_without_increment)                 |
    senders.read() held over the fast path / senders.write()        | [rlock], step [PIns] needs
      for the insert                                                |   [rlock = 0]
    Gossip::stream, fast path: has_subscriptions() then clone()     | [PStream] then [PWin g]
      as-is: load >= 1 ... fetch_add(1)        (two steps)          |   [fixed = false]
      repaired: fetch_update(|c| c >= 1 then c + 1)  (one step)     |   [fixed = true]
    Gossip::stream, slow path: TopicDropGuard::new, call            | [PSlow] (new generation,
      Subscribe (blocks for the reply), senders.write().insert      |   send MSub), [PWait],
                                                                    |   [PIns]
    TopicDropGuard::drop: previous = fetch_sub(1);                  | [PDrop g] (the decrement),
      if previous == 1 (thread-local value, no second read of the   |   [PDec g previous] (the
      shared counter): send_message(Unsubscribe(topic))             |   decision), [PSend g]
    manager mailbox (FIFO), Subscribe: register a new session for   | [mbox], [mstep]: [sess],
      the topic (overwriting; an overwritten session is forgotten   |   [dead] = generations
      but not stopped), Unsubscribe(topic): stop and forget the     |   whose session was
      session registered for the topic                              |   stopped, [log]

    Every thread runs the program "h = gossip.stream(topic); then keep h or drop h" ([tdrop]).
    Schedule points of the real code (cfg p2panda_p2panda_verif) sit exactly between the steps.

    Ghost state (not in the Rust code, used to state the theorems): [zeros g] counts the 1 -> 0
    transitions of counter g, [MUnsub g] remembers which guard generation sent the message
    (the manager ignores it), [tpath] remembers which path a stream() call took.

    Modelled, not verified: Rust atomics are sequentially consistent and each fetch_* is one
    indivisible step; the actor mailbox is FIFO per sender program order and the manager handles
    one message at a time; tokio's RwLock (a writer runs only with no reader inside; fairness is
    not modelled, which only adds behaviours); everything else the manager does (iroh-gossip
    subscription, session actors, address book) is reduced to the session bookkeeping above;
    GossipHandle::clone / subscribe() (unconditional increments from a live handle) are not
    separate thread steps. *)
From Coq Require Import List Arith Bool.
Import ListNotations.

Inductive pc :=
| PStream            (* about to call stream() *)
| PWin (g : nat)     (* inside the fast path between the check and the return *)
| PSlow              (* decided for the slow path, about to create a guard and send Subscribe *)
| PWait (g : nat)    (* Subscribe sent, waiting for the manager's reply *)
| PIns (g : nat)     (* reply received, about to store the guard in senders *)
| PHold (g : nat)    (* stream() returned a handle of generation g, kept *)
| PDrop (g : nat)    (* about to drop the handle: fetch_sub *)
| PDec (g p : nat)   (* fetch_sub returned p (kept in the thread's local state): about to decide *)
| PSend (g : nat)    (* the remembered previous value was 1: about to send Unsubscribe *)
| PDone.

Definition pc_eqb (a b : pc) : bool :=
  match a, b with
  | PStream, PStream | PSlow, PSlow | PDone, PDone => true
  | PWin g, PWin h | PWait g, PWait h | PIns g, PIns h
  | PHold g, PHold h | PDrop g, PDrop h | PSend g, PSend h => Nat.eqb g h
  | PDec g p, PDec h q => Nat.eqb g h && Nat.eqb p q
  | _, _ => false
  end.

(** [tpath]: 0 = no path taken yet, 1 = fast, 2 = slow *)
Record thread := { tpc : pc; tdrop : bool; tpath : nat }.

Inductive msg := MSub (g : nat) | MUnsub (g : nat).

Record st := {
  ctr : list nat;
  zeros : list nat;
  cur : option nat;
  rlock : nat;
  mbox : list msg;
  sess : option nat;
  dead : list nat;
  log : list msg;
  thr : list thread }.

Fixpoint set_nth {A} (l : list A) (n : nat) (v : A) : list A :=
  match l, n with
  | [], _ => []
  | _ :: r, 0 => v :: r
  | x :: r, S k => x :: set_nth r k v
  end.

Definition get (l : list nat) (g : nat) : nat := nth g l 0.

Definition after_stream (t : thread) (g : nat) : pc := if tdrop t then PDrop g else PHold g.

Definition set_pc (t : thread) (p : pc) : thread := {| tpc := p; tdrop := tdrop t; tpath := tpath t |}.
Definition set_pc_path (t : thread) (p : pc) (k : nat) : thread := {| tpc := p; tdrop := tdrop t; tpath := k |}.

(** One step of thread [i]; [None] = not enabled. *)
Definition tstep (fixed : bool) (s : st) (i : nat) : option st :=
  match nth_error (thr s) i with
  | None => None
  | Some t =>
      match tpc t with
      | PStream =>
          let fast g :=
            {| ctr := if fixed then set_nth (ctr s) g (S (get (ctr s) g)) else ctr s;
               zeros := zeros s; cur := cur s; rlock := S (rlock s); mbox := mbox s; sess := sess s;
               dead := dead s; log := log s; thr := set_nth (thr s) i (set_pc_path t (PWin g) 1) |} in
          let slow :=
            {| ctr := ctr s; zeros := zeros s; cur := cur s; rlock := rlock s; mbox := mbox s; sess := sess s;
               dead := dead s; log := log s; thr := set_nth (thr s) i (set_pc_path t PSlow 2) |} in
          match cur s with
          | Some g => if 1 <=? get (ctr s) g then Some (fast g) else Some slow
          | None => Some slow
          end
      | PWin g =>
          Some {| ctr := if fixed then ctr s else set_nth (ctr s) g (S (get (ctr s) g));
                  zeros := zeros s; cur := cur s; rlock := pred (rlock s); mbox := mbox s; sess := sess s;
                  dead := dead s; log := log s; thr := set_nth (thr s) i (set_pc t (after_stream t g)) |}
      | PSlow =>
          let g := length (ctr s) in
          Some {| ctr := ctr s ++ [1]; zeros := zeros s ++ [0]; cur := cur s; rlock := rlock s;
                  mbox := mbox s ++ [MSub g]; sess := sess s; dead := dead s; log := log s;
                  thr := set_nth (thr s) i (set_pc t (PWait g)) |}
      | PWait _ => None
      | PIns g =>
          if rlock s =? 0
          then Some {| ctr := ctr s; zeros := zeros s; cur := Some g; rlock := rlock s; mbox := mbox s;
                       sess := sess s; dead := dead s; log := log s;
                       thr := set_nth (thr s) i (set_pc t (after_stream t g)) |}
          else None
      | PHold _ => None
      | PDrop g =>
          let p := get (ctr s) g in
          Some {| ctr := set_nth (ctr s) g (pred p);
                  zeros := if p =? 1 then set_nth (zeros s) g (S (get (zeros s) g)) else zeros s;
                  cur := cur s; rlock := rlock s; mbox := mbox s; sess := sess s; dead := dead s; log := log s;
                  thr := set_nth (thr s) i (set_pc t (PDec g p)) |}
      | PDec g p =>
          (* the decision uses only the value the thread's own fetch_sub returned *)
          Some {| ctr := ctr s; zeros := zeros s; cur := cur s; rlock := rlock s; mbox := mbox s;
                  sess := sess s; dead := dead s; log := log s;
                  thr := set_nth (thr s) i (set_pc t (if p =? 1 then PSend g else PDone)) |}
      | PSend g =>
          Some {| ctr := ctr s; zeros := zeros s; cur := cur s; rlock := rlock s;
                  mbox := mbox s ++ [MUnsub g]; sess := sess s; dead := dead s; log := log s;
                  thr := set_nth (thr s) i (set_pc t PDone) |}
      | PDone => None
      end
  end.

Definition wake (g : nat) (t : thread) : thread :=
  if pc_eqb (tpc t) (PWait g) then set_pc t (PIns g) else t.

(** The manager handles the next message of its mailbox. *)
Definition mstep (s : st) : option st :=
  match mbox s with
  | [] => None
  | MSub g :: r =>
      Some {| ctr := ctr s; zeros := zeros s; cur := cur s; rlock := rlock s; mbox := r;
              sess := Some g; dead := dead s; log := log s ++ [MSub g]; thr := map (wake g) (thr s) |}
  | MUnsub g :: r =>
      Some {| ctr := ctr s; zeros := zeros s; cur := cur s; rlock := rlock s; mbox := r;
              sess := None;
              dead := match sess s with Some h => h :: dead s | None => dead s end;
              log := log s ++ [MUnsub g]; thr := thr s |}
  end.

Inductive label := LT (i : nat) | LM.

Definition stepb (fixed : bool) (s : st) (l : label) : option st :=
  match l with LT i => tstep fixed s i | LM => mstep s end.

(** Variant of the drop that is NOT what the code does (kept for the regression witness
    [reread_after_decrement_refuted]): the decision re-reads the shared counter
    ([!has_references()], i.e. counter = 0) instead of using the value its own fetch_sub returned. *)
Definition tstep_reread (s : st) (i : nat) : option st :=
  match nth_error (thr s) i with
  | None => None
  | Some t =>
      match tpc t with
      | PDec g _ =>
          Some {| ctr := ctr s; zeros := zeros s; cur := cur s; rlock := rlock s; mbox := mbox s;
                  sess := sess s; dead := dead s; log := log s;
                  thr := set_nth (thr s) i (set_pc t (if get (ctr s) g =? 0 then PSend g else PDone)) |}
      | _ => tstep true s i
      end
  end.

Fixpoint run_strict_reread (s : st) (ls : list label) : option st :=
  match ls with
  | [] => Some s
  | l :: r => match (match l with LT i => tstep_reread s i | LM => mstep s end) with
              | Some s' => run_strict_reread s' r
              | None => None
              end
  end.

(** all labels must be enabled *)
Fixpoint run_strict (fixed : bool) (s : st) (ls : list label) : option st :=
  match ls with
  | [] => Some s
  | l :: r => match stepb fixed s l with Some s' => run_strict fixed s' r | None => None end
  end.

(** labels that are not enabled are skipped (what the harness does) *)
Fixpoint run_skip (fixed : bool) (s : st) (ls : list label) : st :=
  match ls with
  | [] => s
  | l :: r => match stepb fixed s l with Some s' => run_skip fixed s' r | None => run_skip fixed s r end
  end.

Fixpoint first_thread_step (fixed : bool) (s : st) (is : list nat) : option st :=
  match is with
  | [] => None
  | i :: r => match tstep fixed s i with Some s' => Some s' | None => first_thread_step fixed s r end
  end.

(** run to completion: lowest enabled thread first, the manager when no thread can move *)
Fixpoint drain (fuel : nat) (fixed : bool) (s : st) : st :=
  match fuel with
  | 0 => s
  | S f =>
      match first_thread_step fixed s (seq 0 (length (thr s))) with
      | Some s' => drain f fixed s'
      | None => match mstep s with Some s' => drain f fixed s' | None => s end
      end
  end.

Definition init (flags : list bool) : st :=
  {| ctr := []; zeros := []; cur := None; rlock := 0; mbox := []; sess := None; dead := []; log := [];
     thr := map (fun d => {| tpc := PStream; tdrop := d; tpath := 0 |}) flags |}.

(** every thread makes at most 7 steps, every step sends at most one message *)
Definition fuel_for (flags : list bool) : nat := 16 * (length flags) + 8.

Definition run_case (fixed : bool) (flags : list bool) (ls : list label) : st :=
  drain (fuel_for flags) fixed (run_skip fixed (init flags) ls).

(** * Notions used by the theorems *)

(** thread [t] owns a counted reference of generation [g] *)
Definition holds (fixed : bool) (g : nat) (t : thread) : bool :=
  match tpc t with
  | PWin h => fixed && (h =? g)
  | PWait h | PIns h | PHold h | PDrop h => h =? g
  | _ => false
  end.

(** thread [t] owes the Unsubscribe of generation [g]: its fetch_sub returned 1 and the message
    is not sent yet (before or after the thread-local decision) *)
Definition at_send (g : nat) (t : thread) : bool :=
  pc_eqb (tpc t) (PSend g) || pc_eqb (tpc t) (PDec g 1).

Definition cnt (p : thread -> bool) (l : list thread) : nat := length (filter p l).

(** generation [g] is not finished: a counted reference exists or its Unsubscribe is still owed *)
Definition unfinished (s : st) (g : nat) : bool :=
  (1 <=? get (ctr s) g) || existsb (at_send g) (thr s).

(** the step [l] at [s] starts a new subscription while an earlier generation is unfinished *)
Definition overlap (s : st) (l : label) : bool :=
  match l with
  | LM => false
  | LT i => match nth_error (thr s) i with
            | Some t => pc_eqb (tpc t) PSlow && existsb (unfinished s) (seq 0 (length (ctr s)))
            | None => false
            end
  end.

(** no step of the trace is an overlapping subscription (the complement is the class of the
    open findings) *)
Fixpoint no_overlap (fixed : bool) (s : st) (ls : list label) : bool :=
  match ls with
  | [] => true
  | l :: r => negb (overlap s l) &&
              match stepb fixed s l with Some s' => no_overlap fixed s' r | None => true end
  end.

(** the session the manager will have registered once it has handled its whole mailbox *)
Definition sess_step (x : option nat) (m : msg) : option nat :=
  match m with MSub g => Some g | MUnsub _ => None end.
Definition sess_after (ms : list msg) (x : option nat) : option nat := fold_left sess_step ms x.

Definition holds_handle (g : nat) (t : thread) : bool :=
  match tpc t with PHold h | PWin h | PDrop h => h =? g | _ => false end.

Fixpoint count_msg (m : msg) (l : list msg) : nat :=
  match l with
  | [] => 0
  | x :: r => (match m, x with
               | MSub a, MSub b | MUnsub a, MUnsub b => if a =? b then 1 else 0
               | _, _ => 0
               end) + count_msg m r
  end.

(** joins and leaves alternate, starting with a join *)
Fixpoint alternating (expect_sub : bool) (l : list msg) : bool :=
  match l with
  | [] => true
  | MSub _ :: r => expect_sub && alternating false r
  | MUnsub _ :: r => negb expect_sub && alternating true r
  end.
