(** Model of the causal orderer (properties C11, C12).

    Rust anchors (tree = p2panda with the [fix:] commit "de-duplicate dependencies in
    OrdererStore::ready"):

    - p2panda-store/migrations/..._create_ordering.sql
        [orderer_ready_v1 (id PRIMARY KEY, queue_index UNIQUE, in_queue)]   = [ready_tbl : list rrow]
        [orderer_pending_v1 (id, child_id, parent_id, set_digest)] with the UNIQUE index over all
        four columns                                                       = [pending_tbl : list prow]
    - p2panda-store/src/orderer/sqlite.rs, the six [OrdererStore] operations as written in SQL:
        [mark_ready]       MAX(queue_index)+1; INSERT OR IGNORE; if ignored and the row is no longer
                           in the queue, UPDATE queue_index/in_queue (re-queue)
        [mark_pending]     sort the parents, digest = H(child ++ parents); for every parent that is
                           not in the ready table: INSERT OR IGNORE one row per parent
        [get_next_pending] SELECT DISTINCT child_id, set_digest WHERE id = ?; per pair all
                           parent_id rows of that (child, digest) ORDER BY parent_id; result is a
                           HashSet of (child, parents)
        [take_next_ready]  first row with in_queue ORDER BY queue_index; set in_queue = FALSE
        [remove_pending]   DELETE WHERE id = ?
        [ready]            COUNT(id) WHERE id IN (distinct dependencies) = number of distinct
                           dependencies.  [ready_asis] is the code before the fix (compared with
                           [dependencies.len()]); it is kept for the record (C11_count_refuted).
    - p2panda-stream/src/orderer/orderer.rs: [CausalOrderer::process], [process_pending], [next].

    Modelled, not verified:
    - SQLite executes the issued SQL with standard semantics (PRIMARY KEY / UNIQUE / INSERT OR
      IGNORE / ORDER BY / COUNT / IN); each orderer call runs inside one transaction that commits.
    - ids are [N] (the harness maps 32-byte hashes to indices); [set_digest] is an injective
      function of (child, sorted parents) -- it is modelled as that pair (collision-free BLAKE3
      over fixed-width hex strings).
    - [get_next_pending] returns a [HashSet]; [process_pending] iterates it in an arbitrary order.
      The model takes that order as a parameter [perm : nat -> list entry -> list entry] applied
      to the entries (in table order); the [nat] is a ghost counter ([tick]) of the calls, so any
      assignment of iteration orders to calls is expressible.  Theorems quantify over every [perm]
      that permutes its argument.
    - The recursion of [process_pending] is on [fuel]; running out of fuel sets the ghost flag
      [oof] (Proofs/Orderer.v: never set for a delivered DAG when fuel exceeds its height).
      The Rust recursion has no bound (Box::pin on the heap).
    - ghost fields [tick], [oof], [multi] ([multi]: some [get_next_pending] returned two or more
      entries, i.e. the released *sequence* may depend on the HashSet order) have no Rust
      counterpart and influence nothing else. *)
From Coq Require Import List Arith NArith Bool.
Import ListNotations.

Definition id := N.
(** (child, dependency list) *)
Definition entry := (id * list id)%type.
Definition digest := (id * list id)%type.

Record rrow := mkR { r_id : id; r_idx : N; r_inq : bool }.
Record prow := mkP { p_id : id; p_child : id; p_parent : id; p_dig : digest }.
Record store := mkS { ready_tbl : list rrow; pending_tbl : list prow;
                      tick : nat; oof : bool; multi : bool }.

Definition empty : store := mkS [] [] 0 false false.

(** ** small list helpers *)
Definition memN (x : N) (l : list N) : bool := existsb (N.eqb x) l.

Fixpoint listN_eqb (a b : list N) : bool :=
  match a, b with
  | [], [] => true
  | x :: a', y :: b' => N.eqb x y && listN_eqb a' b'
  | _, _ => false
  end.

Definition dig_eqb (a b : digest) : bool := N.eqb (fst a) (fst b) && listN_eqb (snd a) (snd b).
Definition entry_eqb (a b : entry) : bool := dig_eqb a b.
Definition prow_eqb (a b : prow) : bool :=
  N.eqb (p_id a) (p_id b) && N.eqb (p_child a) (p_child b) && N.eqb (p_parent a) (p_parent b)
  && dig_eqb (p_dig a) (p_dig b).

(** keep first occurrences *)
Fixpoint nodupN (l : list N) : list N :=
  match l with
  | [] => []
  | x :: r => if memN x r then nodupN r else x :: nodupN r
  end.

Fixpoint nodup_by {A} (eqb : A -> A -> bool) (l : list A) : list A :=
  match l with
  | [] => []
  | x :: r => if existsb (eqb x) r then nodup_by eqb r else x :: nodup_by eqb r
  end.

Definition cd_eqb (a b : id * digest) : bool := N.eqb (fst a) (fst b) && dig_eqb (snd a) (snd b).

Fixpoint insert_sorted (x : N) (l : list N) : list N :=
  match l with
  | [] => [x]
  | y :: r => if N.leb x y then x :: l else y :: insert_sorted x r
  end.
Definition sortN (l : list N) : list N := fold_right insert_sorted [] l.

(** ** the six store operations *)
Definition is_ready (s : store) (x : id) : bool := existsb (fun r => N.eqb (r_id r) x) (ready_tbl s).

Definition count_in (s : store) (ids : list id) : nat :=
  length (filter (fun r => memN (r_id r) ids) (ready_tbl s)).

(** after the fix: distinct dependencies *)
Definition ready (s : store) (deps : list id) : bool :=
  let uniq := nodupN deps in Nat.eqb (count_in s uniq) (length uniq).

(** before the fix: [COUNT(id) ... IN (deps)] against [deps.len()] *)
Definition ready_asis (s : store) (deps : list id) : bool :=
  Nat.eqb (count_in s deps) (length deps).

Definition max_idx (t : list rrow) : N := fold_right (fun r m => N.max (r_idx r) m) 0%N t.

Definition set_ready (s : store) (t : list rrow) : store :=
  mkS t (pending_tbl s) (tick s) (oof s) (multi s).
Definition set_pending (s : store) (t : list prow) : store :=
  mkS (ready_tbl s) t (tick s) (oof s) (multi s).

Definition mark_ready (s : store) (x : id) : store :=
  let qi := (max_idx (ready_tbl s) + 1)%N in
  match find (fun r => N.eqb (r_id r) x) (ready_tbl s) with
  | None => set_ready s (ready_tbl s ++ [mkR x qi true])
  | Some r =>
      if r_inq r then s
      else set_ready s (map (fun r => if N.eqb (r_id r) x then mkR x qi true else r) (ready_tbl s))
  end.

Definition insert_ignore (t : list prow) (row : prow) : list prow :=
  if existsb (prow_eqb row) t then t else t ++ [row].

Definition mark_pending (s : store) (child : id) (parents : list id) : store :=
  let sp := sortN parents in
  let dig := (child, sp) in
  set_pending s
    (fold_left (fun t i =>
                  if is_ready s i then t
                  else fold_left (fun t p => insert_ignore t (mkP i child p dig)) sp t)
               sp (pending_tbl s)).

Definition group_parents (t : list prow) (c : id) (d : digest) : list id :=
  sortN (map p_parent (filter (fun r => N.eqb (p_child r) c && dig_eqb (p_dig r) d) t)).

Definition get_next_pending (s : store) (k : id) : option (list entry) :=
  let rows := filter (fun r => N.eqb (p_id r) k) (pending_tbl s) in
  match rows with
  | [] => None
  | _ =>
      (* SELECT DISTINCT child_id, set_digest *)
      let sets := nodup_by cd_eqb (map (fun r => (p_child r, p_dig r)) rows) in
      (* collected into a HashSet<(child, parents)> *)
      Some (nodup_by entry_eqb
              (map (fun cd => (fst cd, group_parents (pending_tbl s) (fst cd) (snd cd))) sets))
  end.

Definition remove_pending (s : store) (k : id) : store :=
  set_pending s (filter (fun r => negb (N.eqb (p_id r) k)) (pending_tbl s)).

(** first in-queue row with the least [queue_index] *)
Fixpoint min_row (t : list rrow) : option rrow :=
  match t with
  | [] => None
  | r :: t' =>
      if r_inq r then
        match min_row t' with
        | Some m => if N.leb (r_idx r) (r_idx m) then Some r else Some m
        | None => Some r
        end
      else min_row t'
  end.

Definition take_next_ready (s : store) : store * option id :=
  match min_row (ready_tbl s) with
  | None => (s, None)
  | Some m =>
      (set_ready s (map (fun r => if N.eqb (r_id r) (r_id m) then mkR (r_id r) (r_idx r) false else r)
                        (ready_tbl s)),
       Some (r_id m))
  end.

(** ** CausalOrderer *)
Definition set_oof (s : store) : store := mkS (ready_tbl s) (pending_tbl s) (tick s) true (multi s).
Definition bump (s : store) (n : nat) : store :=
  mkS (ready_tbl s) (pending_tbl s) (S (tick s)) (oof s) (multi s || Nat.ltb 1 n).

Definition perm_t := nat -> list entry -> list entry.

Fixpoint process_pending (perm : perm_t) (fuel : nat) (s : store) (key : id) : store :=
  match fuel with
  | 0 => set_oof s
  | S f =>
      match get_next_pending s key with
      | None => s
      | Some es =>
          let s1 :=
            fold_left
              (fun st e =>
                 if ready st (snd e)
                 then process_pending perm f (mark_ready st (fst e)) (fst e)
                 else st)
              (perm (tick s) es) (bump s (length es)) in
          remove_pending s1 key
      end
  end.

Definition process (perm : perm_t) (fuel : nat) (s : store) (x : id) (ds : list id) : store :=
  if ready s ds then process_pending perm fuel (mark_ready s x) x
  else mark_pending s x ds.

(** ** driving the orderer: deliveries, single [next] calls, drains *)
Inductive op := Deliver (x : id) (ds : list id) | Next | Drain.
Inductive out := ONext (o : option id) | ODrain (l : list id).

Fixpoint drain (n : nat) (s : store) : store * list id :=
  match n with
  | 0 => (s, [])
  | S n' =>
      match take_next_ready s with
      | (s', None) => (s', [])
      | (s', Some x) => let '(s'', l) := drain n' s' in (s'', x :: l)
      end
  end.

Definition step (perm : perm_t) (fuel : nat) (s : store) (o : op) : store * list out :=
  match o with
  | Deliver x ds => (process perm fuel s x ds, [])
  | Next => let '(s', r) := take_next_ready s in (s', [ONext r])
  | Drain => let '(s', l) := drain (S (length (ready_tbl s))) s in (s', [ODrain l])
  end.

Fixpoint run (perm : perm_t) (fuel : nat) (s : store) (ops : list op) : store * list out :=
  match ops with
  | [] => (s, [])
  | o :: r =>
      let '(s1, o1) := step perm fuel s o in
      let '(s2, o2) := run perm fuel s1 r in
      (s2, o1 ++ o2)
  end.

Definition id_perm : perm_t := fun _ l => l.

(** ** specification side: which items *can* be released ("grounded") *)
Definition delivered_of (ops : list op) : list entry :=
  flat_map (fun o => match o with Deliver x ds => [(x, ds)] | _ => [] end) ops.

(** one round: ids with a delivered dependency list entirely inside [g] *)
Definition ground_step (del : list entry) (g : list id) : list id :=
  map fst (filter (fun e => forallb (fun d => memN d g) (snd e)) del).

Fixpoint ground_iter (n : nat) (del : list entry) : list id :=
  match n with
  | 0 => []
  | S n' => ground_step del (ground_iter n' del)
  end.

Definition groundedb (del : list entry) (x : id) : bool := memN x (ground_iter (length del) del).

(** ** observable trace: deliveries and releases in the order they happen.  [events_of] zips the
    operations with the outputs of the [Next]/[Drain] operations (one output each). *)
Inductive event := EDel (x : id) (ds : list id) | ERel (x : id).

Definition out_events (o : out) : list event :=
  match o with
  | ONext (Some x) => [ERel x]
  | ONext None => []
  | ODrain l => map ERel l
  end.

Fixpoint events_of (ops : list op) (outs : list out) : list event :=
  match ops with
  | [] => []
  | Deliver x ds :: r => EDel x ds :: events_of r outs
  | _ :: r =>
      match outs with
      | [] => []
      | o :: outs' => out_events o ++ events_of r outs'
      end
  end.

Definition dels (tr : list event) : list entry :=
  flat_map (fun e => match e with EDel x ds => [(x, ds)] | ERel _ => [] end) tr.
Definition rels (tr : list event) : list id :=
  flat_map (fun e => match e with EDel _ _ => [] | ERel x => [x] end) tr.

(** [grounded del x]: [x] was delivered with a dependency list all of whose members are
    themselves grounded (least fixed point) -- the items a causal orderer may, and must, release. *)
Inductive grounded (del : list entry) : id -> Prop :=
| G_intro x ds : In (x, ds) del -> (forall d, In d ds -> grounded del d) -> grounded del x.

(** two delivery histories that agree up to order, repetition of deliveries and up to the
    dependency lists being read as sets *)
Definition deliveries_le (del del' : list entry) : Prop :=
  forall x ds, In (x, ds) del -> exists ds', In (x, ds') del' /\ forall d, In d ds <-> In d ds'.
Definition same_deliveries (del del' : list entry) : Prop :=
  deliveries_le del del' /\ deliveries_le del' del.

Definition trace_of (perm : perm_t) (fuel : nat) (ops : list op) : list event :=
  events_of ops (snd (run perm fuel empty ops)).
Definition no_oof (perm : perm_t) (fuel : nat) (ops : list op) : Prop :=
  oof (fst (run perm fuel empty ops)) = false.
Definition dedup_op (o : op) : op :=
  match o with Deliver x ds => Deliver x (nodupN ds) | _ => o end.
