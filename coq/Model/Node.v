(** Node-level entry points into the processing pipeline, on top of Model/Ingest.v (C04).

    Every entry point of p2panda/src/streams/stream.rs builds the same event and hands it to the
    same pipeline:

      [process_operation] (sync stream, imported external stream, replay) and
      [process_published_operation] (local publish / prune) both call
      [pipeline.process(Event::new(operation, LogId::from_topic(topic), topic,
                                   operation.header.extensions.prune_flag()))]

    so one event through the pipeline is [Model.Ingest.deliver] with [o_log] = the log id of the
    *stream's* topic and [o_prune] = the prune flag found in the (not yet validated) header.  The
    entry points differ only in where the operation comes from:

    - [NImport o]      [StreamPublisher::import] / the sync stream: any operation, valid or not.
    - [NPublish ...]   [StreamPublisher::publish] / [prune]: [OperationForge::create_operation]
                       (p2panda/src/forge.rs) builds the next operation of the node's own log
                       (seq = latest + 1, backlink = stored hash of the latest entry), signs it and
                       inserts it into the store itself; then the event runs through the pipeline,
                       where ingest answers [AlreadyExists] and log-prune runs if the flag is set.
    - [NReplay l]      [Node::stream_from(topic, StreamFrom::Start)]: every operation stored for
                       the topic's log runs through the pipeline again.

    Modelled, not verified: the tokio plumbing (channels, task tracker: one event at a time, in
    order -- that part is C14's), acknowledgement bookkeeping, the order in which a replay
    visits the stored operations (store order is used here), [seq + 1] overflow inside the forge. *)
From Coq Require Import List Arith NArith Bool.
From PV Require Import Model.Ingest.
Import ListNotations.
Local Open Scope N_scope.

Inductive nstep :=
| NImport (o : op)
| NPublish (l : N) (prune body : bool) (id : N)
| NReplay (l : N).

Definition forge_op (me : N) (s : store) (l : N) (prune body : bool) (id : N) : op :=
  match latest s me l with
  | Some p => mkOp me l (r_seq p + 1) id id (Some (r_id p)) prune body true
  | None => mkOp me l 0 id id None prune body true
  end.

Definition op_of_row (r : row) : op :=
  mkOp (r_author r) (r_log r) (r_seq r) (r_id r) (r_hh r) (r_backlink r) (r_prune r) (r_body r) true.

Definition replay (s : store) (l : N) : store :=
  fold_left (fun st o => fst (deliver st o)) (map op_of_row (filter (fun r => r_log r =? l) s)) s.

Definition node_step (me : N) (s : store) (st : nstep) : store * bool :=
  match st with
  | NImport o => let '(s', r) := deliver s o in (s', res_ok r)
  | NPublish l prune body id =>
      let o := forge_op me s l prune body id in
      let '(s', r) := deliver (s ++ [row_of o]) o in (s', res_ok r)
  | NReplay l => (replay s l, true)
  end.

(** The pipeline before the C04 repair, for the regression witness. *)
Definition node_step_asis (me : N) (s : store) (st : nstep) : store * bool :=
  match st with
  | NImport o => let '(s', r) := deliver_asis_pipeline s o in (s', res_ok r)
  | _ => node_step me s st
  end.

(** A pipeline that drops the prune request only when the operation could not be authenticated
    ([validate_operation] failed) and keeps it for every other ingest failure -- the seeded change
    C04-1 as far as the model can express it ([o_valid] lumps signature, encoding and payload
    errors together, so here "every other failure" = the log-integrity errors).  Regression
    witness only. *)
Definition deliver_prune_unless_invalid (s : store) (o : op) : store * res :=
  let '(s1, r) := ingest s o in
  (if (match r with Rejected EInvalid => false | _ => true end) && o_prune o
   then prune_below s1 (o_author o) (o_log o) (o_seq o) else s1, r).

Fixpoint node_trace (me : N) (s : store) (sts : list nstep) : list (bool * store) :=
  match sts with
  | [] => []
  | st :: t => let '(s', ok) := node_step me s st in (ok, s') :: node_trace me s' t
  end.
