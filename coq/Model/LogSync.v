(** Model of the two-party log sync protocol, p2panda-sync/src/protocols/log_sync.rs
    ([State], [LogSync::run]), p2panda-core/src/logs.rs ([compare]) and the three [LogStore]
    queries it uses (p2panda-store/src/logs/sqlite/mod.rs).  Shared by C19, C20, C21.

    Definitions only (proofs: Proofs/LogSync*.v).

    Rust -> Gallina
    - a store is a [replica]: per (author, log) the rows [(seq, id, size)] that are present
      (ascending [seq]; a pruned log starts above 0, a deleted entry is a gap).  [id] stands for
      the operation hash, [size] for [header_size + payload_size].
    - [log_heights]  = [get_log_heights(author, log_ids)]: MAX(seq) per requested log that has
      rows, [None] when no requested log has rows.
    - [log_size]     = [get_log_size(author, log, after, until)]: COUNT and SUM(size) of the rows
      with [after < seq <= until] ([after = None]: from the start).
    - [log_entries]  = [get_log_entries(...)]: those rows in [seq] order (the Rust [None] for "no
      rows" is the empty list: the caller [continue]s).
    - [compare]      = [p2panda_core::logs::compare] (the [local_logs == remote_logs] shortcut is
      omitted: the per-log loop yields nothing in that case, so it is unobservable).
    - [st]/[phase]   = [State<L>] + the locals [sync_done_received], [sync_done_sent], [dedup] of
      [run]; [send_logs_len] is not stored: it always equals the number of authors not yet
      handed to the send arm, so [send_logs_len == 0] is "[rest = []]".
    - one [Tick r] = the code runs up to and including its next store call or its next
      [sink.send] (the store answers from the replica [r] *as it is at that moment*: a concurrent
      prune/delete/insert between two store calls is simply a different [r] in the next [Tick]);
      [Recv m] = [stream.next()] yielded [m]; [Closed] = it yielded [None].
    - the [select!] in [State::Sync]: [Recv] is the first arm (enabled iff
      [!sync_done_received]), a [Tick] with [cur = None] takes an author from [rest] (second arm)
      and the following [Tick]s run that arm to its end -- no [Recv] is possible meanwhile
      ([can_recv]).  [fixed = true] is the code after the repair "fix: log sync: do not enter the
      send arm after Done was sent" (arm precondition [!sync_done_sent]); [fixed = false] is the
      code as found (kept for the [_refuted] lemma).
    - transport: [sys] joins two machines by two FIFO queues with the blocking behaviour of
      [futures::mpsc::channel(c)] (see the section on [sys] below), or unbounded.

    Modelled, not verified: SQLite executes the three queries as written; CBOR decoding of
    received headers never fails for honest peers; the broadcast channel has a receiver; [u32]
    sums of sizes do not overflow; tokio's [select!] picks any ready enabled arm; the order of
    authors/logs in [BTreeMap]s is the order of the (ascending) lists used here. *)
From Coq Require Import List Arith NArith Bool.
From PV Require Import Model.Dedup.
Import ListNotations.

(** * Store *)
Record row := mkrow { r_seq : N; r_id : N; r_size : N }.
Definition replica := list ((N * N) * list row).
Definition range := (option N * option N)%type.

Definition keyb (k1 k2 : N * N) : bool := N.eqb (fst k1) (fst k2) && N.eqb (snd k1) (snd k2).

Fixpoint rows_of (r : replica) (k : N * N) : list row :=
  match r with
  | [] => []
  | (k', rs) :: t => if keyb k k' then rs else rows_of t k
  end.

Definition in_range (rg : range) (s : N) : bool :=
  (match fst rg with None => true | Some a => N.ltb a s end) &&
  (match snd rg with None => true | Some u => N.leb s u end).

Definition log_entries (r : replica) (a l : N) (rg : range) : list row :=
  filter (fun w => in_range rg (r_seq w)) (rows_of r (a, l)).

Definition sum_sizes (ws : list row) : N := fold_right N.add 0%N (map r_size ws).

Definition log_size (r : replica) (a l : N) (rg : range) : N * N :=
  let es := log_entries r a l rg in (N.of_nat (length es), sum_sizes es).

Fixpoint maxseq (ws : list row) : option N :=
  match ws with
  | [] => None
  | w :: t => match maxseq t with None => Some (r_seq w) | Some m => Some (N.max (r_seq w) m) end
  end.

Definition heights_of_logs (r : replica) (a : N) (ls : list N) : list (N * N) :=
  flat_map (fun l => match maxseq (rows_of r (a, l)) with None => [] | Some h => [(l, h)] end) ls.

Definition log_heights (r : replica) (a : N) (ls : list N) : option (list (N * N)) :=
  match heights_of_logs r a ls with [] => None | hs => Some hs end.

(** * Heights and [compare] *)
Definition heights := list (N * list (N * N)).
Definition needs_t := list (N * list (N * range)).

Fixpoint lookupN {V} (k : N) (m : list (N * V)) : option V :=
  match m with
  | [] => None
  | (k', v) :: t => if N.eqb k k' then Some v else lookupN k t
  end.

Definition needs_of_log (rlogs : list (N * N)) (lh : N * N) : list (N * range) :=
  match lookupN (fst lh) rlogs with
  | None => [(fst lh, (None, Some (snd lh)))]
  | Some rh => if N.ltb rh (snd lh) then [(fst lh, (Some rh, Some (snd lh)))] else []
  end.

Definition needs_of_author (remote : heights) (al : N * list (N * N)) : needs_t :=
  match lookupN (fst al) remote with
  | None => [(fst al, map (fun lh => (fst lh, (None, Some (snd lh)))) (snd al))]
  | Some rlogs =>
      match flat_map (needs_of_log rlogs) (snd al) with
      | [] => []
      | ns => [(fst al, ns)]
      end
  end.

Definition compare (local remote : heights) : needs_t := flat_map (needs_of_author remote) local.

Definition flat_needs (n : needs_t) : list (N * N * range) :=
  flat_map (fun alr => map (fun lr => (fst alr, fst lr, snd lr)) (snd alr)) n.

(** * Messages, events, machine state *)
Inductive msg :=
| Have (h : heights)
| PreSync (ops bytes : N)
| Operation (a l : N) (w : row)
| Done.

Inductive err := UnexpectedStreamClosure | UnexpectedMessage.
Inductive event := EvMetrics (oo ob io ib : N) | EvOp (a l : N) (w : row).
Inductive output := Send (m : msg) | Event (e : event) | Fail (e : err).
Inductive input := Tick (r : replica) | Recv (m : msg) | Closed.

Inductive phase :=
| PStart (logs : list (N * list N))
| PSendHave (todo : list (N * list N)) (acc : heights)
| PReceiveHave (local : heights)
| PSendPreSync (needs : needs_t) (todo : list (N * N * range)) (ops bytes : N)
| PReceivePreSyncOrDone (needs : needs_t) (ops bytes : N)
| PSync (rest : needs_t) (cur : option (N * list (N * range)))
| PEnd
| PFailed.

Record st := mkst { ph : phase; done_recv : bool; done_sent : bool; dd : buf }.

Definition init (logs : list (N * list N)) (cap : nat) : st := mkst (PStart logs) false false (new cap).
Definition set_ph (s : st) (p : phase) : st := mkst p (done_recv s) (done_sent s) (dd s).
Definition failed (s : st) : st := set_ph s PFailed.

Definition op_msgs (a l : N) (ws : list row) : list output := map (fun w => Send (Operation a l w)) ws.
Definition dd_insert_all (d : buf) (ws : list row) : buf := fold_left (fun d w => fst (insert d (r_id w))) ws d.

(** Is the send arm of the [select!] enabled? *)
Definition arm_on (fixed : bool) (s : st) (rest : needs_t) : bool :=
  match rest with [] => false | _ => negb (fixed && done_sent s) end.

Definition tick (fixed : bool) (r : replica) (s : st) : st * list output :=
  match ph s with
  | PStart logs => (set_ph s (PSendHave logs []), [])
  | PSendHave [] acc => (set_ph s (PReceiveHave acc), [Send (Have acc)])
  | PSendHave (al :: todo) acc =>
      (set_ph s (PSendHave todo (match log_heights r (fst al) (snd al) with
                                 | None => acc
                                 | Some h => acc ++ [(fst al, h)]
                                 end)), [])
  | PSendPreSync needs [] ops bytes =>
      if N.ltb 0 bytes
      then (set_ph s (PReceivePreSyncOrDone needs ops bytes), [Send (PreSync ops bytes)])
      else (mkst (PReceivePreSyncOrDone needs ops bytes) (done_recv s) true (dd s), [Send Done])
  | PSendPreSync needs (alr :: todo) ops bytes =>
      let ob := log_size r (fst (fst alr)) (snd (fst alr)) (snd alr) in
      (set_ph s (PSendPreSync needs todo (ops + fst ob) (bytes + snd ob)), [])
  | PSync rest None =>
      if arm_on fixed s rest
      then match rest with
           | alr :: rest' => (set_ph s (PSync rest' (Some alr)), [])
           | [] => (s, [])
           end
      else if done_recv s && done_sent s then (set_ph s PEnd, []) else (s, [])
  | PSync rest (Some (a, lr :: more)) =>
      let ws := log_entries r a (fst lr) (snd lr) in
      (mkst (PSync rest (Some (a, more))) (done_recv s) (done_sent s) (dd_insert_all (dd s) ws),
       op_msgs a (fst lr) ws)
  | PSync rest (Some (a, [])) =>
      match rest with
      | [] => (mkst (PSync rest None) (done_recv s) true (dd s), [Send Done])
      | _ => (set_ph s (PSync rest None), [])
      end
  | _ => (s, [])
  end.

Definition recv (s : st) (m : msg) : st * list output :=
  match ph s with
  | PReceiveHave local =>
      match m with
      | Have h => let needs := compare local h in
                  (set_ph s (PSendPreSync needs (flat_needs needs) 0 0), [])
      | _ => (failed s, [Fail UnexpectedMessage])
      end
  | PReceivePreSyncOrDone needs ops bytes =>
      match m with
      | PreSync io ib => (set_ph s (PSync needs None), [Event (EvMetrics ops bytes io ib)])
      | Done => (mkst (PSync needs None) true (done_sent s) (dd s), [Event (EvMetrics ops bytes 0 0)])
      | _ => (failed s, [Fail UnexpectedMessage])
      end
  | PSync rest None =>
      if done_recv s then (s, [])
      else match m with
           | Operation a l w =>
               let dr := insert (dd s) (r_id w) in
               (mkst (ph s) (done_recv s) (done_sent s) (fst dr),
                if snd dr then [Event (EvOp a l w)] else [])
           | Done => (mkst (ph s) true (done_sent s) (dd s), [])
           | _ => (failed s, [Fail UnexpectedMessage])
           end
  | _ => (s, [])
  end.

Definition closed (s : st) : st * list output :=
  match ph s with
  | PReceiveHave _ | PReceivePreSyncOrDone _ _ _ => (failed s, [Fail UnexpectedStreamClosure])
  | _ => (s, [])
  end.

Definition step (fixed : bool) (s : st) (i : input) : st * list output :=
  match i with
  | Tick r => tick fixed r s
  | Recv m => recv s m
  | Closed => closed s
  end.

Fixpoint run (fixed : bool) (s : st) (ins : list input) : st * list output :=
  match ins with
  | [] => (s, [])
  | i :: t => let so := step fixed s i in
              let so' := run fixed (fst so) t in
              (fst so', snd so ++ snd so')
  end.

(** Which inputs the code can take in a state. *)
Definition can_recv (s : st) : bool :=
  match ph s with
  | PReceiveHave _ | PReceivePreSyncOrDone _ _ _ => true
  | PSync _ None => negb (done_recv s)
  | _ => false
  end.

Definition tick_enabled (fixed : bool) (s : st) : bool :=
  match ph s with
  | PStart _ | PSendHave _ _ | PSendPreSync _ _ _ _ => true
  | PSync rest None => arm_on fixed s rest || (done_recv s && done_sent s)
  | PSync _ (Some _) => true
  | _ => false
  end.

Definition is_store_call (s : st) : bool :=
  match ph s with
  | PSendHave (_ :: _) _ | PSendPreSync _ (_ :: _) _ _ | PSync _ (Some (_, _ :: _)) => true
  | _ => false
  end.

Fixpoint sent (outs : list output) : list msg :=
  match outs with
  | [] => []
  | Send m :: t => m :: sent t
  | _ :: t => sent t
  end.

Fixpoint ev_ops (outs : list output) : list (N * N * row) :=
  match outs with
  | [] => []
  | Event (EvOp a l w) :: t => (a, l, w) :: ev_ops t
  | _ :: t => ev_ops t
  end.

Fixpoint ops_of (ms : list msg) : list (N * N * row) :=
  match ms with
  | [] => []
  | Operation a l w :: t => (a, l, w) :: ops_of t
  | _ :: t => ops_of t
  end.

(** * The message grammar of one side (C20): Have . (Done | PreSync . Operation* . Done) *)
Inductive gst := G0 | G1 | G2 | G3 | GBad.
Definition gstep (g : gst) (m : msg) : gst :=
  match g, m with
  | G0, Have _ => G1
  | G1, Done => G3
  | G1, PreSync _ _ => G2
  | G2, Operation _ _ _ => G2
  | G2, Done => G3
  | _, _ => GBad
  end.
Definition gram (ms : list msg) : gst := fold_left gstep ms G0.

(** * What one side sends, as a function of its own replica and the peer's Have (C19) *)
Definition local_heights (r : replica) (logs : list (N * list N)) : heights :=
  flat_map (fun al => match log_heights r (fst al) (snd al) with None => [] | Some h => [(fst al, h)] end) logs.

Definition total_size (r : replica) (todo : list (N * N * range)) : N * N :=
  fold_left (fun ob alr => let x := log_size r (fst (fst alr)) (snd (fst alr)) (snd alr) in
                           (fst ob + fst x, snd ob + snd x)%N) todo (0%N, 0%N).

Definition range_ops (r : replica) (alr : N * N * range) : list msg :=
  map (fun w => Operation (fst (fst alr)) (snd (fst alr)) w)
      (log_entries r (fst (fst alr)) (snd (fst alr)) (snd alr)).

Definition script (r : replica) (logs : list (N * list N)) (remote : heights) : list msg :=
  let local := local_heights r logs in
  let todo := flat_needs (compare local remote) in
  let ob := total_size r todo in
  Have local ::
  (if N.ltb 0 (snd ob) then PreSync (fst ob) (snd ob) :: flat_map (range_ops r) todo ++ [Done]
   else [Done]).

(** * Specification: which operations the peer (who announced [h]) is missing *)
Definition lookup2 (h : heights) (a l : N) : option N :=
  match lookupN a h with None => None | Some ls => lookupN l ls end.

Definition above (rh : option N) (s : N) : bool :=
  match rh with None => true | Some x => N.ltb x s end.

(** The rows of log [(a, l)] the peer (who announced [h]) is missing. *)
Definition missing_rows (r : replica) (h : heights) (a l : N) : list row :=
  filter (fun w => above (lookup2 h a l) (r_seq w)) (rows_of r (a, l)).

Definition expected_ops (r : replica) (logs : list (N * list N)) (h : heights) : list (N * N * row) :=
  flat_map (fun al => flat_map (fun l => map (fun w => (fst al, l, w)) (missing_rows r h (fst al) l)) (snd al)) logs.

Definition omax (x y : option N) : option N :=
  match x, y with
  | None, _ => y
  | _, None => x
  | Some a, Some b => Some (N.max a b)
  end.


(** Ingest of received operations into a replica (modelled: the ingest pipeline accepts them and
    [insert_operation] adds the row to its log). *)
Fixpoint add_row (r : replica) (k : N * N) (w : row) : replica :=
  match r with
  | [] => [(k, [w])]
  | (k', rs) :: t => if keyb k k' then (k', rs ++ [w]) :: t else (k', rs) :: add_row t k w
  end.

Definition ingest (r : replica) (ops : list (N * N * row)) : replica :=
  fold_left (fun r x => add_row r (fst x) (snd x)) ops r.

Definition height (r : replica) (a l : N) : option N := maxseq (rows_of r (a, l)).

(** * Two machines joined by two FIFO queues

    Transport = [futures::mpsc::channel(c)] with one sender per direction ([cbuf = Some c]) or an
    unbounded queue ([cbuf = None]).  [SinkExt::send] is [poll_ready; start_send; poll_flush]:
    [start_send] enqueues and *parks* the sender when the queue then holds more than [c]
    messages; [poll_ready] and [poll_flush] wait until the sender is unparked, which the receiver
    does whenever it dequeues a message.  So a node that produced messages holds them in
    [n_pend]; it can push the next one only while not parked, and can neither tick nor read until
    [n_pend] is empty *and* it is not parked (the [send().await] it is in has not returned). *)
Record node := mknode { n_st : st; n_pend : list msg; n_parked : bool; n_hist : list output; n_cons : list msg }.
Record sys := mksys { sa : node; sb : node; qab : list msg; qba : list msg }.
Inductive label := LTickA | LTickB | LPushA | LPushB | LDelivA | LDelivB.

Definition parks (cbuf : option nat) (q : list msg) : bool :=
  match cbuf with None => false | Some c => Nat.ltb c (length q) end.

Definition node_tick (fixed : bool) (r : replica) (n : node) : option node :=
  match n_pend n, n_parked n with
  | [], false => if tick_enabled fixed (n_st n)
                 then let so := tick fixed r (n_st n) in
                      Some (mknode (fst so) (sent (snd so)) false (n_hist n ++ snd so) (n_cons n))
                 else None
  | _, _ => None
  end.

Definition node_recv (n : node) (q : list msg) : option (node * list msg) :=
  match n_pend n, n_parked n, q with
  | [], false, m :: q' => if can_recv (n_st n)
                          then let so := recv (n_st n) m in
                               Some (mknode (fst so) [] false (n_hist n ++ snd so) (n_cons n ++ [m]), q')
                          else None
  | _, _, _ => None
  end.

Definition node_push (cbuf : option nat) (n : node) (q : list msg) : option (node * list msg) :=
  match n_pend n, n_parked n with
  | m :: p, false => Some (mknode (n_st n) p (parks cbuf (q ++ [m])) (n_hist n) (n_cons n), q ++ [m])
  | _, _ => None
  end.

Definition unpark (n : node) : node := mknode (n_st n) (n_pend n) false (n_hist n) (n_cons n).

Definition sys_step (fixed : bool) (cbuf : option nat) (ra rb : replica) (y : sys) (l : label) : option sys :=
  match l with
  | LTickA => option_map (fun n => mksys n (sb y) (qab y) (qba y)) (node_tick fixed ra (sa y))
  | LTickB => option_map (fun n => mksys (sa y) n (qab y) (qba y)) (node_tick fixed rb (sb y))
  | LPushA => option_map (fun nq => mksys (fst nq) (sb y) (snd nq) (qba y)) (node_push cbuf (sa y) (qab y))
  | LPushB => option_map (fun nq => mksys (sa y) (fst nq) (qab y) (snd nq)) (node_push cbuf (sb y) (qba y))
  | LDelivA => option_map (fun nq => mksys (fst nq) (unpark (sb y)) (qab y) (snd nq)) (node_recv (sa y) (qba y))
  | LDelivB => option_map (fun nq => mksys (unpark (sa y)) (fst nq) (snd nq) (qba y)) (node_recv (sb y) (qab y))
  end.

Fixpoint exec (fixed : bool) (cbuf : option nat) (ra rb : replica) (y : sys) (ls : list label) : option sys :=
  match ls with
  | [] => Some y
  | l :: t => match sys_step fixed cbuf ra rb y l with
              | Some y' => exec fixed cbuf ra rb y' t
              | None => None
              end
  end.

Definition node0 (logs : list (N * list N)) (cap : nat) : node := mknode (init logs cap) [] false [] [].
Definition sys0 (la lb : list (N * list N)) (cap : nat) : sys := mksys (node0 la cap) (node0 lb cap) [] [].

Definition all_labels : list label := [LTickA; LTickB; LPushA; LPushB; LDelivA; LDelivB].

Definition is_end (n : node) : bool :=
  match ph (n_st n), n_pend n, n_parked n with PEnd, [], false => true | _, _, _ => false end.

Definition finished (y : sys) : bool := is_end (sa y) && is_end (sb y).

Definition enabled (fixed : bool) (cbuf : option nat) (ra rb : replica) (y : sys) (l : label) : bool :=
  match sys_step fixed cbuf ra rb y l with Some _ => true | None => false end.

(** A state in which nothing can happen although the session is not over. *)
Definition deadlocked (fixed : bool) (cbuf : option nat) (ra rb : replica) (y : sys) : bool :=
  negb (finished y) && forallb (fun l => negb (enabled fixed cbuf ra rb y l)) all_labels.

(** Deterministic schedulers used by the correspondence runs: take the first enabled label of a
    priority list until nothing is enabled. *)
Fixpoint first_enabled (fixed : bool) (cbuf : option nat) (ra rb : replica) (y : sys) (prio : list label) : option sys :=
  match prio with
  | [] => None
  | l :: t => match sys_step fixed cbuf ra rb y l with
              | Some y' => Some y'
              | None => first_enabled fixed cbuf ra rb y t
              end
  end.

Fixpoint sim (fuel : nat) (fixed : bool) (cbuf : option nat) (ra rb : replica) (prio : list label) (y : sys) : sys :=
  match fuel with
  | O => y
  | S f => match first_enabled fixed cbuf ra rb y prio with
           | Some y' => sim f fixed cbuf ra rb prio y'
           | None => y
           end
  end.

(** * Driver for a single side with scripted store changes and a scripted peer (C20)

    [sched] lists [(k, r)]: from store call number [k] on (0-based, counted over the three
    queries in the order the code issues them) the store holds [r].  Ticks go first, the peer's
    messages are read whenever the code is waiting for one. *)
Fixpoint replica_at (sched : list (nat * replica)) (r0 : replica) (k : nat) : replica :=
  match sched with
  | [] => r0
  | (k', r) :: t => if Nat.leb k' k then replica_at t r k else r0
  end.

Fixpoint drive (fuel : nat) (fixed : bool) (r0 : replica) (sched : list (nat * replica))
         (s : st) (k : nat) (incoming : list msg) : st * list output * nat :=
  match fuel with
  | O => (s, [], k)
  | S f =>
      if tick_enabled fixed s then
        let so := tick fixed (replica_at sched r0 k) s in
        let k' := if is_store_call s then S k else k in
        let so' := drive f fixed r0 sched (fst so) k' incoming in
        (fst (fst so'), snd so ++ snd (fst so'), snd so')
      else if can_recv s then
        match incoming with
        | m :: inc' => let so := recv s m in
                       let so' := drive f fixed r0 sched (fst so) k inc' in
                       (fst (fst so'), snd so ++ snd (fst so'), snd so')
        | [] => (s, [], k)
        end
      else (s, [], k)
  end.
