(** Model of p2panda-encryption/src/data_scheme/group_secret.rs ([SecretBundle]).

    A group secret is modelled by what the bundle logic looks at: its id (SHA-256 of the key
    bytes, a 32-byte array compared lexicographically = big-endian number, an [N]) and its
    timestamp (u64, an [N]).  [secrets : HashMap<GroupSecretId, GroupSecret>] is an association
    list with at most one entry per id.

    - [find_latest]  = the free function [find_latest]: a fold over the map *in the map's
      iteration order*.  A [HashMap] iterates in an order the code does not control, so the state
      operations take the iteration order as a parameter [order] (any function that returns the
      same entries, see [Proofs/SecretBundle.v]); theorems quantify over all of them.
    - [insert] / [remove] / [extend] / [from_secrets] = the functions of the same name;
      [HashMap::insert] *replaces* the value of an existing key.
    - [generate_ts] = the timestamp computed by [SecretBundle::generate] from the clock reading
      [now] (an explicit input); [None] = the u64 addition [latest_timestamp + 1] overflows (a
      panic in a debug build; it would wrap to 0 in a release build).

    Modelled, not verified: SHA-256 (ids are given), the random key bytes, [HashMap] semantics,
    the system clock ([now] is arbitrary). *)
From Coq Require Import List NArith Bool.
Import ListNotations.
Local Open Scope N_scope.

Definition U64MAX : N := 18446744073709551615.

(** (id, timestamp) *)
Definition secret : Type := N * N.
Definition sid (s : secret) : N := fst s.
Definition sts (s : secret) : N := snd s.

(** One iteration of the loop in [find_latest]; the accumulator is
    [(latest_timestamp, latest_secret_id)]. *)
Definition fl_step (acc : N * option N) (s : secret) : N * option N :=
  let '(lt, lid) := acc in
  let cur := match lid with Some i => i | None => 0 end in   (* unwrap_or([0; 32]) *)
  if (lt <? sts s) || ((lt =? sts s) && (cur <? sid s)) then (sts s, Some (sid s)) else acc.

Definition find_latest (l : list secret) : option N := snd (fold_left fl_step l (0, None)).

Definition remove_id (m : list secret) (i : N) : list secret :=
  filter (fun e => negb (sid e =? i)) m.

Fixpoint lookup (m : list secret) (i : N) : option secret :=
  match m with
  | [] => None
  | e :: r => if sid e =? i then Some e else lookup r i
  end.

(** [HashMap::insert(secret.id(), secret)]: replaces an existing entry with the same id. *)
Definition map_insert (m : list secret) (s : secret) : list secret := s :: remove_id m (sid s).

Record state := { secrets : list secret; latest : option N }.

Section Ops.
  (** Iteration order of the hash map. *)
  Variable order : list secret -> list secret.

  Definition mk (m : list secret) : state := {| secrets := m; latest := find_latest (order m) |}.

  Definition init : state := {| secrets := []; latest := None |}.
  Definition insert (y : state) (s : secret) : state := mk (map_insert (secrets y) s).
  Definition remove (y : state) (i : N) : state * option secret :=
    (mk (remove_id (secrets y) i), lookup (secrets y) i).
  (** [y.secrets.extend(other.secrets)] inserts other's entries in other's iteration order. *)
  Definition extend (y other : state) : state :=
    mk (fold_left map_insert (order (secrets other)) (secrets y)).
  Definition from_secrets (l : list secret) : state := mk (fold_left map_insert l []).

  (** [SecretBundleState::latest()] then [.timestamp()], [unwrap_or(0)]. *)
  Definition latest_ts (y : state) : N :=
    match latest y with
    | None => 0
    | Some i => match lookup (secrets y) i with Some s => sts s | None => 0 end
    end.

  (** Timestamp of the secret returned by [SecretBundle::generate(y, rng)] when the clock reads
      [now]. *)
  Definition generate_ts (y : state) (now : N) : option N :=
    let lt := latest_ts y in
    if now <=? lt then (if lt =? U64MAX then None else Some (lt + 1)) else Some now.

  (** Bundles built from secrets by insertions and merges in any shape. *)
  Inductive bexp :=
  | BInit
  | BFrom (l : list secret)
  | BIns (b : bexp) (s : secret)
  | BExt (a b : bexp).

  Fixpoint eval (e : bexp) : state :=
    match e with
    | BInit => init
    | BFrom l => from_secrets l
    | BIns b s => insert (eval b) s
    | BExt a b => extend (eval a) (eval b)
    end.

  Fixpoint leaves (e : bexp) : list secret :=
    match e with
    | BInit => []
    | BFrom l => l
    | BIns b s => leaves b ++ [s]
    | BExt a b => leaves a ++ leaves b
    end.
End Ops.

(** Lexicographic order on (timestamp, id). *)
Definition lex_le (a b : secret) : Prop := sts a < sts b \/ (sts a = sts b /\ sid a <= sid b).
Definition lex_lt (a b : secret) : Prop := sts a < sts b \/ (sts a = sts b /\ sid a < sid b).

(** One timestamp per id (a *set* of secrets: the timestamp is part of the secret). *)
Definition consistent (l : list secret) : Prop :=
  forall a b, In a l -> In b l -> sid a = sid b -> a = b.
