(** Model of p2panda-encryption/src/key_registry.rs with the clock as an explicit input.

    - [life_ok]  = [Lifetime::verify] (key_bundle/lifetime.rs): [not_before < now && now <
      not_after], both ends strict, seconds;
    - [verify]   = [KeyBundle::verify] (key_bundle/key_bundle.rs): lifetime first, then the
      XEdDSA signature of the pre-key under the identity key ([sig_ok], abstract);
    - [add_onetime] / [add_longterm] = [KeyRegistry::add_*_bundle]: verify FIRST (also when the
      very same bundle is already stored), then push to the member's [Vec]; the long-term path
      does not push a bundle that is already in the member's [Vec] ([bundles.contains], derived
      [PartialEq] = [bundle_eqb]) — registering the same, still valid, bundle twice is accepted
      and leaves the registry as it was; the one-time path pushes a duplicate;
    - [get_onetime] = [PreKeyRegistry<_, OneTimeKeyBundle>::key_bundle] *as repaired* (pop until
      a bundle verifies); [get_onetime_asis] is the code before the repair (plain [pop]);
    - [get_longterm] = [PreKeyRegistry<_, LongTermKeyBundle>::key_bundle] with
      [latest_key_bundle] *as repaired* (every stored bundle is re-verified — lifetime and
      signature — when looked up; furthest [not_after] wins, the first one on ties);
      [get_longterm_asis] is the code before that repair (only the lifetime re-checked);
    - [SetOT] / [SetLT] = a member's [Vec] replaced by an ARBITRARY list: registry state restored
      from its serde representation (persistence) — nothing is verified on that path; the
      getters are defined over arbitrary stored lists, not only over lists produced by [add_*];
    - [Count] = number of stored bundles of a member (read off the serialised state);
    - [remove_expired] = [KeyRegistry::remove_expired].

    A member's [Vec] is kept newest-first ([push] = cons, [pop] = head); [latest_key_bundle]
    walks the [Vec] oldest-first, i.e. over [rev].

    Modelled, not verified: XEdDSA ([sig_ok] is a field of the modelled bundle: whether the
    signature verifies under the bundle's identity key); the [identities] map and its
    [assert_eq!] sanity check (the harness uses one identity key per member); HashMap/Vec. *)
From Coq Require Import List NArith Bool.
Import ListNotations.
Local Open Scope N_scope.

Record bundle := { nb : N; na : N; sig_ok : bool; tag : N }.

Definition life_ok (t : N) (b : bundle) : bool := (nb b <? t) && (t <? na b).
Definition valid_at (t : N) (b : bundle) : bool := life_ok t b && sig_ok b.

Inductive verr := ELifetime | ESig.
Definition verify (t : N) (b : bundle) : option verr :=
  if life_ok t b then (if sig_ok b then None else Some ESig) else Some ELifetime.

Definition amap := list (N * list bundle).

Fixpoint lookup (m : amap) (i : N) : option (list bundle) :=
  match m with
  | [] => None
  | (k, v) :: r => if k =? i then Some v else lookup r i
  end.

Fixpoint update (m : amap) (i : N) (v : list bundle) : amap :=
  match m with
  | [] => [(i, v)]
  | (k, w) :: r => if k =? i then (k, v) :: r else (k, w) :: update r i v
  end.

Record reg := { onetime : amap; longterm : amap }.
Definition init : reg := {| onetime := []; longterm := [] |}.

Definition bundle_eqb (a b : bundle) : bool :=
  (nb a =? nb b) && (na a =? na b) && Bool.eqb (sig_ok a) (sig_ok b) && (tag a =? tag b).
Definition contains (l : list bundle) (b : bundle) : bool := existsb (bundle_eqb b) l.
Definition stored (m : amap) (i : N) : list bundle :=
  match lookup m i with Some l => l | None => [] end.

Definition push (m : amap) (i : N) (b : bundle) : amap :=
  update m i (b :: match lookup m i with Some l => l | None => [] end).

Inductive out :=
| Accepted
| Rejected (e : verr)
| Got (b : option bundle)
| Expired            (* KeyRegistryError::KeyBundlesExpired *)
| Cnt (ot lt : N)
| Done.

Definition add_onetime (t : N) (y : reg) (i : N) (b : bundle) : reg * out :=
  match verify t b with
  | Some e => (y, Rejected e)
  | None => ({| onetime := push (onetime y) i b; longterm := longterm y |}, Accepted)
  end.

(** [verify()?] comes first; a bundle that is already registered is not pushed again. *)
Definition add_longterm (t : N) (y : reg) (i : N) (b : bundle) : reg * out :=
  match verify t b with
  | Some e => (y, Rejected e)
  | None =>
      if contains (stored (longterm y) i) b then (y, Accepted)
      else ({| onetime := onetime y; longterm := push (longterm y) i b |}, Accepted)
  end.

(** Repaired: pop until a bundle that verifies *now* is found; the skipped ones are dropped. *)
Fixpoint pop_valid (t : N) (l : list bundle) : list bundle * option bundle :=
  match l with
  | [] => ([], None)
  | b :: r => if valid_at t b then (r, Some b) else pop_valid t r
  end.

Definition get_onetime (t : N) (y : reg) (i : N) : reg * out :=
  match lookup (onetime y) i with
  | None => (y, Got None)
  | Some l =>
      let '(l', r) := pop_valid t l in
      ({| onetime := update (onetime y) i l'; longterm := longterm y |}, Got r)
  end.

(** Before the repair: [bundles.pop()] without looking at the clock. *)
Definition get_onetime_asis (t : N) (y : reg) (i : N) : reg * out :=
  match lookup (onetime y) i with
  | None => (y, Got None)
  | Some [] => (y, Got None)
  | Some (b :: r) => ({| onetime := update (onetime y) i r; longterm := longterm y |}, Got (Some b))
  end.

(** [latest_key_bundle] over the Vec in push order; [ok] = the per-bundle filter
    ([bundle.verify()] as repaired, [bundle.lifetime().verify()] before). *)
Definition lkb_step_gen (ok : bundle -> bool) (acc : option bundle) (b : bundle) : option bundle :=
  if ok b then
    match acc with
    | None => Some b
    | Some c => if na c <? na b then Some b else acc
    end
  else acc.
Definition lkb_step (t : N) := lkb_step_gen (valid_at t).
Definition latest_key_bundle (t : N) (vec : list bundle) : option bundle :=
  fold_left (lkb_step t) vec None.
Definition latest_key_bundle_asis (t : N) (vec : list bundle) : option bundle :=
  fold_left (lkb_step_gen (life_ok t)) vec None.

Definition get_longterm_gen (lkb : N -> list bundle -> option bundle) (t : N) (y : reg) (i : N) : reg * out :=
  match lookup (longterm y) i with
  | None => (y, Got None)
  | Some l =>
      match lkb t (rev l) with
      | None => (y, match l with [] => Got None | _ => Expired end)
      | Some b => (y, Got (Some b))
      end
  end.
Definition get_longterm := get_longterm_gen latest_key_bundle.
(** Before the repair: the signature of a stored bundle is not looked at again. *)
Definition get_longterm_asis := get_longterm_gen latest_key_bundle_asis.

(** Registry state restored from persistence: member [i]'s Vec becomes [l], unverified. *)
Definition set_onetime (y : reg) (i : N) (l : list bundle) : reg * out :=
  ({| onetime := update (onetime y) i l; longterm := longterm y |}, Done).
Definition set_longterm (y : reg) (i : N) (l : list bundle) : reg * out :=
  ({| onetime := onetime y; longterm := update (longterm y) i l |}, Done).
Definition count (y : reg) (i : N) : reg * out :=
  (y, Cnt (N.of_nat (List.length (stored (onetime y) i))) (N.of_nat (List.length (stored (longterm y) i)))).

Definition remove_expired (t : N) (y : reg) : reg * out :=
  let f := map (fun kv : N * list bundle => (fst kv, filter (valid_at t) (snd kv))) in
  ({| onetime := f (onetime y); longterm := f (longterm y) |}, Done).

(** Operations, each with the clock reading at the moment it runs (no monotonicity assumed). *)
Inductive op :=
| AddOT (t i : N) (b : bundle)
| AddLT (t i : N) (b : bundle)
| GetOT (t i : N)
| GetLT (t i : N)
| RemoveExpired (t : N)
| SetOT (t i : N) (l : list bundle)
| SetLT (t i : N) (l : list bundle)
| Count (t i : N).

Definition step (get_ot : N -> reg -> N -> reg * out) (y : reg) (o : op) : reg * out :=
  match o with
  | AddOT t i b => add_onetime t y i b
  | AddLT t i b => add_longterm t y i b
  | GetOT t i => get_ot t y i
  | GetLT t i => get_longterm t y i
  | RemoveExpired t => remove_expired t y
  | SetOT _ i l => set_onetime y i l
  | SetLT _ i l => set_longterm y i l
  | Count _ i => count y i
  end.

Fixpoint run (get_ot : N -> reg -> N -> reg * out) (y : reg) (ops : list op) : reg * list out :=
  match ops with
  | [] => (y, [])
  | o :: r =>
      let '(y1, x) := step get_ot y o in
      let '(y2, xs) := run get_ot y1 r in
      (y2, x :: xs)
  end.

(** What C38 demands of one answer. *)
Definition answer_ok (o : op) (x : out) : Prop :=
  match o, x with
  | AddOT t _ b, Accepted | AddLT t _ b, Accepted => valid_at t b = true
  | GetOT t _, Got (Some b) | GetLT t _, Got (Some b) => valid_at t b = true
  | _, _ => True
  end.
