(** Model of one topic sync session: p2panda-sync/src/protocols/topic_log_sync.rs
    [TopicLogSync::run] (lines 115-347) around an abstract model of the control flow of
    p2panda-sync/src/protocols/log_sync.rs [LogSync::run] (the sync phase).  The code modelled is
    the tree *after* the two repairs of this property:
      - log_sync.rs: a stream that ends inside the [Sync] loop is an [UnexpectedStreamClosure]
        error (before: the select branch was merely disabled and the loop spun forever);
      - topic_log_sync.rs: a failing [sink.close()] no longer returns before the terminal event.

    What is abstracted: log heights, diffs and byte metrics.  The local side's data is the list
    [sends] (one entry per author of [remote_needs], each the ids of the operations sent for that
    author); operations are ids ([N]); whether an operation is new is decided by the session's
    real de-duplication buffer (Model/Dedup.v, capacity [cap]).

    Inputs of a run (all universally quantified in the theorems):
      [ins]      everything that arrives, in arrival order: stream items ([InS]: a wire message
                 or a stream error) and live-channel messages ([InL]); the stream is closed after
                 the last input.  Live-channel messages arriving during the sync phase are queued
                 and handled first when live mode starts (biased select).
      [fail_at], [sticky]   the sink operation (start_send / flush / close, numbered from 0) that
                 fails; [sticky]: every later operation fails too (broken connection).
      [sched]    which branch of the (unbiased) [select!] in the Sync loop is polled first in
                 each iteration.

    Rust statement -> model:
      [sink.send(m)]  = [send]: start_send (records the message) then flush, two sink operations
      [sink.close()]  = [close]: one sink operation
      [event_tx.send(e)] = [emit] (a broadcast receiver exists: modelled, not verified)
      LogSync states SendHave / ReceiveHave / SendPreSync / ReceivePreSyncOrDone = [sync_pre],
      Sync = [sync_loop] (fuel = inputs + groups + 2; proved sufficient), error mapping of
      [sync_channels] (Live/Close during sync => MessageStream) = [classify].

    Modelled, not verified: the store never fails ([resolve], [get_log_heights], [get_log_size],
    [get_log_entries]); the broadcast channel has a receiver; the remote never stays silent
    forever (every run ends with stream closure at the latest); [SessionStarted] is never emitted
    anywhere in the crate (grep) — it is in the event alphabet only to state the property. *)
From Coq Require Import List Arith NArith Bool.
From PV Require Import Model.Dedup.
Import ListNotations.

Inductive smsg := MHave | MPreSync | MDone | MOp (id : N) | MOpBad.
Inductive wire := WSync (m : smsg) | WLive (id : N) | WClose.
Inductive sitem := SMsg (w : wire) | SErr.
Inductive linput := LPayload (id : N) | LClose.
Inductive input := InS (i : sitem) | InL (l : linput).

Inductive event :=
| ESessionStarted | ESyncStarted | EOp (id : N) | ESyncFinished | ELiveStarted | ESessionFinished | EFailed.

Inductive errk :=
| SyncClosure | SyncStream | SyncSink | SyncUnexpected | SyncDecode
| LiveUnexpected | ChanSink | LiveClosure | LiveDecode.

Inductive result := ROk | RErr (e : errk) | RDiverge.

(** ** Sink *)
Record sink := { ops : nat; fail_at : option nat; sticky : bool; out : list wire }.

Definition op_ok (s : sink) : bool :=
  match fail_at s with
  | None => true
  | Some k => if sticky s then Nat.ltb (ops s) k else negb (Nat.eqb (ops s) k)
  end.

Definition tick (s : sink) : sink :=
  {| ops := S (ops s); fail_at := fail_at s; sticky := sticky s; out := out s |}.

Definition record (s : sink) (w : wire) : sink :=
  {| ops := ops s; fail_at := fail_at s; sticky := sticky s; out := out s ++ [w] |}.

(** [SinkExt::send]: start_send, then flush (not attempted when start_send failed). *)
Definition send (s : sink) (w : wire) : bool * sink :=
  if op_ok s then
    let s1 := tick (record s w) in
    (op_ok s1, tick s1)
  else (false, tick s).

Definition close (s : sink) : bool * sink := (op_ok s, tick s).

(** ** Session state *)
Record st := { snk : sink; dd : buf; evs : list event }.

Definition emit (s : st) (e : event) : st := {| snk := snk s; dd := dd s; evs := evs s ++ [e] |}.
Definition with_snk (s : st) (k : sink) : st := {| snk := k; dd := dd s; evs := evs s |}.
Definition with_dd (s : st) (b : buf) : st := {| snk := snk s; dd := b; evs := evs s |}.

Definition st_send (s : st) (w : wire) : bool * st :=
  let '(ok, k) := send (snk s) w in (ok, with_snk s k).

(** Next stream item; live-channel messages met on the way are queued. [None] = stream closed. *)
Fixpoint next_stream (ins : list input) (lq : list linput) : option sitem * list input * list linput :=
  match ins with
  | [] => (None, [], lq)
  | InL l :: r => next_stream r (lq ++ [l])
  | InS i :: r => (Some i, r, lq)
  end.

(** [sync_channels]: what the log sync protocol sees of a stream item. *)
Definition classify (i : sitem) : smsg + errk :=
  match i with
  | SErr => inr SyncStream
  | SMsg (WSync m) => inl m
  | SMsg _ => inr SyncStream
  end.

Inductive sres := SOk | SErrK (e : errk) | SDiverge.

(** Send the operations of one author ([get_log_entries] loop): send, then remember the id. *)
Fixpoint send_group (g : list N) (s : st) : bool * st :=
  match g with
  | [] => (true, s)
  | id :: r =>
      let '(ok, s1) := st_send s (WSync (MOp id)) in
      if ok then send_group r (with_dd s1 (fst (insert (dd s1) id))) else (false, s1)
  end.

(** The [Sync] state of LogSync::run. *)
Fixpoint sync_loop (fuel : nat) (recv_done sent_done : bool) (groups : list (list N))
         (ins : list input) (lq : list linput) (sched : list bool) (s : st)
  : sres * st * list input * list linput :=
  match fuel with
  | 0 => (SDiverge, s, ins, lq)
  | S f =>
      let stream_en := negb recv_done in
      let send_en := match groups with [] => false | _ => true end in
      let b := match sched with [] => true | x :: _ => x end in
      let sched' := tl sched in
      if stream_en && (b || negb send_en) then
        match next_stream ins lq with
        | (None, ins1, lq1) => (SErrK SyncClosure, s, ins1, lq1)
        | (Some i, ins1, lq1) =>
            match classify i with
            | inr e => (SErrK e, s, ins1, lq1)
            | inl (MOp id) =>
                let '(b1, fresh) := insert (dd s) id in
                let s1 := with_dd s b1 in
                sync_loop f recv_done sent_done groups ins1 lq1 sched' (if fresh then emit s1 (EOp id) else s1)
            | inl MOpBad => (SErrK SyncDecode, s, ins1, lq1)
            | inl MDone => sync_loop f true sent_done groups ins1 lq1 sched' s
            | inl _ => (SErrK SyncUnexpected, s, ins1, lq1)
            end
        end
      else
        match groups with
        | g :: rest =>
            let '(ok, s1) := send_group g s in
            if ok then
              match rest with
              | [] =>
                  let '(ok2, s2) := st_send s1 (WSync MDone) in
                  if ok2 then sync_loop f recv_done true [] ins lq sched' s2
                  else (SErrK SyncSink, s2, ins, lq)
              | _ => sync_loop f recv_done sent_done rest ins lq sched' s1
              end
            else (SErrK SyncSink, s1, ins, lq)
        | [] =>
            if recv_done && sent_done then (SOk, s, ins, lq)
            else sync_loop f recv_done sent_done [] ins lq sched' s
        end
  end.

(** LogSync::run up to and including the Sync loop. *)
Definition sync_phase (sends : list (list N)) (ins : list input) (sched : list bool) (s : st)
  : sres * st * list input * list linput :=
  (* SendHave *)
  let '(ok, s1) := st_send s (WSync MHave) in
  if negb ok then (SErrK SyncSink, s1, ins, []) else
  (* ReceiveHave *)
  match next_stream ins [] with
  | (None, ins1, lq1) => (SErrK SyncClosure, s1, ins1, lq1)
  | (Some i, ins1, lq1) =>
      match classify i with
      | inr e => (SErrK e, s1, ins1, lq1)
      | inl MHave =>
          (* SendPreSync *)
          let nothing := match concat sends with [] => true | _ => false end in
          let '(ok2, s2) := st_send s1 (WSync (if nothing then MDone else MPreSync)) in
          if negb ok2 then (SErrK SyncSink, s2, ins1, lq1) else
          (* ReceivePreSyncOrDone *)
          match next_stream ins1 lq1 with
          | (None, ins2, lq2) => (SErrK SyncClosure, s2, ins2, lq2)
          | (Some i2, ins2, lq2) =>
              match classify i2 with
              | inr e => (SErrK e, s2, ins2, lq2)
              | inl MPreSync =>
                  sync_loop (2 + length ins2 + length sends) false nothing sends ins2 lq2 sched (emit s2 ESyncStarted)
              | inl MDone =>
                  sync_loop (2 + length ins2 + length sends) true nothing sends ins2 lq2 sched (emit s2 ESyncStarted)
              | inl _ => (SErrK SyncUnexpected, s2, ins2, lq2)
              end
          end
      | inl _ => (SErrK SyncUnexpected, s1, ins1, lq1)
      end
  end.

(** Live mode loop of TopicLogSync::run (biased select: the merged arrival order is [ins]). *)
Fixpoint live_loop (ins : list input) (close_sent : bool) (s : st) : result * st :=
  match ins with
  | [] => (if close_sent then ROk else RErr LiveClosure, s)
  | InL (LPayload id) :: r =>
      let '(b1, fresh) := insert (dd s) id in
      let s1 := with_dd s b1 in
      if fresh then
        let '(ok, s2) := st_send s1 (WLive id) in
        if ok then live_loop r close_sent s2 else (RErr ChanSink, s2)
      else live_loop r close_sent s1
  | InL LClose :: r =>
      let '(ok, s1) := st_send s WClose in
      if ok then live_loop r true s1 else (RErr ChanSink, s1)
  | InS SErr :: _ => (if close_sent then ROk else RErr LiveDecode, s)
  | InS (SMsg WClose) :: _ => (ROk, s)
  | InS (SMsg (WLive id)) :: r =>
      let '(b1, fresh) := insert (dd s) id in
      let s1 := with_dd s b1 in
      live_loop r close_sent (if fresh then emit s1 (EOp id) else s1)
  | InS (SMsg (WSync _)) :: _ => (RErr LiveUnexpected, s)
  end.

Record cfg := { live : bool; cap : nat; sends : list (list N) }.

Definition st0 (c : cfg) (fa : option nat) (stk : bool) : st :=
  {| snk := {| ops := 0; fail_at := fa; sticky := stk; out := [] |}; dd := new (cap c); evs := [] |}.

(** sink.close() then the terminal event (after the repair: also when close fails). *)
Definition finish (r : result) (s : st) : result * st :=
  let '(ok, k) := close (snk s) in
  let r' := if ok then r else RErr ChanSink in
  (r', emit (with_snk s k) (match r' with ROk => ESessionFinished | _ => EFailed end)).

Definition run (c : cfg) (ins : list input) (fa : option nat) (stk : bool) (sched : list bool) : result * st :=
  match sync_phase (sends c) ins sched (st0 c fa stk) with
  | (SDiverge, s, _, _) => (RDiverge, s)
  | (SErrK e, s, _, _) =>
      (* Failed event, then close the sink; a close error replaces the returned error *)
      let s1 := emit s EFailed in
      let '(ok, k) := close (snk s1) in
      (RErr (if ok then e else ChanSink), with_snk s1 k)
  | (SOk, s, ins1, lq1) =>
      let s1 := emit s ESyncFinished in
      if live c then
        let '(r, s2) := live_loop (map InL lq1 ++ ins1) false (emit s1 ELiveStarted) in
        finish r s2
      else finish ROk s1
  end.

(** ** The documented lifecycle, as an automaton over the events after [SessionStarted] *)
Inductive q := Q0 | Q1 | Q2 | Q3 | QEnd | QBad.

Definition delta (lv : bool) (s : q) (e : event) : q :=
  match s, e with
  | Q0, ESyncStarted => Q1
  | Q0, EFailed => QEnd
  | Q1, EOp _ => Q1
  | Q1, ESyncFinished => Q2
  | Q1, EFailed => QEnd
  | Q2, ELiveStarted => if lv then Q3 else QBad
  | Q2, ESessionFinished => if lv then QBad else QEnd
  | Q2, EFailed => QEnd
  | Q3, EOp _ => Q3
  | Q3, ESessionFinished => QEnd
  | Q3, EFailed => QEnd
  | _, _ => QBad
  end.

Definition q_is_end (s : q) : bool := match s with QEnd => true | _ => false end.

(** Part B of the property: everything after [SessionStarted]. *)
Definition lifecycle_tail (lv : bool) (l : list event) : bool := q_is_end (fold_left (delta lv) l Q0).

(** The whole property: [SessionStarted] first (part A), then part B. *)
Definition lifecycle (lv : bool) (l : list event) : bool :=
  match l with ESessionStarted :: r => lifecycle_tail lv r | _ => false end.
