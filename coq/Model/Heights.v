(** Model of p2panda-core/src/logs.rs ([LogHeights], [LogRanges], [compare]) — definitions only.

    Rust                                                   Gallina
    ---------------------------------------------------    -----------------------------------
    [LogHeights<A,L> = BTreeMap<A, BTreeMap<L, SeqNum>>]    [heights = list (N * list (N * N))]
    [LogRanges<A,L>  = BTreeMap<A, BTreeMap<L,(Option<SeqNum>,Option<SeqNum>)>>]   [ranges]
    [BTreeMap::get]                                        [alookup] (first match)
    [local_logs == remote_logs] (BTreeMap [PartialEq])     [logs_eqb]
    [logs::compare(local, remote)]                         [compare L R]
    [BTreeMap::entry(a).or_default().insert(l, h)]         [set2] (used by the cursor model and by
                                                           the "remote applied the diff" spec)

    Authors, log ids and heights are [N] (the harness maps real [VerifyingKey]s / [u64] log ids
    to their index in the scenario; [SeqNum = u32] values are used as they are — [compare] does
    no arithmetic on them, only [<]).

    Maps are association lists read through [alookup]/[lookup2].  A Rust [BTreeMap] has unique
    keys; the corresponding well-formedness is [wf_heights] (no duplicate author, no duplicate
    log id inside one author), stated in Proofs/Heights.v and respected by the generators.  The
    model walks [local] in list order (for a BTreeMap: ascending key order) and emits the result
    in that order, so for canonical (sorted) inputs the result is the sorted BTreeMap content.

    Modelled, not verified: [BTreeMap] itself ([get], [iter], [insert], [==] behave as a finite
    map with unique keys); [Ord]/[Eq] of the key types agree with equality of the indices. *)
From Coq Require Import List Arith NArith Bool.
Import ListNotations.

(* Notations, not definitions: the types stay syntactically transparent for [rewrite]. *)
Notation range := (option N * option N)%type.
Notation logs := (list (N * N)).
Notation heights := (list (N * list (N * N))).
Notation ranges := (list (N * list (N * (option N * option N)))).

Fixpoint alookup {V : Type} (k : N) (m : list (N * V)) : option V :=
  match m with
  | [] => None
  | (k', v) :: r => if N.eqb k k' then Some v else alookup k r
  end.

(** [m.get(a).and_then(|x| x.get(l))] *)
Definition lookup2 {V : Type} (m : list (N * list (N * V))) (a l : N) : option V :=
  match alookup a m with
  | Some inner => alookup l inner
  | None => None
  end.

(** [BTreeMap == BTreeMap] for unique-key maps: same number of entries and every entry of the
    first is an entry of the second. *)
Definition logs_eqb (x y : logs) : bool :=
  Nat.eqb (length x) (length y) &&
  forallb (fun p => match alookup (fst p) y with
                    | Some v => N.eqb (snd p) v
                    | None => false
                    end) x.

(** The inner loop of [compare]: one author known to both sides. *)
Fixpoint compare_logs (ll rl : logs) : list (N * range) :=
  match ll with
  | [] => []
  | (l, h) :: rest =>
      match alookup l rl with
      | None => (l, (None, Some h)) :: compare_logs rest rl
      | Some r =>
          if N.ltb r h then (l, (Some r, Some h)) :: compare_logs rest rl
          else compare_logs rest rl
      end
  end.

(** [logs::compare].  Note the three ways an author is treated:
    - unknown to the remote: *all* its local logs, even if that is an empty map (so the result
      can carry an author with an empty inner map);
    - known, inner maps equal: skipped;
    - known, different: an entry is created only by the first [insert], so no empty inner map. *)
Fixpoint compare (L R : heights) : ranges :=
  match L with
  | [] => []
  | (a, ll) :: rest =>
      match alookup a R with
      | None => (a, map (fun p => (fst p, (None, Some (snd p)))) ll) :: compare rest R
      | Some rl =>
          if logs_eqb ll rl then compare rest R
          else match compare_logs ll rl with
               | [] => compare rest R
               | d => (a, d) :: compare rest R
               end
      end
  end.

(** * Finite-map update (sorted insert; replaces an existing binding). *)
Fixpoint ainsert {V : Type} (k : N) (v : V) (m : list (N * V)) : list (N * V) :=
  match m with
  | [] => [(k, v)]
  | (k', v') :: r =>
      if N.eqb k k' then (k, v) :: r
      else if N.ltb k k' then (k, v) :: (k', v') :: r
      else (k', v') :: ainsert k v r
  end.

(** [m.entry(a).or_default().insert(l, v)] *)
Definition set2 {V : Type} (m : list (N * list (N * V))) (a l : N) (v : V) : list (N * list (N * V)) :=
  ainsert a (ainsert l v (match alookup a m with Some inner => inner | None => [] end)) m.

(** * Specification side: what the remote's heights are once it received every range of a diff.

    A range [(from, Some until)] brings the log to height [until]; a range without upper bound
    (never produced by [compare]) carries no height and leaves the log as it is. *)
Definition apply_logs (R : heights) (a : N) (d : list (N * range)) : heights :=
  fold_left (fun acc p => match snd (snd p) with
                          | Some u => set2 acc a (fst p) u
                          | None => acc
                          end) d R.

Definition apply_diff (R : heights) (D : ranges) : heights :=
  fold_left (fun acc p => apply_logs acc (fst p) (snd p)) D R.

(** Pointwise maximum of two optional heights ([None] = log unknown). *)
Definition omax (x y : option N) : option N :=
  match x, y with
  | Some a, Some b => Some (N.max a b)
  | Some a, None => Some a
  | None, y => y
  end.

(** What [compare L R] has to contain for log [l] of author [a]. *)
Definition spec_range (L R : heights) (a l : N) : option range :=
  match lookup2 L a l, lookup2 R a l with
  | Some h, None => Some (None, Some h)
  | Some h, Some r => if N.ltb r h then Some (Some r, Some h) else None
  | None, _ => None
  end.

(** Unique keys, the BTreeMap discipline. *)
Definition keys {V : Type} (m : list (N * V)) : list N := map fst m.

Fixpoint nodupb (l : list N) : bool :=
  match l with
  | [] => true
  | x :: r => negb (existsb (N.eqb x) r) && nodupb r
  end.

Definition wf_heightsb {V : Type} (m : list (N * list (N * V))) : bool :=
  nodupb (keys m) && forallb (fun p => nodupb (keys (snd p))) m.
