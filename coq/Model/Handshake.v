(** Model of p2panda-sync/src/protocols/topic_handshake.rs.

    Rust: [TopicHandshakeInitiator::run] and [TopicHandshakeAcceptor::run] are straight-line
    async functions over a [Sink] and a [Stream] plus an event channel
    ([futures_channel::mpsc::Sender<Evt>]).  Each is modelled as a deterministic *step machine*:
    a state (program counter + the topic received so far), the [action] the code performs next,
    and [resume] on the environment's response.  One Rust statement = one or two actions:

      [event_tx.send(e).await?]            = [AEmit e]       (fails iff the receiver is gone => MpscSend)
      [sink.send(m).await.map_err(..)?]    = [AStart m; AFlush]  (SinkExt::send = start_send + flush;
                                              either may fail, both map to the same error variant)
      [stream.next().await]                = [ARecv]  response [RItem None] (closed),
                                              [RItem (Some IErr)] (stream yielded Err), [RItem (Some (IMsg m))]
      [sink.flush().await.map_err(..)?]    = [AFlush]
      [event_tx.flush().await?]            = [AFlushEv]   (mpsc::Sender::poll_flush never fails on a
                                              disconnected channel; modelled with an ok/fail response anyway)
      [return r]                           = [ARet r]

    Error variants are the Rust ones, including the two slips of the code that are *not* part of
    the property (a stream [Err] item is reported as [MessageSink] by both sides; the acceptor
    reports a failing sink as [MessageStream]).

    Environments:
      - [run_env]: one side against an arbitrary incoming item list (closed after the last item),
        a sink that fails at the k-th sink operation, and an event receiver that is alive or not.
        Every truncation / substitution of the honest transcript is an instance of "arbitrary
        incoming list".
      - [pair]: both sides connected by two FIFO channels with a man in the middle on one
        direction ([Truncate k]: forward k messages then close towards the receiver;
        [Subst k x]: replace message k by item x).  A side that returned has dropped its sink, so
        its outgoing channel is closed once drained.  [pstep] is the step of a chosen side
        ([None] = that side is blocked or finished); theorems quantify over all schedules.

    Modelled, not verified: FIFO reliable channels; [Sink::poll_ready] never fails on its own;
    the topic type is an opaque [T] (the code only clones/moves it: parametricity). *)
From Coq Require Import List Arith Bool.
Import ListNotations.

Section Handshake.
Variable T : Type.

Inductive msg := Topic (t : T) | Done.
Inductive item := IMsg (m : msg) | IErr.
Inductive err := EUnexpected (m : msg) | EClosure | ESink | EStream | EMpsc.
Inductive event := EvInitiate (t : T) | EvAccept | EvTopicReceived (t : T) | EvDone (t : T).
Inductive result := Ok (o : option T) | Err (e : err).

Inductive action :=
| AStart (m : msg) | AFlush | ARecv | AEmit (e : event) | AFlushEv | ARet (r : result).
Inductive resp := RAck (ok : bool) | RItem (i : option item).

(** [Run pc tp]: at statement [pc], [tp] = topic received so far (acceptor only). *)
Inductive state := Run (pc : nat) (tp : option T) | Fin (r : result).

Definition is_fin (s : state) : bool := match s with Fin _ => true | _ => false end.

(** ** Initiator (topic_handshake.rs:41-88) *)
Definition i_action (t : T) (s : state) : action :=
  match s with
  | Fin r => ARet r
  | Run 0 _ => AEmit (EvInitiate t)
  | Run 1 _ => AStart (Topic t)
  | Run 2 _ => AFlush
  | Run 3 _ => ARecv
  | Run 4 _ => AStart Done
  | Run 5 _ => AFlush
  | Run 6 _ => AEmit (EvDone t)
  | Run 7 _ => AFlush
  | Run 8 _ => AFlushEv
  | Run _ _ => ARet (Ok None)
  end.

Definition i_resume (t : T) (s : state) (r : resp) : state :=
  match s with
  | Fin _ => s
  | Run pc tp =>
      match i_action t s, r with
      | AEmit _, RAck true => Run (S pc) tp
      | AEmit _, _ => Fin (Err EMpsc)
      | AFlushEv, RAck true => Run (S pc) tp
      | AFlushEv, _ => Fin (Err EMpsc)
      | AStart _, RAck true => Run (S pc) tp
      | AStart _, _ => Fin (Err ESink)
      | AFlush, RAck true => Run (S pc) tp
      | AFlush, _ => Fin (Err ESink)
      | ARecv, RItem None => Fin (Err EClosure)
      | ARecv, RItem (Some IErr) => Fin (Err ESink)           (* sic: MessageSink *)
      | ARecv, RItem (Some (IMsg Done)) => Run (S pc) tp
      | ARecv, RItem (Some (IMsg m)) => Fin (Err (EUnexpected m))
      | ARecv, RAck _ => s
      | ARet res, _ => Fin res
      end
  end.

(** ** Acceptor (topic_handshake.rs:109-160) *)
Definition a_action (s : state) : action :=
  match s with
  | Fin r => ARet r
  | Run 0 _ => AEmit EvAccept
  | Run 1 _ => ARecv
  | Run 2 (Some t) => AEmit (EvTopicReceived t)
  | Run 3 _ => AStart Done
  | Run 4 _ => AFlush
  | Run 5 _ => ARecv
  | Run 6 (Some t) => AEmit (EvDone t)
  | Run 7 _ => AFlush
  | Run 8 _ => AFlushEv
  | Run _ tp => ARet (Ok tp)
  end.

Definition a_resume (s : state) (r : resp) : state :=
  match s with
  | Fin _ => s
  | Run pc tp =>
      match a_action s, r with
      | AEmit _, RAck true => Run (S pc) tp
      | AEmit _, _ => Fin (Err EMpsc)
      | AFlushEv, RAck true => Run (S pc) tp
      | AFlushEv, _ => Fin (Err EMpsc)
      | AStart _, RAck true => Run (S pc) tp
      | AStart _, _ => Fin (Err EStream)                      (* sic: MessageStream *)
      | AFlush, RAck true => Run (S pc) tp
      | AFlush, _ => Fin (Err (if Nat.eqb pc 4 then EStream else ESink))
      | ARecv, RItem None => Fin (Err EClosure)
      | ARecv, RItem (Some IErr) => Fin (Err ESink)           (* sic: MessageSink *)
      | ARecv, RItem (Some (IMsg m)) =>
          match pc, m with
          | 1, Topic t => Run 2 (Some t)
          | 5, Done => Run 6 tp
          | _, _ => Fin (Err (EUnexpected m))
          end
      | ARecv, RAck _ => s
      | ARet res, _ => Fin res
      end
  end.

Inductive role := Initiator (t : T) | Acceptor.

Definition action_of (r : role) (s : state) : action :=
  match r with Initiator t => i_action t s | Acceptor => a_action s end.
Definition resume_of (r : role) (s : state) (x : resp) : state :=
  match r with Initiator t => i_resume t s x | Acceptor => a_resume s x end.

Definition init_state : state := Run 0 None.

(** ** One side against a scripted environment *)
Record env := {
  inc : list item;          (* items still to come; the stream is closed after them *)
  sink_ops : nat;           (* sink operations (start_send / flush) performed so far *)
  sink_fail : option nat;   (* index of the sink operation that fails *)
  ev_open : bool            (* event receiver alive *)
}.

Record obs := {
  sent : list msg;          (* messages accepted by the sink, oldest first *)
  events : list event;      (* events delivered, oldest first *)
  trace : list (action * resp)
}.

Definition obs0 : obs := {| sent := []; events := []; trace := [] |}.

Definition sink_ok (e : env) : bool :=
  match sink_fail e with Some k => negb (Nat.eqb k (sink_ops e)) | None => true end.

Definition bump (e : env) : env :=
  {| inc := inc e; sink_ops := S (sink_ops e); sink_fail := sink_fail e; ev_open := ev_open e |}.

(** The environment's answer to an action, with the updated environment and observation. *)
Definition respond (a : action) (e : env) (o : obs) : resp * env * obs :=
  match a with
  | AStart m =>
      let ok := sink_ok e in
      (RAck ok, bump e,
       {| sent := if ok then sent o ++ [m] else sent o; events := events o;
          trace := trace o ++ [(a, RAck ok)] |})
  | AFlush =>
      let ok := sink_ok e in
      (RAck ok, bump e, {| sent := sent o; events := events o; trace := trace o ++ [(a, RAck ok)] |})
  | AEmit ev =>
      (RAck (ev_open e), e,
       {| sent := sent o; events := if ev_open e then events o ++ [ev] else events o;
          trace := trace o ++ [(a, RAck (ev_open e))] |})
  | AFlushEv =>
      (RAck true, e, {| sent := sent o; events := events o; trace := trace o ++ [(a, RAck true)] |})
  | ARecv =>
      match inc e with
      | [] => (RItem None, e, {| sent := sent o; events := events o; trace := trace o ++ [(a, RItem None)] |})
      | i :: rest =>
          (RItem (Some i),
           {| inc := rest; sink_ops := sink_ops e; sink_fail := sink_fail e; ev_open := ev_open e |},
           {| sent := sent o; events := events o; trace := trace o ++ [(a, RItem (Some i))] |})
      end
  | ARet _ => (RAck true, e, o)
  end.

Fixpoint run_env (fuel : nat) (r : role) (s : state) (e : env) (o : obs) : option result * env * obs :=
  match fuel with
  | 0 => (None, e, o)
  | S f =>
      match action_of r s with
      | ARet res => (Some res, e, o)
      | a => let '(x, e1, o1) := respond a e o in run_env f r (resume_of r s x) e1 o1
      end
  end.

(** Fuel 16 is enough for either side (proved: [run_terminates]). *)
Definition run_side (r : role) (e : env) : option result * env * obs := run_env 16 r init_state e obs0.

Definition mkenv (items : list item) (sf : option nat) (evo : bool) : env :=
  {| inc := items; sink_ops := 0; sink_fail := sf; ev_open := evo |}.

(** Honest transcripts: what each side receives from an honest peer. *)
Definition honest_to_acceptor (t : T) : list item := [IMsg (Topic t); IMsg Done].
Definition honest_to_initiator : list item := [IMsg Done].

(** ** Two sides, two channels, a man in the middle *)
Inductive dir := ItoA | AtoI.
Inductive mitm := NoMitm | Truncate (d : dir) (k : nat) | Subst (d : dir) (k : nat) (x : item).

Record chan := { q : list item; pushed : nat }.

Definition dir_eqb (a b : dir) : bool :=
  match a, b with ItoA, ItoA | AtoI, AtoI => true | _, _ => false end.

Definition push (mm : mitm) (d : dir) (c : chan) (m : msg) : chan :=
  match mm with
  | Truncate d' k =>
      if dir_eqb d d' && negb (Nat.ltb (pushed c) k)
      then {| q := q c; pushed := S (pushed c) |}
      else {| q := q c ++ [IMsg m]; pushed := S (pushed c) |}
  | Subst d' k x =>
      if dir_eqb d d' && Nat.eqb (pushed c) k
      then {| q := q c ++ [x]; pushed := S (pushed c) |}
      else {| q := q c ++ [IMsg m]; pushed := S (pushed c) |}
  | NoMitm => {| q := q c ++ [IMsg m]; pushed := S (pushed c) |}
  end.

(** The receiver's end of direction [d] is closed when the sender returned, or when the man in
    the middle has forwarded its [k] messages. *)
Definition cut (mm : mitm) (d : dir) (c : chan) : bool :=
  match mm with
  | Truncate d' k => dir_eqb d d' && negb (Nat.ltb (pushed c) k)
  | _ => false
  end.

Record pstate := {
  sI : state; sA : state;
  cIA : chan; cAI : chan;
  evI : list event; evA : list event
}.

Inductive side := SI | SA.

Definition pinit : pstate :=
  {| sI := init_state; sA := init_state; cIA := {| q := []; pushed := 0 |};
     cAI := {| q := []; pushed := 0 |}; evI := []; evA := [] |}.

(** Step of side [w]; [None] when it is blocked on an empty open channel or has returned. *)
Definition pstep (t : T) (mm : mitm) (w : side) (p : pstate) : option pstate :=
  match w with
  | SI =>
      let s := sI p in
      match i_action t s with
      | ARet res => if is_fin s then None
                    else Some {| sI := Fin res; sA := sA p; cIA := cIA p; cAI := cAI p; evI := evI p; evA := evA p |}
      | AStart m => Some {| sI := i_resume t s (RAck true); sA := sA p; cIA := push mm ItoA (cIA p) m;
                            cAI := cAI p; evI := evI p; evA := evA p |}
      | AFlush | AFlushEv =>
          Some {| sI := i_resume t s (RAck true); sA := sA p; cIA := cIA p; cAI := cAI p; evI := evI p; evA := evA p |}
      | AEmit e => Some {| sI := i_resume t s (RAck true); sA := sA p; cIA := cIA p; cAI := cAI p;
                           evI := evI p ++ [e]; evA := evA p |}
      | ARecv =>
          match q (cAI p) with
          | i :: rest => Some {| sI := i_resume t s (RItem (Some i)); sA := sA p; cIA := cIA p;
                                 cAI := {| q := rest; pushed := pushed (cAI p) |}; evI := evI p; evA := evA p |}
          | [] => if is_fin (sA p) || cut mm AtoI (cAI p)
                  then Some {| sI := i_resume t s (RItem None); sA := sA p; cIA := cIA p; cAI := cAI p;
                               evI := evI p; evA := evA p |}
                  else None
          end
      end
  | SA =>
      let s := sA p in
      match a_action s with
      | ARet res => if is_fin s then None
                    else Some {| sI := sI p; sA := Fin res; cIA := cIA p; cAI := cAI p; evI := evI p; evA := evA p |}
      | AStart m => Some {| sI := sI p; sA := a_resume s (RAck true); cIA := cIA p;
                            cAI := push mm AtoI (cAI p) m; evI := evI p; evA := evA p |}
      | AFlush | AFlushEv =>
          Some {| sI := sI p; sA := a_resume s (RAck true); cIA := cIA p; cAI := cAI p; evI := evI p; evA := evA p |}
      | AEmit e => Some {| sI := sI p; sA := a_resume s (RAck true); cIA := cIA p; cAI := cAI p;
                           evI := evI p; evA := evA p ++ [e] |}
      | ARecv =>
          match q (cIA p) with
          | i :: rest => Some {| sI := sI p; sA := a_resume s (RItem (Some i));
                                 cIA := {| q := rest; pushed := pushed (cIA p) |}; cAI := cAI p;
                                 evI := evI p; evA := evA p |}
          | [] => if is_fin (sI p) || cut mm ItoA (cIA p)
                  then Some {| sI := sI p; sA := a_resume s (RItem None); cIA := cIA p; cAI := cAI p;
                               evI := evI p; evA := evA p |}
                  else None
          end
      end
  end.

(** Run a schedule: a blocked / finished side's turn is skipped. *)
Fixpoint prun (t : T) (mm : mitm) (sched : list side) (p : pstate) : pstate :=
  match sched with
  | [] => p
  | w :: r => prun t mm r (match pstep t mm w p with Some p' => p' | None => p end)
  end.

(** Number of effective (non-skipped) steps of a schedule. *)
Fixpoint effective (t : T) (mm : mitm) (sched : list side) (p : pstate) : nat :=
  match sched with
  | [] => 0
  | w :: r => match pstep t mm w p with
              | Some p' => S (effective t mm r p')
              | None => effective t mm r p
              end
  end.

Definition stuck (t : T) (mm : mitm) (p : pstate) : bool :=
  match pstep t mm SI p, pstep t mm SA p with None, None => true | _, _ => false end.

(** Round-robin schedule used for the canonical model line (the outcome is schedule independent:
    each side is deterministic and only ever blocks on its own input channel). *)
Fixpoint round_robin (n : nat) : list side :=
  match n with 0 => [] | S k => SI :: SA :: round_robin k end.

Definition pair (t : T) (mm : mitm) : pstate := prun t mm (round_robin 24) pinit.

End Handshake.

Arguments Topic {T}. Arguments Done {T}. Arguments IMsg {T}. Arguments IErr {T}.
Arguments EUnexpected {T}. Arguments EClosure {T}. Arguments ESink {T}. Arguments EStream {T}. Arguments EMpsc {T}.
Arguments EvInitiate {T}. Arguments EvAccept {T}. Arguments EvTopicReceived {T}. Arguments EvDone {T}.
Arguments Ok {T}. Arguments Err {T}.
Arguments AStart {T}. Arguments AFlush {T}. Arguments ARecv {T}. Arguments AEmit {T}. Arguments AFlushEv {T}. Arguments ARet {T}.
Arguments RAck {T}. Arguments RItem {T}.
Arguments Run {T}. Arguments Fin {T}.
Arguments Initiator {T}. Arguments Acceptor {T}.
Arguments NoMitm {T}. Arguments Truncate {T}. Arguments Subst {T}.
Arguments mkenv {T}. Arguments obs0 {T}. Arguments init_state {T}. Arguments pinit {T}.
Arguments honest_to_initiator {T}. Arguments honest_to_acceptor {T}.
Arguments is_fin {T}. Arguments i_action {T}. Arguments i_resume {T}. Arguments a_action {T}. Arguments a_resume {T}.
Arguments action_of {T}. Arguments resume_of {T}.
Arguments inc {T}. Arguments sink_ops {T}. Arguments sink_fail {T}. Arguments ev_open {T}.
Arguments sent {T}. Arguments events {T}. Arguments trace {T}.
Arguments sink_ok {T}. Arguments bump {T}. Arguments respond {T}. Arguments run_env {T}. Arguments run_side {T}.
Arguments q {T}. Arguments pushed {T}. Arguments push {T}. Arguments cut {T}.
Arguments sI {T}. Arguments sA {T}. Arguments cIA {T}. Arguments cAI {T}. Arguments evI {T}. Arguments evA {T}.
Arguments effective {T}. Arguments pstep {T}. Arguments prun {T}. Arguments stuck {T}. Arguments pair {T}.
