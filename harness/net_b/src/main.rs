//! Harness for the p2panda-net properties C27 (address book) and C29 (gossip topic guard).
//! Dispatch on argv[1].
mod c27;
mod c29;

fn main() {
    let mode = std::env::args().nth(1).unwrap_or_default();
    match mode.as_str() {
        "c27" => c27::main(),
        "c29" => c29::main(),
        other => {
            eprintln!("unknown mode {other}");
            std::process::exit(2);
        }
    }
}
