//! C27: drive the real `NodeInfo::update_transports` and the real address-book actor
//! (`AddressBook::builder().spawn()`, in-memory SQLite) with records carrying real ed25519
//! signatures.
//!
//! Payload:
//!   `direct <K> <node> <R> <rec>*R <O> <rec index>*O`
//!   `actor  <K> <R> <rec>*R <O> <op>*O`
//! rec: `T/<p>.<l>/<addrs>` (trusted) or `A/<signer>/<sp>.<sl>/<saddrs>/<p>.<l>/<addrs>`
//!      (authenticated: signed by key <signer> over timestamp <sp>.<sl> and <saddrs>, then the
//!      public fields are set to <p>.<l> and <addrs> — equal unless tampered);
//!      addrs: `_` or `<key index>.<port>,...`
//! op:  `t/<node>/<rec>` insert_transport_info, `n/<node>/<bootstrap 0|1>/<rec|->` insert_node_info
//!
//! Output: `<result>,... | <final>`; result: `1`/`0` = Ok(true/false), `Es` = InvalidSignature,
//! `Ei` = NodeIdMismatch, `Ex` = anything else; final (direct): index of the stored record or
//! `-`; final (actor): for each node `-` (no entry) or `b<bootstrap>:<index|->`, joined by `;`.
use std::cell::Cell;
use std::net::{Ipv4Addr, SocketAddr};

use p2panda_core::timestamp::{HybridTimestamp, LamportTimestamp, Timestamp};
use p2panda_core::{SigningKey, VerifyingKey};
use p2panda_net::AddressBook;
use p2panda_net::address_book::AddressBookError;
use p2panda_net::addrs::{
    NodeInfo, NodeInfoError, TransportAddress, TransportInfo, TrustedTransportInfo, UnsignedTransportInfo,
};
use p2panda_net::utils::from_verifying_key;

thread_local! {
    static CASE_COUNTER: Cell<u64> = const { Cell::new(0) };
}

fn keys(k: usize) -> Vec<SigningKey> {
    let c = CASE_COUNTER.with(|c| {
        let v = c.get();
        c.set(v + 1);
        v
    });
    (0..k)
        .map(|i| {
            let mut b = [0x5au8; 32];
            b[..8].copy_from_slice(&c.to_le_bytes());
            b[8] = i as u8;
            b[9..13].copy_from_slice(&std::process::id().to_le_bytes());
            SigningKey::from_bytes(&b)
        })
        .collect()
}

fn ts(s: &str) -> HybridTimestamp {
    let (p, l) = s.split_once('.').expect("ts");
    HybridTimestamp::from_parts(
        Timestamp::new(p.parse().expect("ts phys")),
        LamportTimestamp::new(l.parse().expect("ts logical")),
    )
}

fn addrs(s: &str, ids: &[VerifyingKey]) -> Vec<TransportAddress> {
    if s == "_" {
        return vec![];
    }
    s.split(',')
        .map(|a| {
            let (id, port) = a.split_once('.').expect("addr");
            let id: usize = id.parse().expect("addr id");
            let port: u16 = port.parse().expect("addr port");
            let ep = iroh_base::EndpointAddr::new(from_verifying_key(ids[id])).with_addrs([
                iroh_base::TransportAddr::Ip(SocketAddr::from((Ipv4Addr::LOCALHOST, port))),
            ]);
            TransportAddress::Iroh(ep)
        })
        .collect()
}

fn record(tok: &str, sk: &[SigningKey], ids: &[VerifyingKey]) -> TransportInfo {
    let f: Vec<&str> = tok.split('/').collect();
    match f[0] {
        "T" => TransportInfo::Trusted(TrustedTransportInfo { timestamp: ts(f[1]), addresses: addrs(f[2], ids) }),
        "A" => {
            let signer: usize = f[1].parse().expect("signer");
            let unsigned = UnsignedTransportInfo { timestamp: ts(f[2]), addresses: addrs(f[3], ids) };
            let mut signed = unsigned.sign(&sk[signer]).expect("sign");
            signed.timestamp = ts(f[4]);
            signed.addresses = addrs(f[5], ids);
            TransportInfo::Authenticated(signed)
        }
        _ => panic!("record kind"),
    }
}

fn show_err(e: &NodeInfoError) -> &'static str {
    match e {
        NodeInfoError::InvalidSignature => "Es",
        NodeInfoError::NodeIdMismatch => "Ei",
        _ => "Ex",
    }
}

fn show_res(r: Result<bool, NodeInfoError>) -> String {
    match r {
        Ok(true) => "1".into(),
        Ok(false) => "0".into(),
        Err(e) => show_err(&e).into(),
    }
}

fn index_of(recs: &[TransportInfo], t: &Option<TransportInfo>) -> String {
    match t {
        None => "-".into(),
        Some(x) => match recs.iter().position(|r| r == x) {
            Some(i) => i.to_string(),
            None => "?".into(),
        },
    }
}

pub fn main() {
    let rt = tokio::runtime::Builder::new_current_thread().enable_all().build().expect("runtime");
    let book: AddressBook = rt.block_on(async { AddressBook::builder().spawn().await.expect("address book") });
    h_common::run_cases(|payload| {
        let tok: Vec<&str> = payload.split_whitespace().collect();
        let mode = tok[0];
        let k: usize = tok[1].parse().expect("K");
        let sk = keys(k);
        let ids: Vec<VerifyingKey> = sk.iter().map(|s| s.verifying_key()).collect();
        let mut p = 2;
        let node = if mode == "direct" {
            p += 1;
            tok[2].parse::<usize>().expect("node")
        } else {
            0
        };
        let r: usize = tok[p].parse().expect("R");
        p += 1;
        let recs: Vec<TransportInfo> = tok[p..p + r].iter().map(|t| record(t, &sk, &ids)).collect();
        p += r;
        let o: usize = tok[p].parse().expect("O");
        p += 1;
        let ops = &tok[p..p + o];
        let mut results: Vec<String> = Vec::new();
        if mode == "direct" {
            let mut info = NodeInfo::new(ids[node]);
            for t in ops {
                let i: usize = t.parse().expect("rec index");
                results.push(show_res(info.update_transports(recs[i].clone())));
            }
            format!("{} | {}", results.join(","), index_of(&recs, &info.transports))
        } else {
            rt.block_on(async {
                for t in ops {
                    let f: Vec<&str> = t.split('/').collect();
                    let n: usize = f[1].parse().expect("node");
                    let res = match f[0] {
                        "t" => {
                            let i: usize = f[2].parse().expect("rec");
                            book.insert_transport_info(ids[n], recs[i].clone()).await
                        }
                        "n" => {
                            let mut info = NodeInfo::new(ids[n]);
                            info.bootstrap = f[2] == "1";
                            if f[3] != "-" {
                                let i: usize = f[3].parse().expect("rec");
                                info.transports = Some(recs[i].clone());
                            }
                            book.insert_node_info(info).await
                        }
                        _ => panic!("op kind"),
                    };
                    results.push(match res {
                        Ok(true) => "1".into(),
                        Ok(false) => "0".into(),
                        Err(AddressBookError::NodeInfo(e)) => show_err(&e).into(),
                        Err(_) => "Ex".into(),
                    });
                }
                let mut fin: Vec<String> = Vec::new();
                for id in &ids {
                    fin.push(match book.node_info(*id).await.expect("node_info") {
                        None => "-".into(),
                        Some(info) => format!("b{}:{}", info.bootstrap as u8, index_of(&recs, &info.transports)),
                    });
                }
                format!("{} | {}", results.join(","), fin.join(";"))
            })
        }
    });
}
