//! C29: replay a chosen interleaving of concurrent `Gossip::stream()` calls and handle drops on
//! the real `Gossip` front end / `TopicDropGuard`, step by step, through the cfg-gated schedule
//! points of `p2panda_net::verif_c29`.
//!
//! The gossip manager is replaced by a probe actor (no iroh endpoint): it forwards every message
//! to the controller in mailbox order; the controller applies the manager's bookkeeping
//! (`manager.rs`: Subscribe = create the channel pair and register the session for the topic,
//! overwriting; Unsubscribe = stop and forget the session registered for the topic) exactly when
//! the schedule says the manager runs.
//!
//! A dropping thread parks three times: `before_drop` (next step = the `fetch_sub`),
//! `drop_after_decrement` (next step = the decision on the value `fetch_sub` returned; no shared
//! access in the code as it is) and, if it decided to leave, `drop_before_unsubscribe` (next step =
//! `send_message(Unsubscribe)`) — the model's `PDrop` / `PDec` / `PSend`.
//!
//! Payload: `<flags> <label>*` — flags: one char per thread, `k` = the thread calls `stream()` and
//! keeps the handle, `d` = it calls `stream()` and then drops the handle; label: thread index or
//! `M` (manager handles the next message).  A label whose step is not enabled is skipped; after
//! the schedule everything is run to completion (lowest enabled thread first, manager last).
//!
//! Output: `<thread>* | <log> | sub=<0|1>`; thread: `<f|s|->` (fast path / slow path / did not
//! get that far) then `:d` (handle dropped) or `:L:<counter>` / `:X:<counter>` (handle kept; L =
//! publishing succeeds, X = the session behind it is gone); log: `S`/`U` in the order the
//! manager handled them.
use std::cell::Cell;
use std::collections::VecDeque;
use std::sync::mpsc::{Receiver, RecvTimeoutError, Sender, SyncSender, channel, sync_channel};
use std::sync::{Mutex, OnceLock};
use std::time::Duration;

use p2panda_core::SigningKey;
use p2panda_net::AddressBook;
use p2panda_net::gossip::{Gossip, GossipConfig, GossipHandle};
use p2panda_net::verif_c29::{ToGossipManager, set_yield_hook};
use ractor::{Actor, ActorProcessingErr, ActorRef};
use tokio::sync::{broadcast, mpsc};

enum Ev {
    Parked(usize, &'static str, SyncSender<()>),
    Finished(usize, Result<Option<GossipHandle>, String>),
    Msg(ToGossipManager),
}

thread_local! {
    static TID: Cell<Option<usize>> = const { Cell::new(None) };
}

static EVENTS: Mutex<Option<Sender<Ev>>> = Mutex::new(None);

fn park(name: &'static str) {
    let Some(tid) = TID.with(|t| t.get()) else { return };
    let tx = EVENTS.lock().unwrap().clone();
    let Some(tx) = tx else { return };
    let (rtx, rrx) = sync_channel::<()>(1);
    if tx.send(Ev::Parked(tid, name, rtx)).is_ok() {
        let _ = rrx.recv();
    }
}

struct Probe;

impl Actor for Probe {
    type Msg = ToGossipManager;
    type State = Sender<Ev>;
    type Arguments = Sender<Ev>;

    async fn pre_start(&self, _myself: ActorRef<Self::Msg>, args: Self::Arguments) -> Result<Self::State, ActorProcessingErr> {
        Ok(args)
    }

    async fn handle(&self, _myself: ActorRef<Self::Msg>, message: Self::Msg, state: &mut Self::State) -> Result<(), ActorProcessingErr> {
        let _ = state.send(Ev::Msg(message));
        Ok(())
    }
}

enum Th {
    Parked(&'static str, SyncSender<()>),
    WaitingReply,
    Finished,
}

struct Shared {
    rt: tokio::runtime::Runtime,
    book: AddressBook,
}

fn shared() -> &'static Shared {
    static S: OnceLock<Shared> = OnceLock::new();
    S.get_or_init(|| {
        let rt = tokio::runtime::Builder::new_multi_thread().worker_threads(2).enable_all().build().expect("runtime");
        let book = rt.block_on(async { AddressBook::builder().spawn().await.expect("address book") });
        set_yield_hook(Some(std::sync::Arc::new(park)));
        Shared { rt, book }
    })
}

const STEP_TIMEOUT: Duration = Duration::from_secs(20);

struct Ctl {
    rx: Receiver<Ev>,
    th: Vec<Th>,
    path: Vec<char>,
    kept: Vec<Option<GossipHandle>>,
    errs: Vec<Option<String>>,
    queue: VecDeque<(ToGossipManager, Option<usize>)>,
    /// receiver side of the session registered for the topic (dropping it = session stopped)
    sess: Option<mpsc::Receiver<Vec<u8>>>,
    /// sessions overwritten by a later Subscribe: the real manager forgets but never stops them
    leaked: Vec<mpsc::Receiver<Vec<u8>>>,
    keep_alive: Vec<broadcast::Sender<Vec<u8>>>,
    log: Vec<&'static str>,
}

impl Ctl {
    fn next(&self) -> Result<Ev, String> {
        match self.rx.recv_timeout(STEP_TIMEOUT) {
            Ok(e) => Ok(e),
            Err(RecvTimeoutError::Timeout) => Err("STUCK".into()),
            Err(RecvTimeoutError::Disconnected) => Err("DISCONNECTED".into()),
        }
    }

    fn note_thread(&mut self, ev: Ev) -> Result<usize, String> {
        match ev {
            Ev::Parked(i, name, r) => {
                if name == "stream_fast_window" {
                    self.path[i] = 'f';
                } else if name == "stream_slow_before_subscribe" {
                    self.path[i] = 's';
                }
                self.th[i] = Th::Parked(name, r);
                Ok(i)
            }
            Ev::Finished(i, res) => {
                self.th[i] = Th::Finished;
                match res {
                    Ok(h) => self.kept[i] = h,
                    Err(e) => self.errs[i] = Some(e),
                }
                Ok(i)
            }
            Ev::Msg(_) => Err("BAD unexpected manager message".into()),
        }
    }

    fn enabled(&self, i: usize) -> bool {
        match &self.th[i] {
            Th::Parked(name, _) => {
                !(*name == "stream_slow_before_insert"
                    && self.th.iter().any(|t| matches!(t, Th::Parked(n, _) if *n == "stream_fast_window")))
            }
            _ => false,
        }
    }

    fn step_thread(&mut self, i: usize) -> Result<(), String> {
        let Th::Parked(name, resume) = std::mem::replace(&mut self.th[i], Th::WaitingReply) else { unreachable!() };
        let _ = resume.send(());
        match name {
            "stream_slow_before_subscribe" => loop {
                match self.next()? {
                    Ev::Msg(m @ ToGossipManager::Subscribe(..)) => {
                        self.queue.push_back((m, Some(i)));
                        return Ok(());
                    }
                    Ev::Msg(_) => continue,
                    // stream() failed before it could send (should not happen)
                    ev => {
                        self.note_thread(ev)?;
                        return Ok(());
                    }
                }
            },
            "drop_before_unsubscribe" => {
                let (mut got_msg, mut got_fin) = (false, false);
                while !(got_msg && got_fin) {
                    match self.next()? {
                        Ev::Msg(m @ ToGossipManager::Unsubscribe(..)) => {
                            self.queue.push_back((m, None));
                            got_msg = true;
                        }
                        Ev::Msg(_) => continue,
                        ev => {
                            let j = self.note_thread(ev)?;
                            if j == i {
                                got_fin = true;
                            }
                        }
                    }
                }
                Ok(())
            }
            _ => loop {
                match self.next()? {
                    Ev::Msg(_) => return Err("BAD manager message outside a send step".into()),
                    ev => {
                        if self.note_thread(ev)? == i {
                            return Ok(());
                        }
                    }
                }
            },
        }
    }

    fn step_manager(&mut self) -> Result<(), String> {
        let Some((msg, caller)) = self.queue.pop_front() else { return Ok(()) };
        match msg {
            ToGossipManager::Subscribe(_topic, _nodes, reply) => {
                let (to_gossip_tx, to_gossip_rx) = mpsc::channel(128);
                let (from_gossip_tx, _) = broadcast::channel(128);
                if let Some(old) = self.sess.replace(to_gossip_rx) {
                    self.leaked.push(old);
                }
                self.keep_alive.push(from_gossip_tx.clone());
                self.log.push("S");
                let _ = reply.send((to_gossip_tx, from_gossip_tx));
                if let Some(j) = caller {
                    loop {
                        match self.next()? {
                            Ev::Msg(_) => return Err("BAD manager message while a caller resumes".into()),
                            ev => {
                                if self.note_thread(ev)? == j {
                                    break;
                                }
                            }
                        }
                    }
                }
            }
            ToGossipManager::Unsubscribe(_topic) => {
                drop(self.sess.take());
                self.log.push("U");
            }
            _ => {}
        }
        Ok(())
    }
}

fn run_case(payload: &str) -> String {
    let sh = shared();
    let mut tok = payload.split_whitespace();
    let flags: Vec<char> = tok.next().expect("flags").chars().collect();
    let labels: Vec<&str> = tok.collect();
    let n = flags.len();

    let (ev_tx, ev_rx) = channel::<Ev>();
    *EVENTS.lock().unwrap() = Some(ev_tx.clone());
    let (actor_ref, _join) = sh.rt.block_on(Actor::spawn(None, Probe, ev_tx.clone())).expect("probe actor");
    let my_id = SigningKey::from_bytes(&[7u8; 32]).verifying_key();
    let gossip = Gossip::verif_new(actor_ref.clone(), my_id, sh.book.clone(), GossipConfig::default());
    let topic: p2panda_core::Topic = [29u8; 32].into();

    let mut joins = Vec::new();
    for (i, f) in flags.iter().enumerate() {
        let gossip = gossip.clone();
        let tx = ev_tx.clone();
        let drop_after = *f == 'd';
        joins.push(std::thread::spawn(move || {
            TID.with(|t| t.set(Some(i)));
            let rt = tokio::runtime::Builder::new_current_thread().enable_all().build().expect("runtime");
            park("start");
            let res = rt.block_on(gossip.stream(topic));
            match res {
                Err(e) => {
                    let _ = tx.send(Ev::Finished(i, Err(format!("{e:?}"))));
                }
                Ok(h) => {
                    if drop_after {
                        park("before_drop");
                        drop(h);
                        let _ = tx.send(Ev::Finished(i, Ok(None)));
                    } else {
                        let _ = tx.send(Ev::Finished(i, Ok(Some(h))));
                    }
                }
            }
            drop(gossip);
            TID.with(|t| t.set(None));
        }));
    }

    let mut ctl = Ctl {
        rx: ev_rx,
        th: (0..n).map(|_| Th::WaitingReply).collect(),
        path: vec!['-'; n],
        kept: (0..n).map(|_| None).collect(),
        errs: vec![None; n],
        queue: VecDeque::new(),
        sess: None,
        leaked: Vec::new(),
        keep_alive: Vec::new(),
        log: Vec::new(),
    };

    let outcome: Result<(), String> = (|| {
        // every thread first parks at "start"
        let mut started = 0;
        while started < n {
            match ctl.next()? {
                Ev::Msg(_) => continue,
                ev => {
                    ctl.note_thread(ev)?;
                    started += 1;
                }
            }
        }
        for l in &labels {
            if *l == "M" {
                ctl.step_manager()?;
            } else {
                let i: usize = l.parse().map_err(|_| "BAD label".to_string())?;
                if i < n && ctl.enabled(i) {
                    ctl.step_thread(i)?;
                }
            }
        }
        // run to completion: lowest enabled thread first, the manager when no thread can move
        loop {
            if let Some(i) = (0..n).find(|i| ctl.enabled(*i)) {
                ctl.step_thread(i)?;
            } else if !ctl.queue.is_empty() {
                ctl.step_manager()?;
            } else {
                break;
            }
        }
        Ok(())
    })();

    let line = match outcome {
        Err(e) => {
            // release everything so that the threads can end
            *EVENTS.lock().unwrap() = None;
            for t in ctl.th.iter_mut() {
                if let Th::Parked(_, r) = std::mem::replace(t, Th::Finished) {
                    let _ = r.send(());
                }
            }
            e
        }
        Ok(()) => {
            let mut parts = Vec::new();
            for i in 0..n {
                let p = ctl.path[i];
                if let Some(e) = &ctl.errs[i] {
                    parts.push(format!("{p}:E:{}", e.split(|c: char| !c.is_alphanumeric()).next().unwrap_or("")));
                } else if let Some(h) = &ctl.kept[i] {
                    let live = sh.rt.block_on(h.publish(vec![1u8])).is_ok();
                    parts.push(format!("{p}:{}:{}", if live { 'L' } else { 'X' }, h.verif_guard_counter()));
                } else if matches!(ctl.th[i], Th::Finished) {
                    parts.push(format!("{p}:d"));
                } else {
                    parts.push(format!("{p}:?"));
                }
            }
            format!("{} | {} | sub={}", parts.join(" "), ctl.log.join(","), ctl.sess.is_some() as u8)
        }
    };

    // tear down without schedule control
    *EVENTS.lock().unwrap() = None;
    for t in ctl.th.iter_mut() {
        if let Th::Parked(_, r) = std::mem::replace(t, Th::Finished) {
            let _ = r.send(());
        }
    }
    ctl.queue.clear();
    ctl.kept.clear();
    drop(gossip);
    for j in joins {
        let _ = j.join();
    }
    actor_ref.stop(None);
    line
}

/// The same replay against the REAL gossip manager (iroh endpoint bound to an OS-chosen local
/// port, no peers): `real <flags> <label>*`.  The manager runs freely, i.e. it handles every
/// message as soon as it is sent (`M` labels are ignored).  Output:
/// `<thread>* | left=<number of GossipEvent::Left> | sub=<topic still registered for our node in the
/// address book>`; a kept handle is `L` when publishing through it keeps succeeding.
fn run_real(payload: &str) -> String {
    use p2panda_net::Endpoint;
    use p2panda_net::gossip::GossipEvent;
    let sh = shared();
    let mut tok = payload.split_whitespace();
    let flags: Vec<char> = tok.next().expect("flags").chars().collect();
    let labels: Vec<&str> = tok.collect();
    let n = flags.len();

    let (ev_tx, ev_rx) = channel::<Ev>();
    *EVENTS.lock().unwrap() = Some(ev_tx.clone());
    let built = sh.rt.block_on(async {
        let book = AddressBook::builder().spawn().await.map_err(|e| format!("{e:?}"))?;
        let endpoint = Endpoint::builder(book.clone()).spawn().await.map_err(|e| format!("{e:?}"))?;
        let gossip = Gossip::builder(book.clone(), endpoint.clone()).spawn().await.map_err(|e| format!("{e:?}"))?;
        let events = gossip.events().await.map_err(|e| format!("{e:?}"))?;
        Ok::<_, String>((book, endpoint, gossip, events))
    });
    let (book, endpoint, gossip, mut events) = match built {
        Ok(x) => x,
        Err(e) => return format!("SETUP {}", e.split(|c: char| !c.is_alphanumeric()).next().unwrap_or("")),
    };
    let topic: p2panda_core::Topic = [29u8; 32].into();

    let mut joins = Vec::new();
    for (i, f) in flags.iter().enumerate() {
        let gossip = gossip.clone();
        let tx = ev_tx.clone();
        let drop_after = *f == 'd';
        joins.push(std::thread::spawn(move || {
            TID.with(|t| t.set(Some(i)));
            let rt = tokio::runtime::Builder::new_current_thread().enable_all().build().expect("runtime");
            park("start");
            match rt.block_on(gossip.stream(topic)) {
                Err(e) => {
                    let _ = tx.send(Ev::Finished(i, Err(format!("{e:?}"))));
                }
                Ok(h) => {
                    if drop_after {
                        park("before_drop");
                        drop(h);
                        let _ = tx.send(Ev::Finished(i, Ok(None)));
                    } else {
                        let _ = tx.send(Ev::Finished(i, Ok(Some(h))));
                    }
                }
            }
            drop(gossip);
            TID.with(|t| t.set(None));
        }));
    }

    let mut ctl = Ctl {
        rx: ev_rx,
        th: (0..n).map(|_| Th::WaitingReply).collect(),
        path: vec!['-'; n],
        kept: (0..n).map(|_| None).collect(),
        errs: vec![None; n],
        queue: VecDeque::new(),
        sess: None,
        leaked: Vec::new(),
        keep_alive: Vec::new(),
        log: Vec::new(),
    };
    let step = |ctl: &mut Ctl, i: usize| -> Result<(), String> {
        let Th::Parked(_, resume) = std::mem::replace(&mut ctl.th[i], Th::WaitingReply) else { unreachable!() };
        let _ = resume.send(());
        loop {
            match ctl.next()? {
                Ev::Msg(_) => continue,
                ev => {
                    if ctl.note_thread(ev)? == i {
                        return Ok(());
                    }
                }
            }
        }
    };
    let outcome: Result<(), String> = (|| {
        let mut started = 0;
        while started < n {
            ctl.note_thread(ctl.next()?)?;
            started += 1;
        }
        for l in &labels {
            if *l == "M" {
                continue;
            }
            let i: usize = l.parse().map_err(|_| "BAD label".to_string())?;
            if i < n && ctl.enabled(i) {
                step(&mut ctl, i)?;
            }
        }
        while let Some(i) = (0..n).find(|i| ctl.enabled(*i)) {
            step(&mut ctl, i)?;
        }
        Ok(())
    })();

    let line = match outcome {
        Err(e) => e,
        Ok(()) => {
            std::thread::sleep(Duration::from_millis(300));
            let mut left = 0;
            while let Ok(ev) = events.try_recv() {
                if matches!(ev, GossipEvent::Left { .. }) {
                    left += 1;
                }
            }
            let mut parts = Vec::new();
            for i in 0..n {
                let p = ctl.path[i];
                if ctl.errs[i].is_some() {
                    parts.push(format!("{p}:E"));
                } else if let Some(h) = &ctl.kept[i] {
                    // a stopped session's listener still takes one message before it ends:
                    // publish twice
                    let live = sh.rt.block_on(async {
                        let a = h.publish(vec![1u8]).await.is_ok();
                        tokio::time::sleep(Duration::from_millis(200)).await;
                        a && h.publish(vec![2u8]).await.is_ok()
                    });
                    parts.push(format!("{p}:{}:{}", if live { 'L' } else { 'X' }, h.verif_guard_counter()));
                } else if matches!(ctl.th[i], Th::Finished) {
                    parts.push(format!("{p}:d"));
                } else {
                    parts.push(format!("{p}:?"));
                }
            }
            // the manager adds / removes the topic for our own node id on Subscribe / Unsubscribe
            let sub = sh.rt.block_on(async {
                match book.watch_node_topics(endpoint.node_id(), false).await {
                    Ok(mut rx) => match rx.recv().await {
                        Some(v) => if v.value.contains(&topic) { '1' } else { '0' },
                        None => '?',
                    },
                    Err(_) => '?',
                }
            });
            format!("{} | left={} | sub={}", parts.join(" "), left, sub)
        }
    };
    *EVENTS.lock().unwrap() = None;
    for t in ctl.th.iter_mut() {
        if let Th::Parked(_, r) = std::mem::replace(t, Th::Finished) {
            let _ = r.send(());
        }
    }
    ctl.kept.clear();
    drop(gossip);
    for j in joins {
        let _ = j.join();
    }
    line
}

/// Probe manager for the free-running races: applies the manager's session bookkeeping at once.
struct AutoProbe;

struct AutoState {
    sess: std::collections::HashMap<p2panda_core::Topic, mpsc::Receiver<Vec<u8>>>,
    leaked: Vec<mpsc::Receiver<Vec<u8>>>,
    keep_alive: Vec<broadcast::Sender<Vec<u8>>>,
    unsubs: std::sync::Arc<std::sync::atomic::AtomicUsize>,
}

impl Actor for AutoProbe {
    type Msg = ToGossipManager;
    type State = AutoState;
    type Arguments = std::sync::Arc<std::sync::atomic::AtomicUsize>;

    async fn pre_start(&self, _myself: ActorRef<Self::Msg>, args: Self::Arguments) -> Result<Self::State, ActorProcessingErr> {
        Ok(AutoState { sess: Default::default(), leaked: Vec::new(), keep_alive: Vec::new(), unsubs: args })
    }

    async fn handle(&self, _myself: ActorRef<Self::Msg>, message: Self::Msg, state: &mut Self::State) -> Result<(), ActorProcessingErr> {
        match message {
            ToGossipManager::Subscribe(topic, _nodes, reply) => {
                let (to_gossip_tx, to_gossip_rx) = mpsc::channel(128);
                let (from_gossip_tx, _) = broadcast::channel(128);
                if let Some(old) = state.sess.insert(topic, to_gossip_rx) {
                    state.leaked.push(old);
                }
                state.keep_alive.push(from_gossip_tx.clone());
                let _ = reply.send((to_gossip_tx, from_gossip_tx));
            }
            ToGossipManager::Unsubscribe(topic) => {
                drop(state.sess.remove(&topic));
                state.unsubs.fetch_add(1, std::sync::atomic::Ordering::SeqCst);
            }
            _ => {}
        }
        Ok(())
    }
}

/// Free-running race (no schedule control): `race <reps> <threads>`.  Per repetition (own topic):
/// one handle is created and dropped (the overlay is left, the entry in `senders` is dead), then
/// `<threads>` threads call the real `Gossip::stream` at the same time and keep their handles.
/// A repetition is bad when a returned handle is not backed by a session (publishing fails) or its
/// counter is 0.  Output: `race bad=<k>/<reps>`.
fn run_race(payload: &str) -> String {
    use std::sync::atomic::{AtomicUsize, Ordering};
    let sh = shared();
    let mut tok = payload.split_whitespace();
    let reps: usize = tok.next().and_then(|x| x.parse().ok()).unwrap_or(100);
    let nthreads: usize = tok.next().and_then(|x| x.parse().ok()).unwrap_or(2);
    let unsubs = std::sync::Arc::new(AtomicUsize::new(0));
    let (actor_ref, _join) = sh.rt.block_on(Actor::spawn(None, AutoProbe, unsubs.clone())).expect("probe actor");
    let my_id = SigningKey::from_bytes(&[7u8; 32]).verifying_key();
    let gossip = Gossip::verif_new(actor_ref.clone(), my_id, sh.book.clone(), GossipConfig::default());
    let mut bad = 0usize;
    for rep in 0..reps {
        let mut bytes = [0u8; 32];
        bytes[..8].copy_from_slice(&(rep as u64).to_le_bytes());
        bytes[31] = 29;
        let topic: p2panda_core::Topic = bytes.into();
        match sh.rt.block_on(gossip.stream(topic)) {
            Ok(h) => drop(h),
            Err(_) => return "race SETUP".into(),
        }
        let t0 = std::time::Instant::now();
        while unsubs.load(Ordering::SeqCst) < rep + 1 {
            if t0.elapsed() > STEP_TIMEOUT {
                return "race STUCK".into();
            }
            std::thread::yield_now();
        }
        let barrier = std::sync::Arc::new(std::sync::Barrier::new(nthreads));
        let joins: Vec<_> = (0..nthreads)
            .map(|_| {
                let gossip = gossip.clone();
                let barrier = barrier.clone();
                std::thread::spawn(move || {
                    let rt = tokio::runtime::Builder::new_current_thread().enable_all().build().expect("runtime");
                    barrier.wait();
                    rt.block_on(gossip.stream(topic)).ok()
                })
            })
            .collect();
        let handles: Vec<Option<GossipHandle>> = joins.into_iter().map(|j| j.join().ok().flatten()).collect();
        let mut rep_bad = false;
        for h in &handles {
            match h {
                None => rep_bad = true,
                Some(h) => {
                    if h.verif_guard_counter() == 0 || sh.rt.block_on(h.publish(vec![1u8])).is_err() {
                        rep_bad = true;
                    }
                }
            }
        }
        if rep_bad {
            bad += 1;
        }
        // keep the handles: dropping them would add the (known) late-Unsubscribe overlaps
        std::mem::forget(handles);
    }
    drop(gossip);
    actor_ref.stop(None);
    format!("race bad={bad}/{reps}")
}

pub fn main() {
    h_common::run_cases(|payload| {
        if let Some(rest) = payload.strip_prefix("real ") {
            run_real(rest)
        } else if let Some(rest) = payload.strip_prefix("race ") {
            run_race(rest)
        } else {
            run_case(payload)
        }
    });
}
