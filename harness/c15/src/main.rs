//! C15: crash / restart histories on a real `Node` with a file-backed database.
//!
//! Case payload (tokens separated by blanks):
//!   `<crash d|a> <me_rank> <n_authors> F<id>:<author>:<seq>:<n|b|x>:<0|1> ... | <seg> | <seg> ...`
//! A segment is `<policy E|A> <op> ...`; every segment is one life of the node: spawn on the same
//! database and signing key, open the topic stream from the frontier, consume the whole replay,
//! run the ops (each awaited), crash.  The last segment runs no ops and is not crashed.
//!   `P<id>:<wb>:<pr>`  publish (wb=1,pr=0), prune(Some) (1,1), prune(None) (0,1)
//!   `I<id>,<id>..`     import a stream of the listed foreign operations
//!   `A<id>`            `StreamSubscription::ack(hash)`
//!   `K<id>`            `ProcessedOperation::ack()` on an event received earlier in this session
//!   `O<id>`            publish on a second topic of the same node
//!   `J<j|s>:<K|A><id>.<K|A><id>..:<i.i.i..|free>`
//!                      all listed acknowledgements in flight at once (`K`: `ProcessedOperation::ack()`
//!                      of a held event, skipped when not held; `A`: `StreamSubscription::ack(hash)`),
//!                      `join_all` on the session's current-thread runtime (j) or one task each on a
//!                      multi-thread runtime (s); the label list decides which call passes its next
//!                      schedule point inside `Acked::ack` (`../c07/src/sched.rs`), `free` = no gates
//!   `p<id>:<wb>:<pr>:<y>`  publish, do not wait for processing, yield y times, crash (last op only)
//!   `i<y>:<id>,<id>..`     import, do not wait, yield y times, crash (last op only)
//!   `r<j>`             (whole segment) consume only j >= 1 replay events, then crash
//! crash `d`: the segment runs in this process on its own runtime which is dropped;
//! crash `a`: the segment runs in a child process (`h_c15 seg ...`) that calls `abort()`.
//!
//! Observation per segment: `D # T<total> E[..] # D' # O[..]` where D / D' are the tables read
//! with raw SQL from the database file before the node starts / after the replay ended
//! (`R[id:author:log:seq:body:prune,..] A[author:log,..] C[author:log=height,..]`), E the
//! `Processed`/`DecodeFailed` events before `ReplayEnded`, O the events seen while running the
//! ops.  The final segment is printed as `ALT{D # T E # D'}`.  After ` @@ ` follow the facts the
//! oracle needs: acknowledgements that returned, publishes that returned, acks attempted.
use std::collections::{BTreeMap, HashMap};
use std::io::{BufRead, Write};
use std::path::{Path, PathBuf};
use std::time::Duration;

use futures_util::StreamExt;
use p2panda::network::MdnsDiscoveryMode;
use p2panda::node::AckPolicy;
use p2panda::operation::{Extensions, Header, LogId, Operation};
use p2panda::streams::{ProcessedOperation, StreamEvent, StreamPublisher, StreamSubscription};
use p2panda_core::cbor::{decode_cbor, encode_cbor};
use p2panda_core::{Body, Cursor, Hash, SigningKey, Topic, VerifyingKey};
use sqlx::Row;
use sqlx::sqlite::{SqliteConnectOptions, SqlitePoolOptions};

#[path = "../../c07/src/sched.rs"]
mod sched;

const STEP_TIMEOUT: Duration = Duration::from_secs(180);

fn multi_runtime() -> &'static tokio::runtime::Runtime {
    static RT: std::sync::OnceLock<tokio::runtime::Runtime> = std::sync::OnceLock::new();
    RT.get_or_init(|| {
        tokio::runtime::Builder::new_multi_thread().worker_threads(2).enable_all().build().expect("multi-thread runtime")
    })
}

#[derive(Clone, Debug)]
struct RowInfo {
    id: u64,
    author: usize,
    log: u8,
    seq: u64,
    body: char,
    prune: bool,
}

impl RowInfo {
    fn show(&self) -> String {
        format!("{}:{}:{}:{}:{}:{}", self.id, self.author, self.log, self.seq, self.body, self.prune as u8)
    }
}

/// Everything that has to survive from one segment to the next (and from a child to its parent).
struct World {
    dir: PathBuf,
    keys: Vec<SigningKey>, // sorted by verifying key: index = author rank
    me: usize,
    topic: Topic,
    other: Topic,
    network: [u8; 32],
    foreign: HashMap<u64, Operation>, // id -> operation
    known: HashMap<String, RowInfo>,  // hash hex -> info (as known when created)
}

impl World {
    fn url(&self) -> String {
        format!("sqlite://{}/db.sqlite", self.dir.display())
    }
    fn rank(&self, vk: &VerifyingKey) -> usize {
        self.keys.iter().position(|k| &k.verifying_key() == vk).unwrap_or(99)
    }
}

fn parse_bool(s: &str) -> bool {
    s == "1"
}

fn build_foreign(w: &mut World, specs: &[(u64, usize, u64, char, bool)]) {
    // per author: contiguous honest log, sequence numbers as declared
    let mut per: BTreeMap<usize, Vec<(u64, u64, char, bool)>> = BTreeMap::new();
    for (id, a, seq, b, pr) in specs {
        per.entry(*a).or_default().push((*seq, *id, *b, *pr));
    }
    for (a, mut ops) in per {
        ops.sort();
        let key = w.keys[a].clone();
        let mut backlink: Option<Hash> = None;
        for (i, (seq, id, b, pr)) in ops.iter().enumerate() {
            assert_eq!(*seq as usize, i, "foreign log must be contiguous from 0");
            let body: Option<Body> = match b {
                'n' => None,
                'b' => Some(Body::new(&encode_cbor(&format!("m{id}")).unwrap())),
                _ => Some(Body::new(&encode_cbor(&(1000u64 + id)).unwrap())),
            };
            let extensions = Extensions::from_topic(w.topic).set_prune_flag(*pr);
            let mut header = Header {
                version: 1,
                verifying_key: key.verifying_key(),
                signature: None,
                payload_size: body.as_ref().map(|b| b.size()).unwrap_or(0),
                payload_hash: body.as_ref().map(|b| b.hash()),
                seq_num: *seq as u32,
                backlink,
                extensions,
            };
            header.sign(&key);
            let hash = header.hash();
            backlink = Some(hash);
            w.known.insert(
                hash.to_hex(),
                RowInfo { id: *id, author: a, log: 0, seq: *seq, body: *b, prune: *pr },
            );
            w.foreign.insert(*id, Operation { hash, header, body });
        }
    }
}

// ---------------------------------------------------------------------------------------------
// Raw view of the database file
// ---------------------------------------------------------------------------------------------

async fn read_tables(w: &World) -> String {
    let path = w.dir.join("db.sqlite");
    if !path.exists() {
        return "R[] A[] C[]".to_string();
    }
    let opts = SqliteConnectOptions::new().filename(&path).create_if_missing(false);
    let pool = SqlitePoolOptions::new().max_connections(1).connect_with(opts).await.expect("raw pool");
    let log0 = encode_cbor(&LogId::from_topic(w.topic)).unwrap();
    let log1 = encode_cbor(&LogId::from_topic(w.other)).unwrap();

    let mut rows: Vec<(usize, u8, u64, String)> = Vec::new();
    let has_ops: Option<String> =
        sqlx::query_scalar("SELECT name FROM sqlite_master WHERE type='table' AND name='operations_v1'")
            .fetch_optional(&pool)
            .await
            .unwrap();
    if has_ops.is_none() {
        pool.close().await;
        return "R[] A[] C[]".to_string();
    }
    for r in sqlx::query("SELECT hash, verifying_key, log_id, seq_num, body FROM operations_v1")
        .fetch_all(&pool)
        .await
        .unwrap()
    {
        let hash: String = r.get(0);
        let vk: String = r.get(1);
        let log_id: Vec<u8> = r.get(2);
        let seq: i64 = r.get(3);
        let body: Option<Vec<u8>> = r.get(4);
        let author = vk.parse::<VerifyingKey>().map(|k| w.rank(&k)).unwrap_or(99);
        let log = if log_id == log0 { 0 } else if log_id == log1 { 1 } else { 9 };
        let b = match body {
            None => 'n',
            Some(bytes) => {
                if decode_cbor::<String, _>(&bytes[..]).is_ok() { 'b' } else { 'x' }
            }
        };
        let (id, prune) = match w.known.get(&hash) {
            Some(k) => (k.id.to_string(), k.prune as u8),
            None => ("?".to_string(), 9),
        };
        rows.push((author, log, seq as u64, format!("{id}:{author}:{log}:{seq}:{b}:{prune}")));
    }
    rows.sort();

    let mut assoc: Vec<(usize, u8)> = Vec::new();
    for r in sqlx::query("SELECT author, data_id FROM topics_v1 WHERE topic = ?")
        .bind(encode_cbor(&w.topic).unwrap())
        .fetch_all(&pool)
        .await
        .unwrap()
    {
        let a: String = r.get(0);
        let d: Vec<u8> = r.get(1);
        let author = a.parse::<VerifyingKey>().map(|k| w.rank(&k)).unwrap_or(99);
        let log = if d == log0 { 0 } else if d == log1 { 1 } else { 9 };
        assoc.push((author, log));
    }
    assoc.sort();

    let mut cur: Vec<(usize, u8, u32)> = Vec::new();
    let bytes: Option<Vec<u8>> = sqlx::query_scalar("SELECT cursor FROM cursors_v1 WHERE name = ?")
        .bind(w.topic.to_string())
        .fetch_optional(&pool)
        .await
        .unwrap();
    if let Some(bytes) = bytes {
        let c: Cursor<VerifyingKey, LogId> = decode_cbor(&bytes[..]).expect("cursor decodes");
        let l0 = LogId::from_topic(w.topic);
        let l1 = LogId::from_topic(w.other);
        for (a, logs) in c.state() {
            for (l, h) in logs {
                let log = if *l == l0 { 0 } else if *l == l1 { 1 } else { 9 };
                cur.push((w.rank(a), log, *h));
            }
        }
    }
    cur.sort();
    pool.close().await;

    format!(
        "R[{}] A[{}] C[{}]",
        rows.iter().map(|r| r.3.clone()).collect::<Vec<_>>().join(","),
        assoc.iter().map(|(a, l)| format!("{a}:{l}")).collect::<Vec<_>>().join(","),
        cur.iter().map(|(a, l, h)| format!("{a}:{l}={h}")).collect::<Vec<_>>().join(",")
    )
}

// ---------------------------------------------------------------------------------------------
// One life of the node
// ---------------------------------------------------------------------------------------------

struct SegOut {
    text: String,               // observation of this segment
    hashes: Vec<(String, RowInfo)>, // operations created by publishes in this segment
    acked: Vec<RowInfo>,
    stored: Vec<RowInfo>,
    attempted: Vec<RowInfo>,
}

struct Live {
    tx: StreamPublisher<String>,
    rx: StreamSubscription<String>,
    next_import: u64,
}

fn ev_name(w: &World, ev: &StreamEvent<String>) -> Option<(String, Option<ProcessedOperation<String>>)> {
    let id_of = |h: Hash| w.known.get(&h.to_hex()).map(|k| k.id.to_string()).unwrap_or("?".into());
    match ev {
        StreamEvent::Processed { operation, .. } => Some((format!("P:{}", id_of(operation.id())), Some(operation.clone()))),
        StreamEvent::DecodeFailed { event, .. } => {
            use p2panda_core::traits::Digest;
            Some((format!("D:{}", id_of(event.hash())), None))
        }
        StreamEvent::ProcessingFailed { event, .. } => {
            use p2panda_core::traits::Digest;
            Some((format!("F:{}", id_of(event.hash())), None))
        }
        StreamEvent::AckFailed { event, .. } => {
            use p2panda_core::traits::Digest;
            Some((format!("AF:{}", id_of(event.hash())), None))
        }
        StreamEvent::ReplayFailed { .. } => Some(("RF".to_string(), None)),
        _ => None,
    }
}

/// Import an empty stream (after the optional `pre` stream was imported and processed) and read
/// events until its `ImportEnded`: everything the stream task handled before is then through.
/// The imports are issued from a separate task so that this one keeps draining the
/// subscription (the application channel holds only 16 events).  Returns the named events seen.
async fn barrier(
    w: &World,
    live: &mut Live,
    held: &mut HashMap<u64, ProcessedOperation<String>>,
    limit: Option<usize>,
    pre: Option<Vec<Operation>>,
) -> (Vec<String>, Option<u32>, bool) {
    let tx = live.tx.clone();
    let sid = live.next_import + if pre.is_some() { 1 } else { 0 };
    live.next_import = sid + 1;
    let handle = tokio::spawn(async move {
        if let Some(ops) = pre {
            let f = tx.import(futures_util::stream::iter(ops)).await.expect("import");
            let _ = f.await;
        }
        let f = tx.import(futures_util::stream::iter(Vec::<Operation>::new())).await.expect("barrier import");
        let _ = f.await;
    });
    let mut names = Vec::new();
    let mut total = None;
    let mut replay_events = 0usize;
    let mut cut = false;
    loop {
        let ev = tokio::time::timeout(STEP_TIMEOUT, live.rx.next()).await.expect("event in time").expect("stream open");
        match &ev {
            StreamEvent::ReplayStarted { total_operations } => total = Some(*total_operations),
            StreamEvent::ImportEnded { session_id } if *session_id == sid => break,
            _ => {}
        }
        if let Some((name, held_op)) = ev_name(w, &ev) {
            if let Some(op) = held_op {
                if let Some(k) = w.known.get(&op.id().to_hex()) {
                    held.insert(k.id, op);
                }
            }
            if name.starts_with("P:") || name.starts_with("D:") {
                replay_events += 1;
            }
            names.push(name);
        }
        if let Some(l) = limit {
            if replay_events >= l {
                cut = true;
                break;
            }
        }
    }
    if !cut {
        let _ = tokio::time::timeout(STEP_TIMEOUT, handle).await.expect("barrier task in time");
    }
    (names, total, cut)
}

async fn run_segment(w: &mut World, seg_idx: usize, spec: &str, is_last: bool) -> SegOut {
    let mut out = SegOut { text: String::new(), hashes: vec![], acked: vec![], stored: vec![], attempted: vec![] };
    let toks: Vec<&str> = spec.split_whitespace().collect();
    let policy = if toks[0] == "A" { AckPolicy::Automatic } else { AckPolicy::Explicit };
    let ops = &toks[1..];
    let partial: Option<usize> = ops.first().and_then(|t| t.strip_prefix('r')).map(|j| j.parse().unwrap());

    let before = read_tables(w).await;

    // Opening the stream only reads; under heavy machine load the freshly spawned network actors
    // occasionally refuse the first request, so spawning + opening is retried (no durable effect).
    let mut attempt = 0;
    let (node, tx, rx) = loop {
        attempt += 1;
        let node = p2panda::builder()
            .database_url(&w.url())
            .signing_key(w.keys[w.me].clone())
            .ack_policy(policy)
            .mdns_mode(MdnsDiscoveryMode::Disabled)
            .network_id(w.network)
            .spawn()
            .await;
        let err = match node {
            Ok(node) => match node.stream::<String>(w.topic).await {
                Ok((tx, rx)) => break (node, tx, rx),
                Err(e) => format!("{e:?}"),
            },
            Err(e) => format!("{e:?}"),
        };
        if attempt >= 8 {
            panic!("node/stream could not be started: {err}");
        }
        tokio::time::sleep(Duration::from_millis(250 * attempt)).await;
    };
    let mut live = Live { tx, rx, next_import: 0 };
    let mut held: HashMap<u64, ProcessedOperation<String>> = HashMap::new();

    // 1. the replay
    let (names, total, cut) = barrier(w, &mut live, &mut held, partial, None).await;
    let replay: Vec<String> = names.iter().filter(|n| n.starts_with("P:") || n.starts_with("D:")).cloned().collect();
    let odd: Vec<String> = names.iter().filter(|n| !(n.starts_with("P:") || n.starts_with("D:"))).cloned().collect();
    let replay_txt = format!("T{} E[{}]{}", total.unwrap_or(0), replay.join(","), if odd.is_empty() { String::new() } else { format!(" ODD[{}]", odd.join(",")) });
    if policy == AckPolicy::Automatic {
        for n in &replay {
            if let Some(idtxt) = n.strip_prefix("P:") {
                if let Some(k) = w.known.values().find(|k| k.id.to_string() == idtxt) {
                    out.acked.push(k.clone());
                }
            }
        }
    }
    if partial.is_some() {
        let _ = cut;
        out.text = format!("{before} # {replay_txt}");
        // crash now: the caller drops the node with its runtime / the child aborts
        return out;
    }
    let after = read_tables(w).await;
    if is_last {
        out.text = format!("ALT{{{before} # {replay_txt} # {after}}}");
        return out;
    }

    // 2. the ops
    let mut seen: Vec<String> = Vec::new();
    let mut other: Option<(StreamPublisher<String>, StreamSubscription<String>)> = None;
    let mut own_seq = w.known.values().filter(|k| k.author == w.me && k.log == 0).count() as u64;
    let mut other_seq = w.known.values().filter(|k| k.author == w.me && k.log == 1).count() as u64;
    for t in ops {
        let (kind, rest) = t.split_at(1);
        match kind {
            "P" | "p" => {
                let f: Vec<&str> = rest.split(':').collect();
                let id: u64 = f[0].parse().unwrap();
                let (wb, pr) = (parse_bool(f[1]), parse_bool(f[2]));
                let msg = format!("m{id}");
                let fut = if pr {
                    live.tx.prune(if wb { Some(msg) } else { None }).await
                } else {
                    live.tx.publish(msg).await
                }
                .expect("publish");
                let info = RowInfo { id, author: w.me, log: 0, seq: own_seq, body: if wb { 'b' } else { 'n' }, prune: pr };
                own_seq += 1;
                w.known.insert(fut.hash().to_hex(), info.clone());
                out.hashes.push((fut.hash().to_hex(), info.clone()));
                out.stored.push(info.clone());
                if kind == "p" {
                    let y: usize = f[3].parse().unwrap();
                    for _ in 0..y {
                        tokio::task::yield_now().await;
                        tokio::time::sleep(Duration::from_micros(200)).await;
                    }
                    drop(fut);
                    break;
                }
                tokio::time::timeout(STEP_TIMEOUT, fut).await.expect("processed in time").expect("processed");
                let (names, _, _) = barrier(w, &mut live, &mut held, None, None).await;
                if policy == AckPolicy::Automatic && names.iter().any(|n| n == &format!("P:{id}")) {
                    out.acked.push(info.clone());
                }
                seen.extend(names);
            }
            "I" | "i" => {
                let (y, list) = if kind == "i" {
                    let (a, b) = rest.split_once(':').unwrap();
                    (Some(a.parse::<usize>().unwrap()), b)
                } else {
                    (None, rest)
                };
                let ids: Vec<u64> = list.split(',').filter(|s| !s.is_empty()).map(|s| s.parse().unwrap()).collect();
                let opsv: Vec<Operation> = ids.iter().map(|i| w.foreign[i].clone()).collect();
                if let Some(y) = y {
                    let fut = live.tx.import(futures_util::stream::iter(opsv)).await.expect("import");
                    live.next_import += 1;
                    for _ in 0..y {
                        tokio::task::yield_now().await;
                        tokio::time::sleep(Duration::from_micros(200)).await;
                    }
                    drop(fut);
                    break;
                }
                let (names, _, _) = barrier(w, &mut live, &mut held, None, Some(opsv)).await;
                if policy == AckPolicy::Automatic {
                    for i in &ids {
                        if names.iter().any(|n| n == &format!("P:{i}")) {
                            let h = w.foreign[i].hash.to_hex();
                            out.acked.push(w.known[&h].clone());
                        }
                    }
                }
                seen.extend(names);
            }
            "A" | "K" => {
                let id: u64 = rest.parse().unwrap();
                let found = w.known.iter().find(|(_, k)| k.id == id).map(|(h, k)| (h.clone(), k.clone()));
                if let Some((hex, info)) = found {
                    let hash: Hash = hex.parse().expect("hash");
                    if kind == "K" && held.contains_key(&id) {
                        out.attempted.push(info.clone());
                        held[&id].ack().await.expect("held ack");
                        out.acked.push(info.clone());
                    } else if kind == "A" {
                        use p2panda_store::operations::OperationStore;
                        let present = OperationStore::<Operation, Hash>::has_operation(&node.store(), &hash).await.unwrap_or(false);
                        out.attempted.push(info.clone());
                        live.rx.ack(hash).await.expect("ack");
                        if present {
                            out.acked.push(info.clone());
                        }
                    }
                }
            }
            "J" => {
                let f: Vec<&str> = rest.split(':').collect();
                let spawn = f[0] == "s";
                let entries: Vec<(char, u64)> = f[1]
                    .split('.')
                    .filter(|e| !e.is_empty())
                    .map(|e| (e.chars().next().unwrap(), e[1..].parse().unwrap()))
                    .collect();
                let labels: Option<Vec<usize>> = if f[2] == "free" {
                    None
                } else {
                    Some(f[2].split('.').filter(|x| !x.is_empty()).map(|x| x.parse().unwrap()).collect())
                };
                let ctl = sched::Ctl::new(entries.len(), labels.is_some());
                sched::set_current(Some(ctl.clone()));
                let mut infos: Vec<Option<RowInfo>> = Vec::new();
                let mut local = Vec::new();
                let mut handles = Vec::new();
                for (i, (kind, id)) in entries.iter().enumerate() {
                    let found = w.known.iter().find(|(_, k)| k.id == *id).map(|(h, k)| (h.clone(), k.clone()));
                    let mut info: Option<RowInfo> = None;
                    if *kind == 'K' {
                        let op = held.get(id).cloned();
                        if op.is_some() {
                            info = found.map(|x| x.1);
                        }
                        let fut = ctl.wrap(i, async move {
                            match op {
                                Some(op) => match op.ack().await {
                                    Ok(()) => "ok".to_string(),
                                    Err(e) => format!("err {e:?}"),
                                },
                                None => "skip".to_string(),
                            }
                        });
                        if spawn {
                            handles.push(multi_runtime().spawn(fut));
                        } else {
                            local.push(Box::pin(fut) as std::pin::Pin<Box<dyn std::future::Future<Output = ()> + '_>>);
                        }
                    } else {
                        assert!(!spawn, "A entries are not supported on the multi-thread runtime");
                        let target: Option<Hash> = match &found {
                            Some((hex, k)) => {
                                use p2panda_store::operations::OperationStore;
                                let hash: Hash = hex.parse().expect("hash");
                                let present = OperationStore::<Operation, Hash>::has_operation(&node.store(), &hash).await.unwrap_or(false);
                                out.attempted.push(k.clone());
                                if present {
                                    info = Some(k.clone());
                                }
                                Some(hash)
                            }
                            None => None,
                        };
                        let rx = &live.rx;
                        let fut = ctl.wrap(i, async move {
                            match target {
                                Some(hash) => match rx.ack(hash).await {
                                    Ok(()) => "ok".to_string(),
                                    Err(e) => format!("err {e:?}"),
                                },
                                None => "skip".to_string(),
                            }
                        });
                        local.push(Box::pin(fut) as std::pin::Pin<Box<dyn std::future::Future<Output = ()> + '_>>);
                    }
                    if *kind == 'K' {
                        if let Some(k) = &info {
                            out.attempted.push(k.clone());
                        }
                    }
                    infos.push(info);
                }
                let controller = async {
                    let mut odd: Vec<String> = Vec::new();
                    if let Some(labels) = &labels {
                        if !ctl.ready().await {
                            odd.push("J:NOTREADY".to_string());
                        }
                        for i in labels {
                            ctl.label(*i).await;
                            if ctl.stuck() {
                                odd.push(format!("J:STUCK:{}", ctl.letters()));
                                break;
                            }
                        }
                    }
                    ctl.open();
                    if !ctl.all_done().await {
                        odd.push(format!("J:HUNG:{}", ctl.letters()));
                    }
                    odd
                };
                let (odd, _) = tokio::join!(controller, futures_util::future::join_all(local));
                for h in handles {
                    let _ = tokio::time::timeout(Duration::from_secs(5), h).await;
                }
                sched::set_current(None);
                for (r, info) in ctl.results().iter().zip(infos.iter()) {
                    match (r.as_str(), info) {
                        ("ok", Some(k)) => out.acked.push(k.clone()),
                        ("ok", None) | ("skip", _) => {}
                        (other, _) => seen.push(format!("J:{}", other.replace(' ', "_").replace(',', "_"))),
                    }
                }
                seen.extend(odd);
            }
            "O" => {
                let id: u64 = rest.parse().unwrap();
                if other.is_none() {
                    other = Some(node.stream::<String>(w.other).await.expect("other stream"));
                }
                let (otx, orx) = other.as_mut().unwrap();
                let fut = otx.publish(format!("o{id}")).await.expect("other publish");
                let info = RowInfo { id, author: w.me, log: 1, seq: other_seq, body: 'b', prune: false };
                other_seq += 1;
                w.known.insert(fut.hash().to_hex(), info.clone());
                out.hashes.push((fut.hash().to_hex(), info));
                tokio::time::timeout(STEP_TIMEOUT, fut).await.expect("processed in time").expect("processed");
                // wait for its event so that the automatic ack of the other topic is through
                loop {
                    let ev = tokio::time::timeout(STEP_TIMEOUT, orx.next()).await.expect("event").expect("open");
                    if let StreamEvent::Processed { .. } = ev {
                        break;
                    }
                }
            }
            _ => panic!("unknown op {t}"),
        }
    }
    out.text = format!("{before} # {replay_txt} # {after} # O[{}]", seen.join(","));
    // crash: the caller drops the node with its runtime / the child aborts
    out
}

fn show_facts(seg: usize, v: &[RowInfo]) -> String {
    v.iter().map(|r| format!("{seg}:{}", r.show())).collect::<Vec<_>>().join(",")
}

// ---------------------------------------------------------------------------------------------
// World (de)serialisation for the child process
// ---------------------------------------------------------------------------------------------

fn world_to_line(w: &World) -> String {
    let keys: Vec<String> = w.keys.iter().map(|k| k.to_hex()).collect();
    let known: Vec<String> = w.known.iter().map(|(h, k)| format!("{h}={}", k.show())).collect();
    format!(
        "{} {} {} {} {} {} {}",
        w.dir.display(),
        keys.join(","),
        w.me,
        w.topic.to_string(),
        w.other.to_string(),
        w.network.iter().map(|b| format!("{b:02x}")).collect::<String>(),
        if known.is_empty() { "-".to_string() } else { known.join(",") }
    )
}

fn parse_info(s: &str) -> RowInfo {
    let f: Vec<&str> = s.split(':').collect();
    RowInfo {
        id: f[0].parse().unwrap(),
        author: f[1].parse().unwrap(),
        log: f[2].parse().unwrap(),
        seq: f[3].parse().unwrap(),
        body: f[4].chars().next().unwrap(),
        prune: f[5] == "1",
    }
}

fn world_from_line(line: &str, fspecs: &[(u64, usize, u64, char, bool)]) -> World {
    let f: Vec<&str> = line.split(' ').collect();
    let keys: Vec<SigningKey> = f[1]
        .split(',')
        .map(|h| {
            let bytes: Vec<u8> = (0..h.len() / 2).map(|i| u8::from_str_radix(&h[2 * i..2 * i + 2], 16).unwrap()).collect();
            SigningKey::from_bytes(&bytes.try_into().expect("32 bytes"))
        })
        .collect();
    let mut network = [0u8; 32];
    for i in 0..32 {
        network[i] = u8::from_str_radix(&f[5][2 * i..2 * i + 2], 16).unwrap();
    }
    let mut w = World {
        dir: PathBuf::from(f[0]),
        keys,
        me: f[2].parse().unwrap(),
        topic: f[3].parse().expect("topic"),
        other: f[4].parse().expect("topic"),
        network,
        foreign: HashMap::new(),
        known: HashMap::new(),
    };
    let _ = fspecs;
    // the operations themselves (their headers carry a creation timestamp) come from the file the
    // parent wrote next to the database
    if let Ok(txt) = std::fs::read_to_string(w.dir.join("foreign.txt")) {
        for line in txt.lines() {
            let p: Vec<&str> = line.split(' ').collect();
            let id: u64 = p[0].parse().unwrap();
            let header: Header = decode_cbor(&unhex(p[1])[..]).expect("header decodes");
            let body = if p[2] == "-" { None } else { Some(Body::new(&unhex(p[2]))) };
            let hash = header.hash();
            w.foreign.insert(id, Operation { hash, header, body });
        }
    }
    if f[6] != "-" {
        for kv in f[6].split(',') {
            let (h, v) = kv.split_once('=').unwrap();
            w.known.insert(h.to_string(), parse_info(v));
        }
    }
    w
}

fn unhex(h: &str) -> Vec<u8> {
    (0..h.len() / 2).map(|i| u8::from_str_radix(&h[2 * i..2 * i + 2], 16).unwrap()).collect()
}

fn hex(b: &[u8]) -> String {
    b.iter().map(|x| format!("{x:02x}")).collect()
}

fn write_foreign(w: &World) {
    let mut txt = String::new();
    for (id, op) in &w.foreign {
        txt.push_str(&format!(
            "{} {} {}\n",
            id,
            hex(&op.header.to_bytes()),
            op.body.as_ref().map(|b| hex(b.as_bytes())).unwrap_or("-".to_string())
        ));
    }
    std::fs::write(w.dir.join("foreign.txt"), txt).expect("foreign.txt");
}

fn parse_fspecs(head: &str) -> (char, usize, usize, Vec<(u64, usize, u64, char, bool)>) {
    let toks: Vec<&str> = head.split_whitespace().collect();
    let crash = toks[0].chars().next().unwrap();
    let me: usize = toks[1].parse().unwrap();
    let n: usize = toks[2].parse().unwrap();
    let mut specs = Vec::new();
    for t in &toks[3..] {
        let f: Vec<&str> = t[1..].split(':').collect();
        specs.push((f[0].parse().unwrap(), f[1].parse().unwrap(), f[2].parse().unwrap(), f[3].chars().next().unwrap(), f[4] == "1"));
    }
    (crash, me, n, specs)
}

fn segment_in_process(w: &mut World, idx: usize, spec: &str, is_last: bool) -> SegOut {
    let rt = tokio::runtime::Builder::new_current_thread().enable_all().build().expect("runtime");
    let out = rt.block_on(run_segment(w, idx, spec, is_last));
    // dropping the runtime kills every task of the node without any orderly shutdown
    rt.shutdown_timeout(Duration::from_millis(0));
    out
}

fn facts_line(idx: usize, o: &SegOut) -> String {
    format!(
        "acked={} stored={} attempted={} hashes={}",
        show_facts(idx, &o.acked),
        show_facts(idx, &o.stored),
        show_facts(idx, &o.attempted),
        o.hashes.iter().map(|(h, k)| format!("{h}={}", k.show())).collect::<Vec<_>>().join(",")
    )
}

fn segment_in_child(w: &mut World, idx: usize, head: &str, spec: &str) -> SegOut {
    let exe = std::env::current_exe().expect("exe");
    let mut child = std::process::Command::new(exe)
        .arg("seg")
        .stdin(std::process::Stdio::piped())
        .stdout(std::process::Stdio::piped())
        .stderr(std::process::Stdio::null())
        .spawn()
        .expect("child");
    {
        let mut stdin = child.stdin.take().unwrap();
        writeln!(stdin, "{}", world_to_line(w)).unwrap();
        writeln!(stdin, "{head}").unwrap();
        writeln!(stdin, "{idx} {spec}").unwrap();
    }
    let outp = child.wait_with_output().expect("child output");
    let text = String::from_utf8_lossy(&outp.stdout).to_string();
    let mut out = SegOut { text: String::new(), hashes: vec![], acked: vec![], stored: vec![], attempted: vec![] };
    let mut got = false;
    for line in text.lines() {
        if let Some(t) = line.strip_prefix("TEXT ") {
            out.text = t.to_string();
            got = true;
        } else if let Some(t) = line.strip_prefix("FACTS ") {
            for part in t.split(' ') {
                let (k, v) = part.split_once('=').unwrap();
                if v.is_empty() {
                    continue;
                }
                match k {
                    "hashes" => {
                        for kv in v.split(',') {
                            let (h, i) = kv.split_once('=').unwrap();
                            let info = parse_info(i);
                            w.known.insert(h.to_string(), info.clone());
                            out.hashes.push((h.to_string(), info));
                        }
                    }
                    _ => {
                        for item in v.split(',') {
                            let (_, i) = item.split_once(':').unwrap();
                            let info = parse_info(i);
                            match k {
                                "acked" => out.acked.push(info),
                                "stored" => out.stored.push(info),
                                _ => out.attempted.push(info),
                            }
                        }
                    }
                }
            }
        }
    }
    if !got {
        panic!("child gave no observation (status {:?}): {}", outp.status, text.replace('\n', " / "));
    }
    // the child must have died from abort(), not exited
    if outp.status.success() {
        panic!("child exited normally");
    }
    out
}

fn child_main() {
    let stdin = std::io::stdin();
    let mut lines = stdin.lock().lines();
    let wl = lines.next().unwrap().unwrap();
    let head = lines.next().unwrap().unwrap();
    let segl = lines.next().unwrap().unwrap();
    let (_, _, _, fspecs) = parse_fspecs(&head);
    let mut w = world_from_line(&wl, &fspecs);
    let (idx, spec) = segl.split_once(' ').unwrap();
    let idx: usize = idx.parse().unwrap();
    let rt = tokio::runtime::Builder::new_current_thread().enable_all().build().expect("runtime");
    let out = rt.block_on(run_segment(&mut w, idx, spec, false));
    let stdout = std::io::stdout();
    let mut o = stdout.lock();
    writeln!(o, "TEXT {}", out.text).unwrap();
    writeln!(o, "FACTS {}", facts_line(idx, &out)).unwrap();
    o.flush().unwrap();
    std::process::abort();
}

/// Infrastructure hiccups (a step that does not finish in time on an overloaded machine, a node
/// that cannot be started) surface as panics of the harness itself; the case is then run again on
/// a fresh database, and only a panic that repeats is reported.  Observations that differ from the
/// model never take this path: they are returned, not panicked.
fn run_case(payload: &str) -> String {
    let mut last = String::new();
    for _ in 0..3 {
        match std::panic::catch_unwind(std::panic::AssertUnwindSafe(|| run_case_once(payload))) {
            Ok(s) => return s,
            Err(e) => {
                last = if let Some(s) = e.downcast_ref::<&str>() {
                    s.to_string()
                } else if let Some(s) = e.downcast_ref::<String>() {
                    s.clone()
                } else {
                    "?".to_string()
                };
            }
        }
    }
    panic!("{last}");
}

fn run_case_once(payload: &str) -> String {
    let parts: Vec<&str> = payload.split('|').map(|s| s.trim()).collect();
    let head = parts[0];
    let (crash, me, n, fspecs) = parse_fspecs(head);
    let mut keys: Vec<SigningKey> = (0..n).map(|_| SigningKey::generate()).collect();
    keys.sort_by_key(|k| k.verifying_key());
    let dir = std::env::temp_dir().join(format!(
        "h_c15_{}_{}",
        std::process::id(),
        Hash::digest(SigningKey::generate().verifying_key().as_bytes()).to_hex()[..12].to_string()
    ));
    std::fs::create_dir_all(&dir).expect("temp dir");
    let mut network = [0u8; 32];
    network.copy_from_slice(Hash::digest(dir.display().to_string().as_bytes()).as_bytes());
    let mut w = World {
        dir: dir.clone(),
        keys,
        me,
        topic: Topic::random(),
        other: Topic::random(),
        network,
        foreign: HashMap::new(),
        known: HashMap::new(),
    };
    build_foreign(&mut w, &fspecs);
    if crash == 'a' {
        write_foreign(&w);
    }

    let segs = &parts[1..];
    let mut texts = Vec::new();
    let (mut acked, mut stored, mut attempted) = (Vec::new(), Vec::new(), Vec::new());
    let result = std::panic::catch_unwind(std::panic::AssertUnwindSafe(|| {
        for (i, spec) in segs.iter().enumerate() {
            let is_last = i + 1 == segs.len();
            let out = if crash == 'a' && !is_last {
                segment_in_child(&mut w, i, head, spec)
            } else {
                segment_in_process(&mut w, i, spec, is_last)
            };
            texts.push(out.text.clone());
            acked.push(show_facts(i, &out.acked));
            stored.push(show_facts(i, &out.stored));
            attempted.push(show_facts(i, &out.attempted));
        }
    }));
    remove_dir(&dir);
    if let Err(e) = result {
        std::panic::resume_unwind(e);
    }
    let j = |v: &Vec<String>| v.iter().filter(|s| !s.is_empty()).cloned().collect::<Vec<_>>().join(",");
    format!("{} @@ acked={} stored={} attempted={}", texts.join(" ;; "), j(&acked), j(&stored), j(&attempted))
}

fn remove_dir(dir: &Path) {
    let _ = std::fs::remove_dir_all(dir);
}

fn main() {
    sched::install_hooks();
    let args: Vec<String> = std::env::args().collect();
    if args.get(1).map(|s| s.as_str()) == Some("seg") {
        child_main();
        return;
    }
    h_common::run_cases(run_case);
}
