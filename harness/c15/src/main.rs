use std::time::Instant;
use futures_util::StreamExt;
use p2panda::node::AckPolicy;
use p2panda::network::MdnsDiscoveryMode;
use p2panda_core::{SigningKey, Topic};

fn main() {
    let dir = std::env::temp_dir().join(format!("h_c15_probe_{}", std::process::id()));
    std::fs::create_dir_all(&dir).unwrap();
    let url = format!("sqlite://{}/db.sqlite", dir.display());
    let key = SigningKey::generate();
    let topic = Topic::random();
    for round in 0..3 {
        let rt = tokio::runtime::Builder::new_current_thread().enable_all().build().unwrap();
        let t0 = Instant::now();
        rt.block_on(async {
            let node = p2panda::builder()
                .database_url(&url)
                .signing_key(key.clone())
                .ack_policy(AckPolicy::Explicit)
                .mdns_mode(MdnsDiscoveryMode::Disabled)
                .spawn()
                .await
                .unwrap();
            println!("round {round} spawn {:?}", t0.elapsed());
            let (tx, mut rx) = node.stream::<String>(topic).await.unwrap();
            println!("stream {:?}", t0.elapsed());
            let imp = tx.import(futures_util::stream::iter(vec![])).await.unwrap();
            imp.await.ok();
            loop {
                let ev = rx.next().await.unwrap();
                println!("event {:?}", std::mem::discriminant(&ev));
                if let p2panda::streams::StreamEvent::ImportEnded { .. } = ev { break; }
            }
            let f = tx.publish(format!("m{round}")).await.unwrap();
            f.await.unwrap();
            let ev = rx.next().await.unwrap();
            println!("event {:?} {:?}", std::mem::discriminant(&ev), t0.elapsed());
        });
        drop(rt);
        println!("dropped {:?}", t0.elapsed());
    }
    std::fs::remove_dir_all(&dir).ok();
}
