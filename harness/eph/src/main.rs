//! C16 / C17: drive the real `EphemeralStreamPublisher` / `EphemeralStreamSubscription`
//! (p2panda/src/streams/ephemeral_stream.rs) over plain channels (cfg hooks
//! `GossipHandle::verif_over_channels`, `p2panda::verif_c16::ephemeral_stream_over`).
//!
//! argv[1] = `c16` | `c17`; cases on stdin, see the two modules.
mod c16;
mod c17;
mod common;

fn main() {
    let which = std::env::args().nth(1).unwrap_or_default();
    let rt = tokio::runtime::Builder::new_current_thread().enable_all().build().unwrap();
    let store = rt.block_on(async {
        p2panda_store::sqlite::SqliteStoreBuilder::memory().build().await.expect("in-memory store")
    });
    let env = common::Env { rt, store };
    match which.as_str() {
        "c16" => h_common::run_cases(|p| c16::case(&env, p)),
        "c17" => h_common::run_cases(|p| c17::case(&env, p)),
        _ => panic!("usage: h_eph c16|c17"),
    }
}
