//! C16 cases (bodies are hex of UTF-8 text, `-` = empty):
//!   `forge <signer> <v1> <pk1> <t1> <l1> <b1> <v2> <pk2> <t2> <l2> <b2> <sigmut>`
//!        signature by scenario key <signer> over the fields F1, optionally one signature bit
//!        flipped (<sigmut> = 1), sent together with the fields F2 -> what the subscription yields
//!   `bytes <pk> <t> <l> <b> <op> <a> <m>`
//!        an honest valid message of key <pk>, then byte-level tampering: `x` xor byte a%len with
//!        mask m, `c` cut to a%len bytes, `a` append a%4+1 bytes m, `n` nothing
//!   `pub <signer> <t0> <now1> <b1> <now2> <b2> ...`
//!        publisher created at clock t0, publishing b_k at clock reading now_k: per publish
//!        `<t>/<l>:<body>:<yielded back 0|1>`, then `uniq=<0|1>` (published byte strings
//!        pairwise distinct)
//!   `remix <signer> <t0> <now> <b> <field>`
//!        a message really published by the publisher (created at clock t0, publishing at clock
//!        now), decoded, one field changed (`n` none, `v` version+1, `k` author -> next scenario
//!        key, `t` time+1, `l` logical+1, `b` body + "x"), re-encoded with the original
//!        signature and handed to a subscription -> what it yields
//!   `seq <s|b> <signer> <v1> <pk1> <t1> <l1> <b1> <v2> <pk2> <t2> <l2> <b2> <sigmut> ...` (12 tokens per message)
//!        a SEQUENCE of `forge`-style messages sent in order to ONE subscription; `s`: drained
//!        after every message, one group of yields per message (`-` or yields joined by `,`,
//!        groups separated by blanks); `b`: all sent first, then drained once (one group)
//!   `rseq <signer> <t0> <now> <b> <field> <place>`
//!        as `remix`, but the really published original O and its remixed copy R go to the same
//!        subscription: place `a` = O R, `d` = O O R, `b` = R O, `m` = O R O R; drained once
//! Yields are printed as `Y<key index>:<timestamp>:<body number>`; nothing yielded = `-`.
use std::pin::Pin;
use std::task::{Context, Poll};
use std::time::Duration;

use futures_util::Stream as _;
use mock_instant::thread_local::MockClock;
use p2panda::streams::EphemeralStreamSubscription;
use p2panda_core::cbor::decode_cbor;
use p2panda_core::timestamp::{LamportTimestamp, Timestamp};
use p2panda_core::{Signature, VerifyingKey};

use crate::common::{Env, Fields, counting_waker, key_index, open, sign_fields, unhex, wire};

/// Bodies are shown as the decimal number whose big-endian bytes are 0x01 followed by the UTF-8
/// bytes of the text (at most 12 of them), the same injective numbering the model uses.
fn hexs(s: &str) -> String {
    assert!(s.len() <= 12, "body too long for the numbering");
    let mut n: u128 = 1;
    for b in s.as_bytes() {
        n = (n << 8) | (*b as u128);
    }
    n.to_string()
}

/// Poll until the subscription reports `Pending` twice in a row (so that the observation does
/// not depend on whether one poll skips an invalid item or returns after it, which is C17's
/// business).
fn drain(sub: &mut EphemeralStreamSubscription<String>) -> Vec<String> {
    let (_count, waker) = counting_waker();
    let mut cx = Context::from_waker(&waker);
    let mut out = Vec::new();
    let mut pendings = 0;
    let mut guard = 0;
    while pendings < 2 && guard < 10_000 {
        guard += 1;
        match Pin::new(&mut *sub).poll_next(&mut cx) {
            Poll::Ready(Some(m)) => {
                pendings = 0;
                out.push(format!("Y{}:{}:{}", key_index(&m.author()), m.timestamp(), hexs(m.body())));
            }
            Poll::Ready(None) => break,
            Poll::Pending => pendings += 1,
        }
    }
    out
}

fn show(y: Vec<String>) -> String {
    if y.is_empty() { "-".to_string() } else { y.join(" ") }
}

pub fn case(env: &Env, payload: &str) -> String {
    let toks: Vec<&str> = payload.split_whitespace().collect();
    let num = |i: usize| toks[i].parse::<u64>().expect("number");
    match toks[0] {
        "forge" => {
            let signer = num(1);
            let f1 = Fields { ver: num(2), pk: num(3), t: num(4), l: num(5), body: unhex(toks[6]) };
            let f2 = Fields { ver: num(7), pk: num(8), t: num(9), l: num(10), body: unhex(toks[11]) };
            let mut sig = sign_fields(signer, &f1);
            if num(12) == 1 {
                let mut b = sig.to_bytes();
                b[(f1.t % 64) as usize] ^= 1 << (f1.l % 8);
                sig = Signature::from_bytes(&b);
            }
            let mut s = open(env, 0, 16);
            let _ = s.inject.as_ref().unwrap().send(wire(&f2, sig));
            show(drain(&mut s.subscription))
        }
        "bytes" => {
            let f = Fields { ver: 1, pk: num(1), t: num(2), l: num(3), body: unhex(toks[4]) };
            let mut b = wire(&f, sign_fields(f.pk, &f));
            let (a, m) = (num(6) as usize, num(7) as u8);
            match toks[5] {
                "x" => {
                    let p = a % b.len();
                    b[p] ^= m;
                }
                "c" => b.truncate(a % b.len()),
                "a" => {
                    for _ in 0..(a % 4 + 1) {
                        b.push(m);
                    }
                }
                "n" => {}
                _ => return "BADCASE".into(),
            }
            let mut s = open(env, 0, 16);
            let _ = s.inject.as_ref().unwrap().send(b);
            show(drain(&mut s.subscription))
        }
        "pub" => {
            let signer = num(1);
            MockClock::set_system_time(Duration::from_micros(num(2)));
            let mut s = open(env, signer, 16);
            let publisher = s.publisher.take().unwrap();
            let mut all: Vec<Vec<u8>> = Vec::new();
            let mut out = Vec::new();
            for pair in toks[3..].chunks(2) {
                let now = pair[0].parse::<u64>().unwrap();
                let body = unhex(pair[1]);
                MockClock::set_system_time(Duration::from_micros(now));
                let res = std::panic::catch_unwind(std::panic::AssertUnwindSafe(|| {
                    env.rt.block_on(publisher.publish(body.clone()))
                }));
                match res {
                    Err(_) => {
                        out.push("PANIC".to_string());
                        break;
                    }
                    Ok(Err(_)) => {
                        out.push("ERR".to_string());
                        break;
                    }
                    Ok(Ok(())) => {}
                }
                let bytes = s.published.try_recv().expect("publish handed bytes to the overlay");
                let (ver, pk, _sig, t, l, b): (u64, VerifyingKey, Signature, Timestamp, LamportTimestamp, String) =
                    decode_cbor(&bytes[..]).expect("published bytes decode");
                let _ = s.inject.as_ref().unwrap().send(bytes.clone());
                let back = drain(&mut s.subscription);
                let expect = format!("Y{}:{}:{}", signer, u64::from(t), hexs(&body));
                let ok = ver == 1 && b == body && key_index(&pk) == signer.to_string() && back == vec![expect];
                out.push(format!("{}/{}:{}:{}", u64::from(t), l, hexs(&b), if ok { 1 } else { 0 }));
                all.push(bytes);
            }
            let mut uniq = true;
            for i in 0..all.len() {
                for j in 0..i {
                    if all[i] == all[j] {
                        uniq = false;
                    }
                }
            }
            format!("{} uniq={}", out.join(" "), if uniq { 1 } else { 0 })
        }
        "remix" => {
            let signer = num(1);
            MockClock::set_system_time(Duration::from_micros(num(2)));
            let mut s = open(env, signer, 16);
            let publisher = s.publisher.take().unwrap();
            MockClock::set_system_time(Duration::from_micros(num(3)));
            env.rt.block_on(publisher.publish(unhex(toks[4]))).expect("publish");
            let bytes = s.published.try_recv().expect("publish handed bytes to the overlay");
            let (mut ver, mut pk, sig, t, l, mut b): (u64, VerifyingKey, Signature, Timestamp, LamportTimestamp, String) =
                decode_cbor(&bytes[..]).expect("published bytes decode");
            let (mut t, mut l) = (u64::from(t), l.to_string().parse::<u64>().unwrap());
            match toks[5] {
                "n" => {}
                "v" => ver = ver.wrapping_add(1),
                "k" => pk = crate::common::key((signer + 1) % 6).verifying_key(),
                "t" => t = t.wrapping_add(1),
                "l" => l = l.wrapping_add(1),
                "b" => b.push('x'),
                _ => return "BADCASE".into(),
            }
            let remixed = p2panda_core::cbor::encode_cbor(&(ver, pk, sig, Timestamp::new(t), LamportTimestamp::new(l), &b)).unwrap();
            let _ = s.inject.as_ref().unwrap().send(remixed);
            show(drain(&mut s.subscription))
        }
        "seq" => {
            let step = toks[1] == "s";
            let mut s = open(env, 0, 64);
            let mut groups = Vec::new();
            for m in toks[2..].chunks(12) {
                let n = |i: usize| m[i].parse::<u64>().expect("number");
                let signer = n(0);
                let f1 = Fields { ver: n(1), pk: n(2), t: n(3), l: n(4), body: unhex(m[5]) };
                let f2 = Fields { ver: n(6), pk: n(7), t: n(8), l: n(9), body: unhex(m[10]) };
                let mut sig = sign_fields(signer, &f1);
                if n(11) == 1 {
                    let mut b = sig.to_bytes();
                    b[(f1.t % 64) as usize] ^= 1 << (f1.l % 8);
                    sig = Signature::from_bytes(&b);
                }
                let _ = s.inject.as_ref().unwrap().send(wire(&f2, sig));
                if step {
                    groups.push(group(drain(&mut s.subscription)));
                }
            }
            if !step {
                groups.push(group(drain(&mut s.subscription)));
            }
            groups.join(" ")
        }
        "rseq" => {
            let signer = num(1);
            MockClock::set_system_time(Duration::from_micros(num(2)));
            let mut s = open(env, signer, 16);
            let publisher = s.publisher.take().unwrap();
            MockClock::set_system_time(Duration::from_micros(num(3)));
            env.rt.block_on(publisher.publish(unhex(toks[4]))).expect("publish");
            let bytes = s.published.try_recv().expect("publish handed bytes to the overlay");
            let (mut ver, mut pk, sig, t, l, mut b): (u64, VerifyingKey, Signature, Timestamp, LamportTimestamp, String) =
                decode_cbor(&bytes[..]).expect("published bytes decode");
            let (mut t, mut l) = (u64::from(t), l.to_string().parse::<u64>().unwrap());
            match toks[5] {
                "n" => {}
                "v" => ver = ver.wrapping_add(1),
                "k" => pk = crate::common::key((signer + 1) % 6).verifying_key(),
                "t" => t = t.wrapping_add(1),
                "l" => l = l.wrapping_add(1),
                "b" => b.push('x'),
                _ => return "BADCASE".into(),
            }
            let remixed = p2panda_core::cbor::encode_cbor(&(ver, pk, sig, Timestamp::new(t), LamportTimestamp::new(l), &b)).unwrap();
            let order: &[bool] = match toks[6] {
                "a" => &[true, false],
                "d" => &[true, true, false],
                "b" => &[false, true],
                "m" => &[true, false, true, false],
                _ => return "BADCASE".into(),
            };
            for original in order {
                let _ = s.inject.as_ref().unwrap().send(if *original { bytes.clone() } else { remixed.clone() });
            }
            group(drain(&mut s.subscription))
        }
        _ => "BADCASE".to_string(),
    }
}

fn group(y: Vec<String>) -> String {
    if y.is_empty() { "-".to_string() } else { y.join(",") }
}
