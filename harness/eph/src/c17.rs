//! C17 cases: `<cap> <close 0|1> <mode m|t> <tok> <tok> | <tok> ...`
//!   cap   = capacity of the broadcast channel the subscription reads from (a power of two)
//!   mode m = manual polling with a counting waker; the harness plays an executor that honours
//!            the waker contract: after a `Pending` the subscription is polled again **only if
//!            its waker was woken**.  mode t = the consumer runs as `rx.next().await` inside a
//!            tokio runtime (all phases are sent first, the channel is closed, 3 s time-out).
//!   tokens: `v<id>` valid message with body "<id>"; invalid ones: `g` garbage bytes, `e` empty,
//!           `s` valid encoding with a signature by another key, `w` unsupported version,
//!           `t` truncated valid message; phases are separated by `|`.
//! Output: yields per phase (`1,2 | - | 3`), then ` END` if the stream finished, ` STALL` (mode t)
//! if the time-out fired.
use std::pin::Pin;
use std::sync::atomic::Ordering;
use std::task::{Context, Poll};
use std::time::Duration;

use futures_util::{Stream as _, StreamExt};

use crate::common::{Env, Fields, counting_waker, open, sign_fields, wire};

fn message(tok: &str, n: u64) -> Vec<u8> {
    let kind = &tok[..1];
    let id = if kind == "v" { tok[1..].to_string() } else { format!("x{n}") };
    let f = Fields { ver: 1, pk: 1, t: 1000 + n, l: n % 3, body: id };
    match kind {
        "v" => wire(&f, sign_fields(1, &f)),
        "g" => vec![0xff, 0x00, 0x13, n as u8],
        "e" => vec![],
        "s" => wire(&f, sign_fields(2, &f)),
        "w" => {
            let f = Fields { ver: 2, ..f };
            wire(&f, sign_fields(1, &f))
        }
        "t" => {
            let mut b = wire(&f, sign_fields(1, &f));
            b.truncate(b.len() - 1 - (n as usize % 5));
            b
        }
        _ => panic!("bad token {tok}"),
    }
}

fn show(phases: &[Vec<String>]) -> String {
    phases
        .iter()
        .map(|p| if p.is_empty() { "-".to_string() } else { p.join(",") })
        .collect::<Vec<_>>()
        .join(" | ")
}

pub fn case(env: &Env, payload: &str) -> String {
    let mut it = payload.splitn(4, ' ');
    let cap: usize = it.next().unwrap().parse().unwrap();
    let close = it.next().unwrap() == "1";
    let mode = it.next().unwrap().to_string();
    let rest = it.next().unwrap_or("");
    let phases: Vec<Vec<&str>> = rest.split('|').map(|p| p.split_whitespace().collect()).collect();

    let mut stream = open(env, 1, cap);
    let mut n = 0u64;
    let mut yields: Vec<Vec<String>> = Vec::new();
    let mut finished = false;

    if mode == "t" {
        let inject = stream.inject.take().unwrap();
        for ph in &phases {
            for tok in ph {
                n += 1;
                let _ = inject.send(message(tok, n));
            }
        }
        drop(inject);
        drop(stream.publisher.take());
        let mut sub = stream.subscription;
        let mut got = Vec::new();
        let mut stall = false;
        env.rt.block_on(async {
            let consumer = tokio::spawn(async move {
                let mut got = Vec::new();
                loop {
                    match tokio::time::timeout(Duration::from_secs(3), sub.next()).await {
                        Ok(Some(m)) => got.push(m.body().clone()),
                        Ok(None) => return (got, false),
                        Err(_) => return (got, true),
                    }
                }
            });
            let (g, s) = consumer.await.unwrap();
            got = g;
            stall = s;
        });
        return format!("{}{}", show(&[got]), if stall { " STALL" } else { " END" });
    }

    // Manual executor.
    let (count, waker) = counting_waker();
    let mut cx = Context::from_waker(&waker);
    let mut seen = 0usize;
    let mut scheduled = true;
    let mut sub = stream.subscription;
    let mut polls = 0usize;
    let mut run = |scheduled: &mut bool, finished: &mut bool, seen: &mut usize, out: &mut Vec<String>| {
        loop {
            let c = count.0.load(Ordering::SeqCst);
            if c != *seen {
                *seen = c;
                *scheduled = true;
            }
            if !*scheduled || *finished {
                break;
            }
            *scheduled = false;
            polls += 1;
            assert!(polls < 100_000, "runaway polling");
            match Pin::new(&mut sub).poll_next(&mut cx) {
                Poll::Ready(Some(m)) => {
                    out.push(m.body().clone());
                    // `while let Some(m) = rx.next().await`: the consumer asks again right away.
                    *scheduled = true;
                }
                Poll::Ready(None) => *finished = true,
                Poll::Pending => {}
            }
        }
    };

    // The consumer task starts: first poll on an empty channel.
    let mut first = Vec::new();
    run(&mut scheduled, &mut finished, &mut seen, &mut first);
    assert!(first.is_empty());
    for ph in &phases {
        for tok in ph {
            n += 1;
            let _ = stream.inject.as_ref().unwrap().send(message(tok, n));
        }
        let mut out = Vec::new();
        run(&mut scheduled, &mut finished, &mut seen, &mut out);
        yields.push(out);
    }
    if close {
        drop(stream.inject.take());
        drop(stream.publisher.take());
        let mut out = Vec::new();
        run(&mut scheduled, &mut finished, &mut seen, &mut out);
        if !out.is_empty() {
            // yields after the close are reported as an extra phase (never expected)
            yields.push(out);
        }
    }
    format!("{}{}", show(&yields), if finished { " END" } else { "" })
}
