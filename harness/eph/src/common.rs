use std::sync::Arc;
use std::sync::atomic::{AtomicUsize, Ordering};
use std::task::{Wake, Waker};

use p2panda::streams::{EphemeralStreamPublisher, EphemeralStreamSubscription};
use p2panda_core::cbor::encode_cbor;
use p2panda_core::timestamp::{LamportTimestamp, Timestamp};
use p2panda_core::{Signature, SigningKey, Topic, VerifyingKey};
use p2panda_net::gossip::GossipHandle;
use p2panda_store::SqliteStore;
use tokio::sync::{broadcast, mpsc};

pub struct Env {
    pub rt: tokio::runtime::Runtime,
    pub store: SqliteStore,
}

/// Deterministic key of scenario index `i`.
pub fn key(i: u64) -> SigningKey {
    let mut b = [7u8; 32];
    b[0] = i as u8;
    b[31] = (i >> 8) as u8 ^ 0x5a;
    SigningKey::from_bytes(&b)
}

/// Index of a verifying key among the scenario keys 0..16 ("?" if foreign).
pub fn key_index(pk: &VerifyingKey) -> String {
    for i in 0..16u64 {
        if key(i).verifying_key() == *pk {
            return i.to_string();
        }
    }
    "?".to_string()
}

/// The five signed fields of a wrapped message.
#[derive(Clone, Debug, PartialEq, Eq)]
pub struct Fields {
    pub ver: u64,
    pub pk: u64,
    pub t: u64,
    pub l: u64,
    pub body: String,
}

/// Signature by scenario key `signer` over the signed tuple of the documented wire format:
/// `(version, verifying_key, timestamp, lamport_timestamp, body)` in CBOR.
pub fn sign_fields(signer: u64, f: &Fields) -> Signature {
    let bytes = encode_cbor(&(
        f.ver,
        key(f.pk).verifying_key(),
        Timestamp::new(f.t),
        LamportTimestamp::new(f.l),
        &f.body,
    ))
    .unwrap();
    key(signer).sign(&bytes)
}

/// Wire bytes: `(version, verifying_key, signature, timestamp, lamport_timestamp, body)`.
pub fn wire(f: &Fields, sig: Signature) -> Vec<u8> {
    encode_cbor(&(
        f.ver,
        key(f.pk).verifying_key(),
        sig,
        Timestamp::new(f.t),
        LamportTimestamp::new(f.l),
        &f.body,
    ))
    .unwrap()
}

pub struct Stream {
    pub publisher: Option<EphemeralStreamPublisher<String>>,
    pub subscription: EphemeralStreamSubscription<String>,
    /// What `publish` hands to the overlay.
    pub published: mpsc::Receiver<Vec<u8>>,
    /// Sender of the channel the subscription reads from.
    pub inject: Option<broadcast::Sender<Vec<u8>>>,
}

pub fn open(env: &Env, signer: u64, capacity: usize) -> Stream {
    let topic = Topic::from([9u8; 32]);
    let (handle, published, inject) = env
        .rt
        .block_on(GossipHandle::verif_over_channels(topic, 1 << 20, 4096, capacity));
    let (publisher, subscription) =
        p2panda::verif_c16::ephemeral_stream_over::<String>(topic, key(signer), env.store.clone(), handle);
    Stream { publisher: Some(publisher), subscription, published, inject: Some(inject) }
}

/// Waker that only counts.
pub struct CountWake(pub AtomicUsize);

impl Wake for CountWake {
    fn wake(self: Arc<Self>) {
        self.0.fetch_add(1, Ordering::SeqCst);
    }
    fn wake_by_ref(self: &Arc<Self>) {
        self.0.fetch_add(1, Ordering::SeqCst);
    }
}

pub fn counting_waker() -> (Arc<CountWake>, Waker) {
    let c = Arc::new(CountWake(AtomicUsize::new(0)));
    (c.clone(), Waker::from(c))
}

pub fn unhex(s: &str) -> String {
    if s == "-" {
        return String::new();
    }
    String::from_utf8(hex::decode(s).expect("hex")).expect("utf8")
}
