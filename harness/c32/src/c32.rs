//! C32: real `state::merge` on explicit member states.
//!
//! Payload: `<s1> | <s2> | <s3>`, each state a space separated list of entries
//! `id:member_counter:level:cond:access_counter` (level 0..3 = Pull, Read, Write, Manage;
//! cond `-` = no conditions, `k` = `Some(Cond(k))`, a `u64` newtype with derived
//! `PartialEq`/`PartialOrd`, i.e. totally ordered conditions).
//!
//! Result: the five merged states
//! `merge(s1,s2) | merge(s2,s1) | merge(merge(s1,s2),s3) | merge(s1,merge(s2,s3)) | merge(s1,s1)`
//! each printed as a comma separated list of entries sorted by id.
use p2panda_auth::group::{GroupMembersState, MemberState};
use p2panda_auth::traits::Conditions;
use p2panda_auth::verif_c32 as hook;
use p2panda_auth::{Access, AccessLevel};

#[derive(Clone, Debug, PartialEq, PartialOrd)]
pub struct Cond(pub u64);
impl Conditions for Cond {}

type St = GroupMembersState<u64, Cond>;

pub fn level_of(n: u64) -> AccessLevel {
    match n {
        0 => AccessLevel::Pull,
        1 => AccessLevel::Read,
        2 => AccessLevel::Write,
        3 => AccessLevel::Manage,
        _ => panic!("level"),
    }
}

pub fn level_no(l: &AccessLevel) -> u64 {
    match l {
        AccessLevel::Pull => 0,
        AccessLevel::Read => 1,
        AccessLevel::Write => 2,
        AccessLevel::Manage => 3,
    }
}

fn parse_state(s: &str) -> St {
    let mut entries: Vec<(u64, MemberState<Cond>)> = Vec::new();
    for e in s.split_whitespace() {
        let f: Vec<&str> = e.split(':').collect();
        assert!(f.len() == 5, "entry");
        let id: u64 = f[0].parse().unwrap();
        let mc: usize = f[1].parse().unwrap();
        let level = level_of(f[2].parse().unwrap());
        let conditions = if f[3] == "-" { None } else { Some(Cond(f[3].parse().unwrap())) };
        let ac: usize = f[4].parse().unwrap();
        entries.push((id, hook::member_state(mc, Access { conditions, level }, ac)));
    }
    hook::members_state(entries)
}

fn show_state(s: &St) -> String {
    let mut entries = hook::members_state_entries(s);
    entries.sort_by_key(|(id, _)| *id);
    let v: Vec<String> = entries
        .iter()
        .map(|(id, m)| {
            let (mc, access, ac) = hook::member_state_parts(m);
            let c = match access.conditions {
                None => "-".to_string(),
                Some(Cond(k)) => k.to_string(),
            };
            format!("{}:{}:{}:{}:{}", id, mc, level_no(&access.level), c, ac)
        })
        .collect();
    v.join(",")
}

pub fn run() {
    h_common::run_cases(|payload| {
        let parts: Vec<&str> = payload.split('|').collect();
        assert!(parts.len() == 3, "three states expected");
        let s1 = parse_state(parts[0]);
        let s2 = parse_state(parts[1]);
        let s3 = parse_state(parts[2]);
        let m12 = hook::merge(s1.clone(), s2.clone());
        let m21 = hook::merge(s2.clone(), s1.clone());
        let m12_3 = hook::merge(m12.clone(), s3.clone());
        let m23 = hook::merge(s2.clone(), s3.clone());
        let m1_23 = hook::merge(s1.clone(), m23);
        let m11 = hook::merge(s1.clone(), s1.clone());
        format!(
            "{} | {} | {} | {} | {}",
            show_state(&m12),
            show_state(&m21),
            show_state(&m12_3),
            show_state(&m1_23),
            show_state(&m11)
        )
    });
}
