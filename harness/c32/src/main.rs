//! C32 / C33 harness: drives the real `p2panda-auth` group membership code.
//!
//! `h_c32 c32`: the crate-private `state::merge` through the cfg hook `p2panda_auth::verif_c32`.
//! `h_c32 c33`: the public `GroupCrdt::process` (test_utils `TestGroup`), see `c33.rs`.
mod c32;
mod c33;

fn main() {
    let mode = std::env::args().nth(1).unwrap_or_default();
    match mode.as_str() {
        "c32" => c32::run(),
        "c33" => c33::run(),
        other => {
            eprintln!("unknown mode {other:?}");
            std::process::exit(2);
        }
    }
}
