//! C33: real `GroupCrdt::process` (test_utils `TestGroup` = `GroupCrdt<char, u32, TestOperation, (),
//! StrongRemove>`) on a history of authorised and unauthorised operations, one replica.
//!
//! Payload: operations separated by `|`; operation number `i` (0-based) has operation id `i`:
//! `author group depref kind target level [member:level ...]`
//!   depref  `-1` = the replica's current heads, `0 <= k < 1000` = the heads as they were after the
//!           k-th operation of the case had been processed (creates concurrency),
//!           `1000 + m` (m < 2^20) = the subset of the sorted current heads selected by the bits
//!           of `m` (bit j = j-th head; all heads if that selects nothing),
//!           `2^32 + m` = exactly the operation ids `j < i` with bit j of `m` set (any set of
//!           earlier operations, also antichains that are not heads)
//!   kind    0 create (initial members follow), 1 add, 2 remove, 3 promote, 4 demote,
//!           5 = submit operation number `target` again (same id, same content)
//!   level   0..3 = Pull, Read, Write, Manage
//! Members are individuals; authors/members `m` are the chars 'A'+m, groups `g` the chars '0'+g.
//!
//! Result, per operation, joined by ` | `:
//! `<outcome>;<deps>;<pre>;<post group 0>/<post group 1>/..;<heads>`
//!   outcome  ok | dup | err:<GroupMembershipError variant> | other:<variant> | panic
//!   deps     the resolved dependencies
//!   pre      raw member entries `id.member_counter.level.access_counter` of the operation's group
//!            in `state_at(dependencies)` before processing (`-` if the group is absent)
//!   post     the same for every group in `current_state()` of the replica the run continues
//!            with (the previous one if the operation was rejected)
//!   heads    the replica's heads
use std::collections::HashSet;
use std::panic::{AssertUnwindSafe, catch_unwind};

use p2panda_auth::group::{
    GroupAction, GroupCrdtError, GroupMember, GroupMembersState, GroupMembershipError,
};
use p2panda_auth::test_utils::{TestGroup, TestGroupState, TestOperation};
use p2panda_auth::verif_c32 as hook;
use p2panda_auth::Access;

use crate::c32::{level_no, level_of};

fn member(m: u64) -> char {
    char::from_u32(0x41 + m as u32).unwrap()
}

fn member_no(c: char) -> u64 {
    (c as u32 - 0x41) as u64
}

fn group(g: u64) -> char {
    char::from_u32(0x30 + g as u32).unwrap()
}

fn access(level: u64) -> Access<()> {
    Access {
        conditions: None,
        level: level_of(level),
    }
}

fn show_members(s: Option<&GroupMembersState<GroupMember<char>, ()>>) -> String {
    let Some(s) = s else {
        return "-".to_string();
    };
    let mut entries: Vec<(u64, usize, u64, usize)> = hook::members_state_entries(s)
        .into_iter()
        .map(|(id, m)| {
            let (mc, access, ac) = hook::member_state_parts(&m);
            (member_no(id.id()), mc, level_no(&access.level), ac)
        })
        .collect();
    entries.sort();
    let v: Vec<String> = entries
        .iter()
        .map(|(id, mc, lv, ac)| format!("{}.{}.{}.{}", id, mc, lv, ac))
        .collect();
    v.join(",")
}

fn variant(e: &GroupMembershipError<GroupMember<char>>) -> &'static str {
    match e {
        GroupMembershipError::AlreadyAdded(_) => "AlreadyAdded",
        GroupMembershipError::AlreadyRemoved(_) => "AlreadyRemoved",
        GroupMembershipError::InsufficientAccess(_) => "InsufficientAccess",
        GroupMembershipError::InactiveActor(_) => "InactiveActor",
        GroupMembershipError::InactiveMember(_) => "InactiveMember",
        GroupMembershipError::UnrecognisedActor(_) => "UnrecognisedActor",
        GroupMembershipError::UnrecognisedMember(_) => "UnrecognisedMember",
    }
}

pub fn run() {
    h_common::run_cases(|payload| {
        let specs: Vec<Vec<String>> = payload
            .split('|')
            .map(|s| s.split_whitespace().map(|t| t.to_string()).collect::<Vec<_>>())
            .filter(|v: &Vec<String>| !v.is_empty())
            .collect();
        let ngroups = specs
            .iter()
            .map(|v| v[1].parse::<u64>().unwrap() + 1)
            .max()
            .unwrap_or(1);
        let mut y = TestGroupState::new();
        let mut built: Vec<TestOperation> = Vec::new();
        let mut snapshots: Vec<Vec<u32>> = Vec::new();
        let mut out: Vec<String> = Vec::new();
        for (i, v) in specs.iter().enumerate() {
            let author: u64 = v[0].parse().unwrap();
            let g: u64 = v[1].parse().unwrap();
            let depref: i64 = v[2].parse().unwrap();
            let kind: u64 = v[3].parse().unwrap();
            let target: u64 = v[4].parse().unwrap();
            let level: u64 = v[5].parse().unwrap();
            const EXPLICIT: i64 = 1 << 32;
            let mut deps: Vec<u32> = if depref < 0 {
                y.heads()
            } else if depref < 1000 {
                snapshots[depref as usize].clone()
            } else if depref < EXPLICIT {
                let mask = (depref - 1000) as u64;
                let mut heads = y.heads();
                heads.sort();
                let selected: Vec<u32> = heads
                    .iter()
                    .enumerate()
                    .filter(|(j, _)| *j < 64 && (mask >> j) & 1 == 1)
                    .map(|(_, h)| *h)
                    .collect();
                if selected.is_empty() { heads } else { selected }
            } else {
                let mask = (depref - EXPLICIT) as u64;
                (0..(i.min(64) as u32))
                    .filter(|j| (mask >> j) & 1 == 1)
                    .collect()
            };
            deps.sort();
            let t = GroupMember::Individual(member(target));
            let op = if kind == 5 {
                built[target as usize].clone()
            } else {
                let action = match kind {
                    0 => GroupAction::Create {
                        initial_members: v[6..]
                            .iter()
                            .map(|ml| {
                                let (m, l) = ml.split_once(':').unwrap();
                                (
                                    GroupMember::Individual(member(m.parse().unwrap())),
                                    access(l.parse().unwrap()),
                                )
                            })
                            .collect(),
                    },
                    1 => GroupAction::Add {
                        member: t,
                        access: access(level),
                    },
                    2 => GroupAction::Remove { member: t },
                    3 => GroupAction::Promote {
                        member: t,
                        access: access(level),
                    },
                    4 => GroupAction::Demote {
                        member: t,
                        access: access(level),
                    },
                    _ => panic!("kind"),
                };
                TestOperation {
                    id: i as u32,
                    author: member(author),
                    dependencies: deps.clone(),
                    group_id: group(g),
                    action,
                }
            };
            built.push(op.clone());
            let deps_set: HashSet<u32> = op.dependencies.iter().copied().collect();
            let pre = match y.inner.state_at(&deps_set) {
                Ok(states) => show_members(states.get(&op.group_id)),
                Err(_) => "?".to_string(),
            };
            let res = catch_unwind(AssertUnwindSafe(|| TestGroup::process(y.clone(), &op)));
            let outcome = match res {
                Ok(Ok(y2)) => {
                    y = y2;
                    "ok".to_string()
                }
                Ok(Err(GroupCrdtError::DuplicateOperation(..))) => "dup".to_string(),
                Ok(Err(GroupCrdtError::StateChangeError(_, e))) => format!("err:{}", variant(&e)),
                Ok(Err(GroupCrdtError::Inner(_))) => "other:Inner".to_string(),
                Ok(Err(GroupCrdtError::GroupCycle(..))) => "other:GroupCycle".to_string(),
                Ok(Err(GroupCrdtError::ManagerGroupsNotAllowed(..))) => {
                    "other:ManagerGroupsNotAllowed".to_string()
                }
                Ok(Err(GroupCrdtError::Resolver(_))) => "other:Resolver".to_string(),
                Err(_) => "panic".to_string(),
            };
            let current = y.inner.current_state();
            let post: Vec<String> = (0..ngroups)
                .map(|g| show_members(current.get(&group(g))))
                .collect();
            let mut heads = y.heads();
            heads.sort();
            snapshots.push(heads.clone());
            let mut d = op.dependencies.clone();
            d.sort();
            out.push(format!(
                "{};{};{};{};{}",
                outcome,
                h_common::join(&d, ","),
                pre,
                post.join("/"),
                h_common::join(&heads, ",")
            ));
        }
        out.join(" | ")
    });
}
