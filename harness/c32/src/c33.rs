pub fn run() {
    h_common::run_cases(|_payload| "TODO".to_string());
}
