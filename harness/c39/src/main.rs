//! C39: drive real p2panda-spaces `Manager`s (in-memory SQLite stores, the crate's own
//! `test_utils::TestPeer`) through a scripted history and observe every delivery.
//!
//! Case payload: `<npeers> ; <op> ; <op> ; ...` (tokens separated by blanks).  Every op prints
//! exactly one token, the result line is the blank-joined token list.
//!
//! Local ops (executed through the public `*_persisted` API of the acting peer; the messages they
//! forge are stored under the op's index K = position of the op in the script, 0-based):
//!   kb P                      key-bundle message of peer P
//!   cs P S mems               P creates space S (mems: `p1:w,g0:r` or `-`)
//!   cg P mems                 P creates a group (group index = number of earlier `cg` ops)
//!   sadd P S mem / srm P S m  add (`p2:r`) / remove (`p2`) a member of space S
//!   gadd P G mem / grm P G m  same for group G
//!   pub P S hex               publish application data to space S
//!   rep P                     repair all spaces P reports as out of sync
//!   fg A spec...              forge (sign, but do not deliver) one message with author A
//!                             (`pN` = key of peer N, `x` = an outsider key); see `forge`
//! Output token: `L:<n>` (n messages forged) or `L:!<ErrorPath>`; `F:1` / `F:!<why>` for fg.
//!
//! Delivery:
//!   dl Q K J                  persist + process message J of op K on peer Q
//! Output token: `D:<res>:<events>:<chg>` with res = `O` | `E.<error variant path>` |
//! `P.<panic message>`, events = one letter per emitted event (A application, K key bundle,
//! G group, S space) or `-`, chg = `N` (no state change) | `D` (deep digest of the persisted
//! state changed, member lists did not) | `S` (member lists of some group/space changed).
//! `D:?` if the message does not exist.
//!
//! The deep digest covers the persisted global auth state, every persisted space state and the
//! key registry, canonicalised (CBOR value tree with every map and array sorted) so that hash
//! map iteration order does not show.
use std::borrow::Borrow;
use std::panic::{AssertUnwindSafe, catch_unwind};
use std::time::{SystemTime, UNIX_EPOCH};

use ciborium::Value;
use p2panda_auth::Access;
use p2panda_auth::group::{GroupAction, GroupCrdtState, GroupMember};
use p2panda_core::{Hash, Header, SigningKey, VerifyingKey};
use p2panda_encryption::Rng;
use p2panda_encryption::crypto::x25519::SecretKey;
use p2panda_encryption::key_bundle::{Lifetime, LongTermKeyBundle, PreKey};
use p2panda_spaces::test_utils::{TestOperation, TestPeer, TestSpacesStore};
use p2panda_spaces::{AuthMessage, Event, SpacesArgs, SpacesStoreState};
use p2panda_store::Transaction;
use p2panda_store::groups::GroupsStore;
use p2panda_store::key_registry::KeyRegistryStore;
use p2panda_store::spaces::SpacesStore;
use tokio::runtime::Runtime;

type Args = SpacesArgs<()>;
type GroupsState = GroupCrdtState<VerifyingKey, Hash, AuthMessage<()>, ()>;

const GROUPS_CTX: &[u8] = b"global-groups-context";

struct World {
    rt: Runtime,
    peers: Vec<TestPeer>,
    /// messages forged by op K
    ops: Vec<Vec<TestOperation>>,
    /// group ids in creation order (None: creation failed)
    groups: Vec<Option<VerifyingKey>>,
    outsider: SigningKey,
    outsider_identity: SecretKey,
    forge_seq: u64,
    rng: Rng,
    /// last digests per peer
    last: Vec<(Hash, String)>,
}

fn space_id(n: u64) -> Hash {
    Hash::digest(format!("space{}", n).as_bytes())
}

fn access(s: &str) -> Access<()> {
    match s {
        "p" => Access::pull(),
        "r" => Access::read(),
        "w" => Access::write(),
        _ => Access::manage(),
    }
}

/// Variant path of a (derived) Debug rendering: `Space(EncryptionGroup(Dcgka(..)))` ->
/// `Space.EncryptionGroup.Dcgka`.
fn variant_path(dbg: &str, depth: usize) -> String {
    let mut out: Vec<String> = Vec::new();
    let mut rest = dbg;
    while out.len() < depth {
        let ident: String = rest.chars().take_while(|c| c.is_alphanumeric() || *c == '_').collect();
        if ident.is_empty() {
            break;
        }
        let after = &rest[ident.len()..];
        out.push(ident);
        if let Some(r) = after.strip_prefix('(') {
            rest = r;
        } else {
            break;
        }
    }
    if out.is_empty() { "?".into() } else { out.join(".") }
}

fn panic_msg(e: Box<dyn std::any::Any + Send>) -> String {
    let msg = if let Some(s) = e.downcast_ref::<&str>() {
        s.to_string()
    } else if let Some(s) = e.downcast_ref::<String>() {
        s.clone()
    } else {
        "?".to_string()
    };
    let short: String = msg.split_whitespace().take(6).collect::<Vec<_>>().join("_");
    short.chars().filter(|c| c.is_alphanumeric() || *c == '_' || *c == '!').take(60).collect()
}

fn canon(v: Value) -> Value {
    fn bytes(v: &Value) -> Vec<u8> {
        let mut b = Vec::new();
        ciborium::ser::into_writer(v, &mut b).expect("encode");
        b
    }
    match v {
        Value::Array(a) => {
            let mut a: Vec<Value> = a.into_iter().map(canon).collect();
            a.sort_by_cached_key(bytes);
            Value::Array(a)
        }
        Value::Map(m) => {
            let mut m: Vec<(Value, Value)> = m.into_iter().map(|(k, v)| (canon(k), canon(v))).collect();
            m.sort_by_cached_key(|(k, v)| (bytes(k), bytes(v)));
            Value::Map(m)
        }
        Value::Tag(t, b) => Value::Tag(t, Box::new(canon(*b))),
        other => other,
    }
}

impl World {
    fn new(n: usize) -> Self {
        let rt = tokio::runtime::Builder::new_current_thread().enable_all().build().unwrap();
        let mut peers = Vec::new();
        for i in 0..n {
            peers.push(rt.block_on(TestPeer::new(i as u8)));
        }
        let rng = Rng::from_seed([77; 32]);
        let outsider = SigningKey::from_bytes(&rng.random_array().unwrap());
        let outsider_identity = SecretKey::from_rng(&rng).unwrap();
        let mut w = World { rt, peers, ops: Vec::new(), groups: Vec::new(), outsider, outsider_identity, forge_seq: 0, rng, last: Vec::new() };
        for i in 0..n {
            let d = w.digest(i);
            w.last.push(d);
        }
        w
    }

    fn groups_state(&self, p: usize) -> GroupsState {
        let store = TestSpacesStore::new(self.peers[p].store.clone());
        self.rt.block_on(async {
            let permit = store.begin().await.unwrap();
            let y: Option<GroupsState> = GroupsStore::<AuthMessage<()>, ()>::get_groups_state_tx(&store, Hash::digest(GROUPS_CTX)).await.unwrap();
            store.commit(permit).await.unwrap();
            y.unwrap_or_default()
        })
    }

    fn space_state(&self, p: usize, sid: Hash) -> Option<SpacesStoreState<()>> {
        let store = TestSpacesStore::new(self.peers[p].store.clone());
        self.rt.block_on(async {
            let permit = store.begin().await.unwrap();
            let y: Option<SpacesStoreState<()>> = SpacesStore::<SpacesStoreState<()>>::get_space_state_tx(&store, &sid).await.unwrap();
            store.commit(permit).await.unwrap();
            y
        })
    }

    /// (deep digest, shallow rendering of all member lists)
    fn digest(&self, p: usize) -> (Hash, String) {
        let store = TestSpacesStore::new(self.peers[p].store.clone());
        let peer = &self.peers[p];
        self.rt.block_on(async {
            let mut parts: Vec<Value> = Vec::new();
            let permit = store.begin().await.unwrap();
            let gy: Option<GroupsState> = GroupsStore::<AuthMessage<()>, ()>::get_groups_state_tx(&store, Hash::digest(GROUPS_CTX)).await.unwrap();
            store.commit(permit).await.unwrap();
            parts.push(Value::serialized(&gy).unwrap());
            let mut ids: Vec<Hash> = SpacesStore::<Value>::space_ids(&store).await.unwrap();
            ids.sort();
            let mut shallow = String::new();
            for id in &ids {
                let permit = store.begin().await.unwrap();
                let y: Option<Value> = SpacesStore::<Value>::get_space_state_tx(&store, id).await.unwrap();
                store.commit(permit).await.unwrap();
                parts.push(Value::Bytes(id.as_bytes().to_vec()));
                parts.push(y.unwrap_or(Value::Null));
                if let Ok(Some(space)) = peer.manager.space(*id).await {
                    let m = space.members().await.map(|m| format!("{:?}", m)).unwrap_or_else(|_| "err".into());
                    shallow.push_str(&format!("{}={};", id.to_hex(), m));
                }
            }
            if let Some(gy) = &gy {
                let mut gids: Vec<VerifyingKey> = Vec::new();
                for g in self.groups.iter().flatten() {
                    gids.push(*g);
                }
                for id in &ids {
                    if let Ok(Some(space)) = peer.manager.space(*id).await {
                        if let Ok(g) = space.group_id().await {
                            gids.push(g);
                        }
                    }
                }
                gids.sort();
                gids.dedup();
                for g in gids {
                    let mut m = gy.members(g);
                    m.sort_by(|a, b| a.0.cmp(&b.0));
                    shallow.push_str(&format!("{}={:?};", g.to_hex(), m));
                }
            }
            let reg = KeyRegistryStore::get_key_registry(&store).await.unwrap();
            parts.push(Value::serialized(&reg).unwrap());
            // the outer list is positional, only the parts are canonicalised
            let parts: Vec<Value> = parts.into_iter().map(canon).collect();
            let mut b = Vec::new();
            ciborium::ser::into_writer(&Value::Array(parts), &mut b).unwrap();
            (Hash::digest(&b), shallow)
        })
    }

    fn actor(&self, t: &str) -> Option<VerifyingKey> {
        if t == "x" {
            return Some(self.outsider.verifying_key());
        }
        let (kind, n) = t.split_at(1);
        let n: usize = n.parse().ok()?;
        match kind {
            "p" => self.peers.get(n).map(|p| p.manager.id()),
            "g" => self.groups.get(n).copied().flatten(),
            _ => None,
        }
    }

    fn members(&self, t: &str) -> Option<Vec<(VerifyingKey, Access<()>)>> {
        if t == "-" {
            return Some(vec![]);
        }
        let mut out = Vec::new();
        for m in t.split(',') {
            let (who, acc) = m.split_once(':')?;
            out.push((self.actor(who)?, access(acc)));
        }
        Some(out)
    }

    /// group id of space S as known by any peer
    fn space_group(&self, sid: Hash) -> Option<VerifyingKey> {
        for p in 0..self.peers.len() {
            if let Some(y) = self.space_state(p, sid) {
                return Some(y.group_id);
            }
        }
        None
    }

    fn group_ref(&self, t: &str) -> VerifyingKey {
        // gN: group N; sgN: group of space N; fN: a fresh (unknown) group id
        if let Some(n) = t.strip_prefix("sg") {
            if let Some(g) = self.space_group(space_id(n.parse().unwrap_or(0))) {
                return g;
            }
        } else if t.starts_with('g') {
            if let Some(g) = self.actor(t) {
                return g;
            }
        }
        let mut seed = [0u8; 32];
        let h = Hash::digest(t.as_bytes());
        seed.copy_from_slice(h.as_bytes());
        SigningKey::from_bytes(&seed).verifying_key()
    }

    fn sign(&mut self, author: &str, args: Args) -> TestOperation {
        let key = if author == "x" {
            self.outsider.clone()
        } else {
            let n: usize = author[1..].parse().unwrap_or(0);
            self.peers[n.min(self.peers.len() - 1)].credentials.signing_key()
        };
        self.forge_seq += 1;
        let mut header = Header {
            version: 1,
            verifying_key: key.verifying_key(),
            signature: None,
            payload_size: 0,
            payload_hash: None,
            // any backlink will do: the stores do not check log integrity on insert, the header
            // decoder only wants one for seq_num > 0; the counter keeps forged ids distinct
            seq_num: (1000 + self.forge_seq) as _,
            backlink: Some(Hash::digest(self.forge_seq.to_be_bytes())),
            extensions: args,
        };
        header.sign(&key);
        let hash = header.hash();
        TestOperation { hash, header, body: None }
    }

    fn msg(&self, label: &str) -> Option<&TestOperation> {
        let (k, j) = label.split_once('.')?;
        self.ops.get(k.parse::<usize>().ok()?)?.get(j.parse::<usize>().ok()?)
    }

    fn deps(&self, t: &str, auth: bool, viewer: usize, sid: Hash) -> Vec<Hash> {
        match t {
            "h" => {
                if auth {
                    let mut h: Vec<Hash> = self.groups_state(viewer).inner.heads().into_iter().collect();
                    h.sort();
                    h
                } else {
                    self.space_state(viewer, sid).map(|y| y.orderer.heads().to_vec()).unwrap_or_default()
                }
            }
            "r" => vec![Hash::digest(format!("unknown-dep-{}", self.forge_seq).as_bytes())],
            _ => vec![],
        }
    }

    /// Forge one message.  `viewer` is the peer whose current state supplies "valid" heads.
    fn forge(&mut self, author: &str, viewer: usize, spec: &[&str]) -> Result<TestOperation, String> {
        let my = if author == "x" { self.outsider.verifying_key() } else { self.actor(author).ok_or("author")? };
        let num = |s: &str| s.parse::<u64>().unwrap_or(0);
        let args: Args = match spec.first().copied().unwrap_or("") {
            // su S G deps
            "su" => {
                let sid = space_id(num(spec[1]));
                SpacesArgs::SpaceUpdate { space_id: sid, group_id: self.group_ref(spec[2]), space_dependencies: self.deps(spec[3], false, viewer, sid) }
            }
            // au G act member access deps
            "au" => {
                let member_id = if spec[3] == "self" { self.group_ref(spec[1]) } else if spec[3].starts_with("sg") { self.group_ref(spec[3]) } else { self.actor(spec[3]).unwrap_or(my) };
                let is_group = spec[3] == "self" || spec[3].starts_with("sg") || spec[3].starts_with('g');
                let member = if is_group { GroupMember::Group(member_id) } else { GroupMember::Individual(member_id) };
                let acc = access(spec[4]);
                let group_action = match spec[2] {
                    "c" => GroupAction::Create { initial_members: vec![(member, acc), (GroupMember::Individual(my), Access::manage())] },
                    "cd" => GroupAction::Create { initial_members: vec![(member.clone(), acc.clone()), (member, acc)] },
                    "ce" => GroupAction::Create { initial_members: vec![] },
                    "a" => GroupAction::Add { member, access: acc },
                    "r" => GroupAction::Remove { member },
                    "p" => GroupAction::Promote { member, access: acc },
                    _ => GroupAction::Demote { member, access: acc },
                };
                SpacesArgs::Auth { group_id: self.group_ref(spec[1]), group_action, auth_dependencies: self.deps(spec[5], true, viewer, space_id(0)) }
            }
            // sm S G ref deps [dm]
            "sm" => {
                let sid = space_id(num(spec[1]));
                let auth_message_id = match self.msg(spec[3]) {
                    Some(m) => m.hash,
                    None => Hash::digest(format!("unknown-auth-{}", self.forge_seq).as_bytes()),
                };
                // optional: copy the direct messages of an existing membership message
                let mut direct_messages = vec![];
                if let Some(src) = spec.get(5).and_then(|l| self.msg(l)) {
                    if let SpacesArgs::SpaceMembership { direct_messages: d, .. } = src.borrow() {
                        direct_messages = d.clone();
                    }
                }
                SpacesArgs::SpaceMembership { space_id: sid, group_id: self.group_ref(spec[2]), space_dependencies: self.deps(spec[4], false, viewer, sid), auth_message_id, direct_messages }
            }
            // app S ref deps   (ref: label of a real application message to copy from, or `u`)
            "app" => {
                let sid = space_id(num(spec[1]));
                let (group_secret_id, nonce, ciphertext) = match self.msg(spec[2]).map(|m| m.borrow()) {
                    Some(SpacesArgs::Application { group_secret_id, nonce, ciphertext, .. }) => (*group_secret_id, *nonce, ciphertext.clone()),
                    _ => (self.rng.random_array().unwrap(), self.rng.random_array().unwrap(), self.rng.random_vec(num(spec.get(4).copied().unwrap_or("40")) as usize).unwrap()),
                };
                SpacesArgs::Application { space_id: sid, space_dependencies: self.deps(spec[3], false, viewer, sid), group_secret_id, nonce, ciphertext }
            }
            // kbx variant
            "kbx" => {
                let now = SystemTime::now().duration_since(UNIX_EPOCH).unwrap().as_secs();
                let own_identity = if author == "x" {
                    self.outsider_identity.clone()
                } else {
                    let n: usize = author[1..].parse().unwrap_or(0);
                    self.peers[n].credentials.identity_secret()
                };
                let other_identity = SecretKey::from_rng(&self.rng).unwrap();
                let (identity, lifetime, break_sig) = match spec[1] {
                    "fresh" => (own_identity, Lifetime::from_range(now - 60, now + 3600), false),
                    "ident" => (other_identity, Lifetime::from_range(now - 60, now + 3600), false),
                    "expired" => (own_identity, Lifetime::from_range(now - 3600, now - 60), false),
                    "future" => (own_identity, Lifetime::from_range(now + 3600, now + 7200), false),
                    "max" => (own_identity, Lifetime::from_range(0, u64::MAX), false),
                    "inverted" => (own_identity, Lifetime::from_range(now + 3600, now - 3600), false),
                    _ => (own_identity, Lifetime::from_range(now - 60, now + 3600), true),
                };
                let prekey_secret = SecretKey::from_rng(&self.rng).unwrap();
                let prekey = PreKey::new(prekey_secret.verifying_key().unwrap(), lifetime);
                let signer = if break_sig { SecretKey::from_rng(&self.rng).unwrap() } else { identity.clone() };
                let signature = prekey.sign(&signer, &self.rng).map_err(|_| "sign")?;
                SpacesArgs::KeyBundle { key_bundle: LongTermKeyBundle::new(identity.verifying_key().unwrap(), prekey, signature) }
            }
            // mut K.J what n : structural mutation of an existing message (well-typed by
            // construction: the mutated CBOR tree must deserialize as SpacesArgs again)
            "mut" => {
                let src: Args = { let a: &Args = self.msg(spec[1]).ok_or("nomsg")?.borrow(); a.clone() };
                let v = Value::serialized(&src).map_err(|_| "ser")?;
                let mut n = num(spec[3]) as usize;
                let mut cnt = 0usize;
                count_nodes(&v, spec[2], &mut cnt);
                if cnt == 0 {
                    return Err("nofield".into());
                }
                n %= cnt;
                let salt = (self.forge_seq % 251) as u8;
                let v2 = mutate(v, spec[2], &mut n, salt);
                v2.deserialized::<Args>().map_err(|_| "illtyped".to_string())?
            }
            // copy K.J : same args under a new id / author
            "copy" => { let a: &Args = self.msg(spec[1]).ok_or("nomsg")?.borrow(); a.clone() }
            _ => return Err("spec".into()),
        };
        Ok(self.sign(author, args))
    }

    fn local<T>(&mut self, p: usize, r: Result<T, String>, f: impl FnOnce(T) -> Vec<TestOperation>) -> String {
        let tok = match r {
            Ok(v) => {
                let msgs = f(v);
                let n = msgs.len();
                self.ops.push(msgs);
                format!("L:{}", n)
            }
            Err(e) => {
                self.ops.push(vec![]);
                format!("L:!{}", e)
            }
        };
        self.last[p] = self.digest(p);
        tok
    }

    fn step(&mut self, toks: &[&str]) -> String {
        let num = |i: usize| toks.get(i).and_then(|s| s.parse::<usize>().ok()).unwrap_or(0);
        let np = self.peers.len();
        let p = num(1).min(np - 1);
        let e = |d: String| variant_path(&d, 4);
        match toks[0] {
            "kb" => {
                let m = self.peers[p].manager.clone();
                let r = self.rt.block_on(m.key_bundle_message()).map_err(|x| e(format!("{:?}", x)));
                self.local(p, r, |m| vec![m])
            }
            "cs" => {
                let Some(mem) = self.members(toks[3]) else { self.ops.push(vec![]); return "L:!ref".into() };
                let m = self.peers[p].manager.clone();
                let r = self.rt.block_on(m.create_space_persisted(space_id(num(2) as u64), &mem)).map_err(|x| e(format!("{:?}", x)));
                self.local(p, r, |(_, msgs)| msgs)
            }
            "cg" => {
                let Some(mem) = self.members(toks[2]) else { self.ops.push(vec![]); self.groups.push(None); return "L:!ref".into() };
                let m = self.peers[p].manager.clone();
                let r = self.rt.block_on(m.create_group_persisted(&mem)).map_err(|x| e(format!("{:?}", x)));
                match &r {
                    Ok((g, _)) => self.groups.push(Some(g.id())),
                    Err(_) => self.groups.push(None),
                }
                self.local(p, r, |(_, msg)| vec![msg])
            }
            "sadd" | "srm" => {
                let m = self.peers[p].manager.clone();
                let sid = space_id(num(2) as u64);
                let add = toks[0] == "sadd";
                let (who, acc) = toks[3].split_once(':').unwrap_or((toks[3], "r"));
                let Some(who) = self.actor(who) else { self.ops.push(vec![]); return "L:!ref".into() };
                let acc = access(acc);
                let r = self.rt.block_on(async {
                    let Some(space) = m.space(sid).await.map_err(|x| e(format!("{:?}", x)))? else { return Err("nospace".to_string()) };
                    if add { space.add_persisted(who, acc).await } else { space.remove_persisted(who).await }.map_err(|x| e(format!("{:?}", x)))
                });
                self.local(p, r, |(a, b)| vec![a, b])
            }
            "gadd" | "grm" => {
                let m = self.peers[p].manager.clone();
                let add = toks[0] == "gadd";
                let (who, acc) = toks[3].split_once(':').unwrap_or((toks[3], "r"));
                let (Some(gid), Some(who)) = (self.groups.get(num(2)).copied().flatten(), self.actor(who)) else { self.ops.push(vec![]); return "L:!ref".into() };
                let acc = access(acc);
                let r = self.rt.block_on(async {
                    let Some(group) = m.group(gid).await.map_err(|x| e(format!("{:?}", x)))? else { return Err("nogroup".to_string()) };
                    if add { group.add_persisted(who, acc).await } else { group.remove_persisted(who).await }.map_err(|x| e(format!("{:?}", x)))
                });
                self.local(p, r, |a| vec![a])
            }
            "pub" => {
                let m = self.peers[p].manager.clone();
                let sid = space_id(num(2) as u64);
                let data = hex::decode(toks.get(3).copied().unwrap_or("")).unwrap_or_default();
                let r = self.rt.block_on(async {
                    let Some(space) = m.space(sid).await.map_err(|x| e(format!("{:?}", x)))? else { return Err("nospace".to_string()) };
                    space.publish_persisted(&data).await.map_err(|x| e(format!("{:?}", x)))
                });
                self.local(p, r, |a| vec![a])
            }
            "rep" => {
                let m = self.peers[p].manager.clone();
                let r = self.rt.block_on(async {
                    let ids = m.spaces_repair_required().await.map_err(|x| e(format!("{:?}", x)))?;
                    m.repair_spaces_persisted(&ids).await.map_err(|x| e(format!("{:?}", x)))
                });
                self.local(p, r, |a| a)
            }
            "fg" => {
                // fg A V spec... : author A, V = peer whose state supplies valid heads
                let viewer = num(2).min(np - 1);
                match self.forge(toks[1], viewer, &toks[3..]) {
                    Ok(m) => {
                        self.ops.push(vec![m]);
                        "F:1".into()
                    }
                    Err(why) => {
                        self.ops.push(vec![]);
                        format!("F:!{}", why)
                    }
                }
            }
            "dl" => {
                let Some(msg) = self.ops.get(num(2)).and_then(|v| v.get(num(3))).cloned() else {
                    self.ops.push(vec![]);
                    return "D:?".into();
                };
                self.ops.push(vec![]);
                let before = self.last[p].clone();
                let m = self.peers[p].manager.clone();
                let peer = &self.peers[p];
                let rt = &self.rt;
                let res = catch_unwind(AssertUnwindSafe(|| {
                    rt.block_on(async {
                        peer.persist_operation(&msg).await.map_err(|_| "Persist".to_string())?;
                        m.process_persisted(&msg).await.map_err(|x| variant_path(&format!("{:?}", x), 4))
                    })
                }));
                let (r, ev) = match res {
                    Ok(Ok(events)) => {
                        let s: String = events
                            .iter()
                            .map(|e| match e {
                                Event::Application { .. } => 'A',
                                Event::KeyBundle { .. } => 'K',
                                Event::Group(_) => 'G',
                                Event::Space(_) => 'S',
                            })
                            .collect();
                        ("O".to_string(), if s.is_empty() { "-".to_string() } else { s })
                    }
                    Ok(Err(e)) => (format!("E.{}", e), "-".to_string()),
                    Err(p) => (format!("P.{}", panic_msg(p)), "-".to_string()),
                };
                let after = match catch_unwind(AssertUnwindSafe(|| self.digest(p))) {
                    Ok(d) => d,
                    Err(_) => (Hash::digest(b"digest-panicked"), "digest-panicked".to_string()),
                };
                let chg = if after.1 != before.1 { "S" } else if after.0 != before.0 { "D" } else { "N" };
                self.last[p] = after;
                format!("D:{}:{}:{}", r, ev, chg)
            }
            _ => {
                self.ops.push(vec![]);
                "?".into()
            }
        }
    }
}

fn node_matches(v: &Value, what: &str) -> bool {
    match what {
        "bytes" | "flip" | "trunc" | "zero" => matches!(v, Value::Bytes(b) if !b.is_empty()),
        "arr" | "dup" | "clear" | "rev" => matches!(v, Value::Array(a) if !a.is_empty()),
        "int" | "big" => matches!(v, Value::Integer(_)),
        _ => false,
    }
}

fn count_nodes(v: &Value, what: &str, cnt: &mut usize) {
    if node_matches(v, what) {
        *cnt += 1;
    }
    match v {
        Value::Array(a) => a.iter().for_each(|x| count_nodes(x, what, cnt)),
        Value::Map(m) => m.iter().for_each(|(k, x)| {
            count_nodes(k, what, cnt);
            count_nodes(x, what, cnt)
        }),
        Value::Tag(_, b) => count_nodes(b, what, cnt),
        _ => {}
    }
}

/// Apply mutation `what` to the n-th matching node (pre-order).
fn mutate(v: Value, what: &str, n: &mut usize, salt: u8) -> Value {
    if node_matches(&v, what) {
        if *n == 0 {
            *n = usize::MAX;
            return match (what, v) {
                ("flip", Value::Bytes(mut b)) => {
                    let i = salt as usize % b.len();
                    b[i] ^= 1 << (salt % 8);
                    Value::Bytes(b)
                }
                ("trunc", Value::Bytes(mut b)) => {
                    b.truncate(b.len() / 2);
                    Value::Bytes(b)
                }
                ("zero", Value::Bytes(b)) => Value::Bytes(vec![0; b.len()]),
                ("dup", Value::Array(mut a)) => {
                    let c = a.clone();
                    a.extend(c);
                    Value::Array(a)
                }
                ("clear", Value::Array(_)) => Value::Array(vec![]),
                ("rev", Value::Array(mut a)) => {
                    a.reverse();
                    Value::Array(a)
                }
                ("big", Value::Integer(_)) => Value::Integer(u64::MAX.into()),
                (_, v) => v,
            };
        }
        if *n != usize::MAX {
            *n -= 1;
        }
    }
    match v {
        Value::Array(a) => Value::Array(a.into_iter().map(|x| mutate(x, what, n, salt)).collect()),
        Value::Map(m) => Value::Map(m.into_iter().map(|(k, x)| (mutate(k, what, n, salt), mutate(x, what, n, salt))).collect()),
        Value::Tag(t, b) => Value::Tag(t, Box::new(mutate(*b, what, n, salt))),
        other => other,
    }
}

fn main() {
    h_common::run_cases(|payload| {
        let mut it = payload.split(';');
        let n: usize = it.next().unwrap_or("2").trim().parse().unwrap_or(2);
        let mut w = World::new(n.clamp(1, 6));
        let mut out: Vec<String> = Vec::new();
        for op in it {
            let toks: Vec<&str> = op.split_whitespace().collect();
            if toks.is_empty() {
                continue;
            }
            let before = w.ops.len();
            let tok = match catch_unwind(AssertUnwindSafe(|| w.step(&toks))) {
                Ok(t) => t,
                Err(e) => {
                    // keep op indices aligned
                    while w.ops.len() <= before {
                        w.ops.push(vec![]);
                    }
                    if toks[0] == "cg" && w.groups.len() < w.ops.iter().count() {
                        // group index bookkeeping: a panicking cg still consumes a group slot
                    }
                    format!("X:P.{}", panic_msg(e))
                }
            };
            out.push(tok);
        }
        out.join(" ")
    });
}
