//! C35: drive the real `EncryptionGroup` (data scheme) with the crate's `KeyManager`,
//! `KeyRegistry` and test `MessageOrderer`.
//!
//! Case payload: `<dgm> <n> <event>*`, members are `0..n`.
//!   dgm = `set`: a plain set-based DGM implemented here (`from_welcome` = welcomed view plus
//!   ourselves), `test`: the crate's `test_utils` `TestDgm`.
//! Events:
//!   `c<i>:<digits>`  member i creates the group with the given initial members
//!   `a<i>:<j>` add, `r<i>:<j>` remove, `u<i>` update (each successful one issues message #k,
//!   k counting successful operations from 0)
//!   `d<j>:<k>`  deliver message k to member j (the generator only emits causal orders)
//!   `q`         deliver every message not yet delivered to everyone (by message index)
//!   `p`         probe on cloned states: per member welcomed flag, members view, known secret
//!               ids (index of the generating operation), latest; then the cross-decryption
//!               matrix: every welcomed member i encrypts with every secret s it holds, every
//!               other member j receives it.
//! Output: one token per event (`ok`/`E:<err>` for operations, `.`/`E:<err>`/`R` (removed
//! signal) for deliveries, `P[...]` for probes).
use std::collections::{BTreeSet, HashMap, HashSet};
use std::convert::Infallible;
use std::fmt::Debug;

use p2panda_encryption::Rng;
use p2panda_encryption::crypto::x25519::SecretKey;
use p2panda_encryption::data_scheme::test_utils::dgm::TestDgm;
use p2panda_encryption::data_scheme::test_utils::ordering::MessageOrderer;
use p2panda_encryption::data_scheme::{
    EncryptionGroup, GroupError, GroupOutput, GroupSecretId, GroupState, SecretBundle,
};
use p2panda_encryption::key_bundle::Lifetime;
use p2panda_encryption::key_manager::KeyManager;
use p2panda_encryption::key_registry::KeyRegistry;
use p2panda_encryption::test_utils::{MemberId, MessageId};
use p2panda_encryption::traits::{GroupMembership, Ordering, PreKeyManager};
use serde::{Deserialize, Serialize};

/// Plain set DGM: the welcomed member's view is the adder's view plus itself.
#[derive(Clone, Debug, PartialEq, Eq, Serialize, Deserialize)]
pub struct SetDgm;

#[derive(Clone, Debug, PartialEq, Eq, Serialize, Deserialize)]
pub struct SetDgmState {
    members: BTreeSet<MemberId>,
}

impl GroupMembership<MemberId, MessageId> for SetDgm {
    type State = SetDgmState;
    type Error = Infallible;

    fn create(_my_id: MemberId, initial_members: &[MemberId]) -> Result<Self::State, Self::Error> {
        Ok(SetDgmState { members: initial_members.iter().cloned().collect() })
    }

    fn from_welcome(my_id: MemberId, y: Self::State) -> Result<Self::State, Self::Error> {
        let mut members = y.members;
        members.insert(my_id);
        Ok(SetDgmState { members })
    }

    fn add(mut y: Self::State, _adder: MemberId, added: MemberId, _op: MessageId) -> Result<Self::State, Self::Error> {
        y.members.insert(added);
        Ok(y)
    }

    fn remove(mut y: Self::State, _remover: MemberId, removed: &MemberId, _op: MessageId) -> Result<Self::State, Self::Error> {
        y.members.remove(removed);
        Ok(y)
    }

    fn members(y: &Self::State) -> Result<HashSet<MemberId>, Self::Error> {
        Ok(y.members.iter().cloned().collect())
    }
}

pub trait HDgm:
    GroupMembership<MemberId, MessageId> + Clone + Debug + Serialize + for<'a> Deserialize<'a>
{
    fn init_state(my_id: MemberId) -> Self::State;
}

impl HDgm for SetDgm {
    fn init_state(_my_id: MemberId) -> Self::State {
        SetDgmState { members: BTreeSet::new() }
    }
}

impl HDgm for TestDgm<MemberId, MessageId> {
    fn init_state(my_id: MemberId) -> Self::State {
        TestDgm::init(my_id)
    }
}

type St<D> = GroupState<MemberId, MessageId, KeyRegistry<MemberId>, D, KeyManager, MessageOrderer<D>>;
type Grp<D> = EncryptionGroup<MemberId, MessageId, KeyRegistry<MemberId>, D, KeyManager, MessageOrderer<D>>;
type Msg<D> = <MessageOrderer<D> as Ordering<MemberId, MessageId, D>>::Message;
type GErr<D> = GroupError<MemberId, MessageId, KeyRegistry<MemberId>, D, KeyManager, MessageOrderer<D>>;

fn err_name<D: HDgm>(e: &GErr<D>) -> String {
    match e {
        GroupError::Rng(_) => "Rng".into(),
        GroupError::Dcgka(inner) => {
            // only the variant name of the inner error
            let dbg = format!("{inner:?}");
            let name: String = dbg.chars().take_while(|c| c.is_alphanumeric()).collect();
            format!("Dcgka.{name}")
        }
        GroupError::Orderer(_) => "Orderer".into(),
        GroupError::XAead(_) => "XAead".into(),
        GroupError::GroupSecret(_) => "GroupSecret".into(),
        GroupError::GroupAlreadyEstablished => "GroupAlreadyEstablished".into(),
        GroupError::GroupNotYetEstablished => "GroupNotYetEstablished".into(),
        GroupError::NotAddOurselves => "NotAddOurselves".into(),
        GroupError::NoGroupSecretAvailable => "NoGroupSecretAvailable".into(),
        GroupError::UnknownGroupSecret(_) => "UnknownGroupSecret".into(),
    }
}

fn init_states<D: HDgm>(n: usize, rng: &Rng) -> Vec<St<D>>
where
    D::State: Clone,
{
    let mut managers = Vec::new();
    let mut bundles = Vec::new();
    for _ in 0..n {
        let identity_secret = SecretKey::from_bytes(rng.random_array().unwrap());
        let manager = KeyManager::init_and_generate_prekey(&identity_secret, Lifetime::default(), rng).unwrap();
        bundles.push(KeyManager::prekey_bundle(&manager).unwrap());
        managers.push(manager);
    }
    let mut out = Vec::new();
    for (id, manager) in managers.into_iter().enumerate() {
        let mut registry = KeyRegistry::init();
        for (other, bundle) in bundles.iter().enumerate() {
            registry = KeyRegistry::add_longterm_bundle(registry, other, bundle.clone()).unwrap();
        }
        let orderer = MessageOrderer::<D>::init(id);
        out.push(Grp::<D>::init(id, manager, registry, D::init_state(id), orderer));
    }
    out
}

struct World<D: HDgm> {
    states: Vec<St<D>>,
    /// issued control messages, by index; sender
    msgs: Vec<(MemberId, Msg<D>)>,
    delivered: Vec<HashSet<usize>>,
    /// secret id -> index of the operation (message) that generated it
    secret_idx: HashMap<GroupSecretId, usize>,
    rng: Rng,
}

impl<D: HDgm> World<D>
where
    D::State: Clone,
{
    fn op(&mut self, i: usize, f: impl FnOnce(St<D>, &Rng) -> Result<(St<D>, Msg<D>), GErr<D>>) -> String {
        let before: HashSet<GroupSecretId> = self.states[i].secrets.ids().cloned().collect();
        match f(self.states[i].clone(), &self.rng) {
            Ok((st, msg)) => {
                let k = self.msgs.len();
                for id in st.secrets.ids() {
                    if !before.contains(id) {
                        self.secret_idx.insert(*id, k);
                    }
                }
                self.states[i] = st;
                self.msgs.push((i, msg));
                self.delivered[i].insert(k);
                "ok".to_string()
            }
            Err(e) => format!("E:{}", err_name::<D>(&e)),
        }
    }

    fn deliver(&mut self, j: usize, k: usize) -> String {
        if k >= self.msgs.len() || j >= self.states.len() || self.delivered[j].contains(&k) {
            return "-".to_string();
        }
        let msg = self.msgs[k].1.clone();
        match Grp::<D>::receive(self.states[j].clone(), &msg) {
            Ok((st, outputs)) => {
                self.states[j] = st;
                self.delivered[j].insert(k);
                let mut tok = ".".to_string();
                for o in outputs {
                    match o {
                        GroupOutput::Removed => tok = "R".to_string(),
                        GroupOutput::Control(_) => tok.push('c'),
                        GroupOutput::Application { .. } => tok.push('a'),
                    }
                }
                tok
            }
            Err(e) => format!("E:{}", err_name::<D>(&e)),
        }
    }

    fn sid(&self, id: &GroupSecretId) -> String {
        match self.secret_idx.get(id) {
            Some(k) => k.to_string(),
            None => "?".to_string(),
        }
    }

    fn probe(&self) -> String {
        let n = self.states.len();
        let mut parts = Vec::new();
        // global order of the generated secrets by (timestamp, id), as the implementation sees it
        let mut all: Vec<(u64, GroupSecretId, usize)> = Vec::new();
        for st in &self.states {
            for (id, secret) in st.secrets.iter() {
                if let Some(k) = self.secret_idx.get(id) {
                    if !all.iter().any(|x| x.2 == *k) {
                        all.push((secret.timestamp(), *id, *k));
                    }
                }
            }
        }
        all.sort();
        parts.push(format!("T{}", h_common::join(&all.iter().map(|x| x.2).collect::<Vec<_>>(), ",")));
        for st in &self.states {
            let mut view: Vec<MemberId> = Grp::<D>::members(st).unwrap().into_iter().collect();
            view.sort();
            let mut known: Vec<String> = st.secrets.ids().map(|id| self.sid(id)).collect();
            known.sort_by_key(|s| s.parse::<usize>().unwrap_or(usize::MAX));
            let latest = st.secrets.latest().map(|s| self.sid(&s.id())).unwrap_or("-".to_string());
            parts.push(format!(
                "m{}:w{}:v{}:k{}:l{}",
                st.my_id,
                st.is_welcomed as u8,
                h_common::join(&view, ""),
                known.join(","),
                latest
            ));
        }
        // cross decryption
        for i in 0..n {
            let st = &self.states[i];
            if !st.is_welcomed {
                continue;
            }
            let mut ids: Vec<(usize, GroupSecretId)> = st
                .secrets
                .ids()
                .filter_map(|id| self.secret_idx.get(id).map(|k| (*k, *id)))
                .collect();
            ids.sort();
            for (k, sid) in ids {
                // restrict a clone of i's bundle to this one secret so that `send` uses it
                let others: Vec<GroupSecretId> = st.secrets.ids().filter(|x| **x != sid).cloned().collect();
                let y = Grp::<D>::update_secrets(st.clone(), |mut b| {
                    for o in &others {
                        b = SecretBundle::remove(b, o).0;
                    }
                    b
                });
                let plaintext = format!("data {i} {k}");
                let mut row = format!("x{i}.{k}:");
                match Grp::<D>::send(y, plaintext.as_bytes(), &self.rng) {
                    Err(e) => row.push_str(&format!("E:{}", err_name::<D>(&e))),
                    Ok((_, msg)) => {
                        for j in 0..n {
                            if j == i {
                                row.push('_');
                                continue;
                            }
                            match Grp::<D>::receive(self.states[j].clone(), &msg) {
                                Ok((_, outputs)) => {
                                    let mut c = 'n';
                                    for o in outputs {
                                        if let GroupOutput::Application { plaintext: p } = o {
                                            c = if p == plaintext.as_bytes() { '1' } else { 'w' };
                                        }
                                    }
                                    row.push(c);
                                }
                                Err(GroupError::UnknownGroupSecret(_)) => row.push('0'),
                                Err(_) => row.push('x'),
                            }
                        }
                    }
                }
                parts.push(row);
            }
        }
        format!("P[{}]", parts.join(" "))
    }
}

fn run<D: HDgm>(n: usize, events: &[&str]) -> String
where
    D::State: Clone,
{
    let rng = Rng::from_seed([9; 32]);
    let states = init_states::<D>(n, &rng);
    let mut w = World::<D> {
        states,
        msgs: Vec::new(),
        delivered: vec![HashSet::new(); n],
        secret_idx: HashMap::new(),
        rng,
    };
    let mut out = Vec::new();
    for ev in events {
        let kind = &ev[0..1];
        let rest = &ev[1..];
        let tok = match kind {
            "c" => {
                let (i, ms) = rest.split_once(':').expect("c<i>:<members>");
                let i: usize = i.parse().unwrap();
                let members: Vec<MemberId> = ms.chars().map(|c| c.to_digit(10).unwrap() as usize).collect();
                w.op(i, |y, rng| Grp::<D>::create(y, members, rng))
            }
            "a" => {
                let (i, j) = rest.split_once(':').expect("a<i>:<j>");
                let (i, j): (usize, usize) = (i.parse().unwrap(), j.parse().unwrap());
                w.op(i, |y, rng| Grp::<D>::add(y, j, rng))
            }
            "r" => {
                let (i, j) = rest.split_once(':').expect("r<i>:<j>");
                let (i, j): (usize, usize) = (i.parse().unwrap(), j.parse().unwrap());
                w.op(i, |y, rng| Grp::<D>::remove(y, j, rng))
            }
            "u" => {
                let i: usize = rest.parse().unwrap();
                w.op(i, |y, rng| Grp::<D>::update(y, rng))
            }
            "d" => {
                let (j, k) = rest.split_once(':').expect("d<j>:<k>");
                w.deliver(j.parse().unwrap(), k.parse().unwrap())
            }
            "q" => {
                let mut toks = Vec::new();
                for k in 0..w.msgs.len() {
                    for j in 0..n {
                        if !w.delivered[j].contains(&k) {
                            let t = w.deliver(j, k);
                            if t != "." {
                                toks.push(format!("{j}:{k}{t}"));
                            }
                        }
                    }
                }
                format!("q[{}]", toks.join(","))
            }
            "p" => w.probe(),
            _ => panic!("bad event {ev}"),
        };
        out.push(tok);
    }
    out.join(" ")
}

pub fn run_case(payload: &str) -> String {
    let toks: Vec<&str> = payload.split_whitespace().collect();
    let n: usize = toks[1].parse().expect("n");
    match toks[0] {
        "set" => run::<SetDgm>(n, &toks[2..]),
        "test" => run::<TestDgm<MemberId, MessageId>>(n, &toks[2..]),
        other => panic!("bad dgm {other}"),
    }
}
