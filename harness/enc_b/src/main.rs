//! Harness for the p2panda-encryption properties C37 (two-party secure messaging) and C35 (group
//! data encryption).  Dispatch on argv[1].
mod c35;
mod c37;

fn main() {
    let which = std::env::args().nth(1).unwrap_or_default();
    match which.as_str() {
        "c37" => h_common::run_cases(c37::run_case),
        "c35" => h_common::run_cases(c35::run_case),
        other => {
            eprintln!("unknown property {other}");
            std::process::exit(2);
        }
    }
}
