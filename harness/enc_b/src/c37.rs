//! C37: drive the real `TwoParty` (2SM) with the crate's `KeyManager`.
//!
//! Case payload: `<ot|lt> <r|s> <event>*`
//!   `ot` one-time pre-key bundles (`OneTimeTwoParty`), `lt` long-term bundles (`LongTermTwoParty`);
//!   `r`: B starts with `init_to_receive`, `s`: B starts with `init_to_send(bundle of A)`
//!   (A always starts with `init_to_send(bundle of B)`).
//! Events: `sa`/`sb` send; `ra`/`rb` deliver the next undelivered message (send order) to a/b;
//!   `pa<i>`/`pb<i>` deliver again the i-th (0-based) message that a/b already processed in order;
//!   `fa<k>`/`fb<k>` deliver the message k+1 positions *ahead* of the next one (out of order).
//! Output: one token per event (`S:<key used>` | `SE:<err>` | `R<plaintext id>` | `E:<err>` | `-`),
//! then ` | <state of a> | <state of b>` read from the serialised `TwoPartyState`/`KeyManagerState`.
use ciborium::Value;
use p2panda_encryption::Rng;
use p2panda_encryption::crypto::x25519::SecretKey;
use p2panda_encryption::key_bundle::Lifetime;
use p2panda_encryption::key_manager::{KeyManager, KeyManagerState};
use p2panda_encryption::traits::{KeyBundle, PreKeyManager};
use p2panda_encryption::two_party::{TwoParty, TwoPartyError, TwoPartyMessage, TwoPartyState};
use serde::Serialize;

fn to_value<T: Serialize>(t: &T) -> Value {
    Value::serialized(t).expect("serialise")
}

fn field<'a>(v: &'a Value, name: &str) -> &'a Value {
    v.as_map()
        .expect("map")
        .iter()
        .find(|(k, _)| k.as_text() == Some(name))
        .map(|(_, v)| v)
        .unwrap_or_else(|| panic!("no field {name}"))
}

fn uint(v: &Value) -> u64 {
    u64::try_from(v.as_integer().expect("integer")).expect("u64")
}

fn is_some(v: &Value) -> bool {
    !v.is_null()
}

fn show_key_used(v: &Value) -> String {
    if let Some(t) = v.as_text() {
        match t {
            "PreKey" => "p".to_string(),
            "ReceivedKey" => "r".to_string(),
            other => format!("?{other}"),
        }
    } else if let Some(m) = v.as_map() {
        let (k, val) = &m[0];
        assert_eq!(k.as_text(), Some("OwnKey"));
        format!("o{}", uint(val))
    } else {
        "?".to_string()
    }
}

fn show_state<KB: KeyBundle + Serialize>(s: &TwoPartyState<KB>, m: &KeyManagerState) -> String {
    let v = to_value(s);
    let mut keys: Vec<u64> = field(&v, "our_secret_keys")
        .as_map()
        .expect("keys map")
        .iter()
        .map(|(k, _)| uint(k))
        .collect();
    keys.sort();
    let mv = to_value(m);
    let onetime = field(&mv, "onetime_secrets").as_map().expect("onetime map").len();
    format!(
        "n{} m{} k{} r{} u{} b{} v{} o{}",
        uint(field(&v, "our_next_key_index")),
        uint(field(&v, "our_min_key_index")),
        h_common::join(&keys, ","),
        is_some(field(&v, "our_received_secret_key")) as u8,
        show_key_used(field(&v, "their_next_key_used")),
        is_some(field(&v, "their_prekey_bundle")) as u8,
        is_some(field(&v, "their_verifying_key")) as u8,
        onetime
    )
}

fn err_name(e: &TwoPartyError) -> &'static str {
    match e {
        TwoPartyError::Hpke(_) => "Hpke",
        TwoPartyError::X3dh(_) => "X3dh",
        TwoPartyError::Rng(_) => "Rng",
        TwoPartyError::Encode(_) => "Encode",
        TwoPartyError::Decode(_) => "Decode",
        TwoPartyError::X25519(_) => "X25519",
        TwoPartyError::PreKeyReuse => "PreKeyReuse",
        TwoPartyError::UnknownSecretUsed(_) => "UnknownSecretUsed",
        TwoPartyError::UnknownPreKeyUsed(_) => "UnknownPreKeyUsed",
        TwoPartyError::InvalidCiphertextType => "InvalidCiphertextType",
    }
}

struct Party<KB: KeyBundle> {
    st: TwoPartyState<KB>,
    mgr: KeyManagerState,
    /// Messages addressed to this party, in send order.
    inbox: Vec<TwoPartyMessage>,
    /// Number of inbox messages processed in order.
    ptr: usize,
}

fn run<KB>(
    mut a: Party<KB>,
    mut b: Party<KB>,
    events: &[&str],
    rng: &Rng,
) -> String
where
    KB: KeyBundle + Clone + Serialize,
{
    let mut out: Vec<String> = Vec::new();
    for (pos, ev) in events.iter().enumerate() {
        let kind = &ev[0..1];
        let who = &ev[1..2];
        let arg: usize = if ev.len() > 2 { ev[2..].parse().expect("arg") } else { 0 };
        let (me, other) = if who == "a" { (&mut a, &mut b) } else { (&mut b, &mut a) };
        match kind {
            "s" => {
                let plaintext = pos.to_string();
                match TwoParty::<KeyManager, KB>::send(me.st.clone(), &me.mgr, plaintext.as_bytes(), rng) {
                    Ok((st, msg)) => {
                        me.st = st;
                        let mv = to_value(&msg);
                        out.push(format!("S:{}", show_key_used(field(&mv, "key_used"))));
                        other.inbox.push(msg);
                    }
                    Err(e) => out.push(format!("SE:{}", err_name(&e))),
                }
            }
            "r" | "p" | "f" => {
                let idx = match kind {
                    "r" => Some(me.ptr),
                    "p" => if arg < me.ptr { Some(arg) } else { None },
                    _ => Some(me.ptr + 1 + arg),
                };
                let Some(idx) = idx.filter(|i| *i < me.inbox.len()) else {
                    out.push("-".to_string());
                    continue;
                };
                let msg = me.inbox[idx].clone();
                match TwoParty::<KeyManager, KB>::receive(me.st.clone(), me.mgr.clone(), msg) {
                    Ok((st, mgr, plaintext)) => {
                        me.st = st;
                        me.mgr = mgr;
                        if kind == "r" {
                            me.ptr += 1;
                        }
                        out.push(format!("R{}", String::from_utf8_lossy(&plaintext)));
                    }
                    Err(e) => out.push(format!("E:{}", err_name(&e))),
                }
            }
            _ => panic!("bad event {ev}"),
        }
    }
    format!(
        "{} | {} | {}",
        out.join(" "),
        show_state(&a.st, &a.mgr),
        show_state(&b.st, &b.mgr)
    )
}

pub fn run_case(payload: &str) -> String {
    let toks: Vec<&str> = payload.split_whitespace().collect();
    let mode = toks[0];
    let init = toks[1];
    let events = &toks[2..];
    let rng = Rng::from_seed([7; 32]);

    let a_id = SecretKey::from_bytes(rng.random_array().unwrap());
    let a_mgr = KeyManager::init_and_generate_prekey(&a_id, Lifetime::default(), &rng).unwrap();
    let b_id = SecretKey::from_bytes(rng.random_array().unwrap());
    let b_mgr = KeyManager::init_and_generate_prekey(&b_id, Lifetime::default(), &rng).unwrap();

    match mode {
        "ot" => {
            type T = TwoParty<KeyManager, p2panda_encryption::key_bundle::OneTimeKeyBundle>;
            let (b_mgr, b_bundle) = KeyManager::generate_onetime_bundle(b_mgr, &rng).unwrap();
            // A publishes a one-time bundle as well; B only starts from it in the `s` setup.
            let (a_mgr, a_bundle) = KeyManager::generate_onetime_bundle(a_mgr, &rng).unwrap();
            let b_st = if init == "s" { T::init_to_send(a_bundle) } else { T::init_to_receive() };
            let a = Party { st: T::init_to_send(b_bundle), mgr: a_mgr, inbox: vec![], ptr: 0 };
            let b = Party { st: b_st, mgr: b_mgr, inbox: vec![], ptr: 0 };
            run(a, b, events, &rng)
        }
        "lt" => {
            type T = TwoParty<KeyManager, p2panda_encryption::key_bundle::LongTermKeyBundle>;
            let b_bundle = KeyManager::prekey_bundle(&b_mgr).unwrap();
            let b_st = if init == "s" {
                T::init_to_send(KeyManager::prekey_bundle(&a_mgr).unwrap())
            } else {
                T::init_to_receive()
            };
            let a = Party { st: T::init_to_send(b_bundle), mgr: a_mgr, inbox: vec![], ptr: 0 };
            let b = Party { st: b_st, mgr: b_mgr, inbox: vec![], ptr: 0 };
            run(a, b, events, &rng)
        }
        other => panic!("bad mode {other}"),
    }
}
