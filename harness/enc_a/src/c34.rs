//! C34: drive the real `DecryptionRatchet::secret_for_decryption` next to the real sender
//! ratchet (`RatchetSecret::ratchet_forward`, real HKDF).
//!
//! Case payload: `<base> <g>:<fwd>:<ooo> ...` — the receiver starts with head generation `base`
//! and an empty window (for `base = 0` this is `DecryptionRatchet::init`; other bases are built
//! through the state's public serde representation so that the u32 boundaries can be reached).
//! Result: one token per request, `K<i>` = returned the key material the *sender* produced for
//! generation `i` (`K?` = key material of no sender generation), `F` TooDistantInTheFuture,
//! `P` TooDistantInThePast, `R` SecretReuse, `I` IndexOutOfBounds, `H` Hkdf error, `X` panic;
//! then ` | H<head generation> | <past window, newest first: sender generation or ->`
//! read from the serialised final state.
use std::collections::HashMap;
use std::panic::{AssertUnwindSafe, catch_unwind};

use ciborium::Value;
use p2panda_encryption::message_scheme::{
    DecryptionRatchet, DecryptionRatchetState, RatchetError, RatchetSecret, RatchetSecretState,
};

fn secret_bytes() -> Vec<u8> {
    (0u8..32).map(|i| i.wrapping_mul(7).wrapping_add(3)).collect()
}

fn head_value(base: u32) -> Value {
    Value::Map(vec![
        (Value::Text("secret".into()), Value::Bytes(secret_bytes())),
        (Value::Text("generation".into()), Value::Integer(base.into())),
    ])
}

fn sender_at(base: u32) -> RatchetSecretState {
    head_value(base).deserialized().expect("sender state")
}

fn receiver_at(base: u32) -> DecryptionRatchetState {
    Value::Map(vec![
        (Value::Text("past_secrets".into()), Value::Array(vec![])),
        (Value::Text("ratchet_head".into()), head_value(base)),
    ])
    .deserialized()
    .expect("receiver state")
}

/// Flatten any serialised key material (secret bytes + nonce) into a byte string.
fn flat(v: &Value, out: &mut Vec<u8>) {
    match v {
        Value::Bytes(b) => out.extend_from_slice(b),
        Value::Integer(i) => {
            let n: i128 = (*i).into();
            out.push(n as u8)
        }
        Value::Array(a) => a.iter().for_each(|x| flat(x, out)),
        Value::Map(m) => m.iter().for_each(|(_, x)| flat(x, out)),
        _ => out.push(0xff),
    }
}

fn key_of<T: serde::Serialize>(km: &T) -> Vec<u8> {
    let v = Value::serialized(km).expect("serialise key material");
    let mut out = Vec::new();
    flat(&v, &mut out);
    out
}

fn field<'a>(v: &'a Value, name: &str) -> &'a Value {
    match v {
        Value::Map(m) => m
            .iter()
            .find(|(k, _)| matches!(k, Value::Text(t) if t == name))
            .map(|(_, x)| x)
            .expect("field"),
        _ => panic!("not a map"),
    }
}

pub fn case(payload: &str) -> String {
    let mut toks = payload.split_whitespace();
    let base: u32 = toks.next().expect("base").parse().expect("base");
    let reqs: Vec<(u32, u32, u32)> = toks
        .map(|t| {
            let p: Vec<u32> = t.split(':').map(|x| x.parse().expect("u32")).collect();
            (p[0], p[1], p[2])
        })
        .collect();

    // Sender: real ratchet run alongside, far enough to cover every requested generation.
    let maxg = reqs.iter().map(|r| r.0).max().unwrap_or(0).max(base);
    let want = (maxg as u64 - base as u64 + 3).min(20000);
    let mut table: HashMap<Vec<u8>, u32> = HashMap::new();
    let mut sender = Some(sender_at(base));
    for i in 0..want {
        let s = sender.take().unwrap();
        // The sender itself overflows at generation u32::MAX (debug build): stop there.
        match catch_unwind(AssertUnwindSafe(|| RatchetSecret::ratchet_forward(s))) {
            Ok(Ok((s1, g, km))) => {
                assert_eq!(g as u64, base as u64 + i, "sender generation numbering");
                table.insert(key_of(&km), g);
                sender = Some(s1);
            }
            _ => break,
        }
    }

    let mut y = receiver_at(base);
    let mut out: Vec<String> = Vec::new();
    for (g, fwd, ooo) in reqs {
        let attempt = y.clone();
        let r = catch_unwind(AssertUnwindSafe(|| {
            DecryptionRatchet::secret_for_decryption(attempt, g, fwd, ooo)
        }));
        match r {
            Ok(Ok((y1, km))) => {
                y = y1;
                out.push(match table.get(&key_of(&km)) {
                    Some(i) => format!("K{i}"),
                    None => "K?".to_string(),
                });
            }
            Ok(Err(e)) => out.push(
                match e {
                    RatchetError::TooDistantInTheFuture => "F",
                    RatchetError::TooDistantInThePast => "P",
                    RatchetError::SecretReuse => "R",
                    RatchetError::IndexOutOfBounds => "I",
                    RatchetError::Hkdf(_) => "H",
                }
                .to_string(),
            ),
            Err(_) => out.push("X".to_string()),
        }
    }

    // Final state through its serde representation.
    let v = Value::serialized(&y).expect("serialise state");
    let head = field(&v, "ratchet_head");
    let hg: i128 = match field(head, "generation") {
        Value::Integer(i) => (*i).into(),
        _ => -1,
    };
    let past: Vec<String> = match field(&v, "past_secrets") {
        Value::Array(a) => a
            .iter()
            .map(|e| match e {
                Value::Null => "-".to_string(),
                other => {
                    let mut b = Vec::new();
                    flat(other, &mut b);
                    match table.get(&b) {
                        Some(i) => i.to_string(),
                        None => "?".to_string(),
                    }
                }
            })
            .collect(),
        _ => vec!["BAD".to_string()],
    };
    format!("{} | H{} | {}", out.join(" "), hg, past.join(","))
}
