pub fn case(_payload: &str) -> String { "TODO".into() }
