//! C36: drive the real `SecretBundle` (`init`, `from_secrets`, `insert`, `extend`, `remove`,
//! `generate`) with the real SHA-256 ids, the real `HashMap` iteration order and the real clock.
//!
//! Payload: `<pool> ; <script> ; <script> ...`; pool = `seed:rank:ts,...` (key bytes derived
//! from `seed`; `rank` = position of the SHA-256 id among the pool's ids, verified here);
//! a script drives a stack of bundles: `n` push init, `f:a,b,..` push from_secrets, `i:k` insert
//! pool[k] into the top, `x` pop other and extend the new top with it, `r:k` remove pool[k]'s id
//! from the top, `g` generate on the top and insert the result.
//! After each op the top bundle is printed as `<latest>/<content sorted by id>`: pool secrets by
//! rank, the j-th generated secret as `g<j>`; timestamps inside [T0, T0+1000] (T0 = wall clock
//! at case start) as `N+<k>`.  A panicking op prints `X` and leaves the stack unchanged.
use std::panic::{AssertUnwindSafe, catch_unwind};
use std::time::{Duration, SystemTime, UNIX_EPOCH};

use p2panda_encryption::Rng;
use p2panda_encryption::data_scheme::group_secret::{
    GroupSecret, GroupSecretId, SecretBundle, SecretBundleState,
};

fn now_parts() -> (u64, u32) {
    let d = SystemTime::now().duration_since(UNIX_EPOCH).expect("clock");
    (d.as_secs(), d.subsec_millis())
}

fn key_bytes(seed: u64) -> [u8; 32] {
    let mut b = [0xA5u8; 32];
    b[24..].copy_from_slice(&seed.to_be_bytes());
    b
}

struct Pool {
    secrets: Vec<GroupSecret>,
    ranks: Vec<u64>,
    generated: Vec<GroupSecretId>,
    t0: u64,
}

impl Pool {
    fn id_token(&self, id: &GroupSecretId) -> (u64, u64, String) {
        if let Some(k) = self.secrets.iter().position(|s| &s.id() == id) {
            (0, self.ranks[k], self.ranks[k].to_string())
        } else if let Some(j) = self.generated.iter().position(|g| g == id) {
            (1, j as u64, format!("g{j}"))
        } else {
            (2, 0, "?".to_string())
        }
    }

    fn ts_token(&self, ts: u64) -> String {
        if ts >= self.t0 && ts <= self.t0 + 1000 {
            format!("N+{}", ts - self.t0)
        } else {
            ts.to_string()
        }
    }

    fn show(&self, y: &SecretBundleState) -> String {
        let latest = match y.latest() {
            Some(s) => self.id_token(&s.id()).2,
            None => "-".to_string(),
        };
        let mut content: Vec<(u64, u64, String)> = y
            .iter()
            .map(|(id, s)| {
                let (a, b, t) = self.id_token(id);
                // the map key must be the secret's own id
                let t = if *id == s.id() { t } else { format!("KEY!{t}") };
                (a, b, format!("{}@{}", t, self.ts_token(s.timestamp())))
            })
            .collect();
        content.sort();
        let content: Vec<String> = content.into_iter().map(|c| c.2).collect();
        format!("{}/{}", latest, content.join(","))
    }
}

pub fn case(payload: &str) -> String {
    // `generate` reads the wall clock: a case whose run crossed a second boundary is repeated.
    for _ in 0..8 {
        if let Some(s) = attempt(payload) {
            return s;
        }
    }
    "CLOCK".to_string()
}

fn attempt(payload: &str) -> Option<String> {
    // Keep the whole case inside one wall-clock second.
    let (mut t0, ms) = now_parts();
    if ms > 850 {
        std::thread::sleep(Duration::from_millis((1005 - ms) as u64));
        t0 = now_parts().0;
    }

    let mut parts = payload.split(';');
    let pool_s = parts.next().expect("pool").trim();
    let mut pool = Pool { secrets: vec![], ranks: vec![], generated: vec![], t0 };
    if !pool_s.is_empty() {
        for e in pool_s.split(',') {
            let f: Vec<u64> = e.trim().split(':').map(|x| x.parse().expect("num")).collect();
            pool.secrets.push(GroupSecret::new(key_bytes(f[0]), f[2]));
            pool.ranks.push(f[1]);
        }
    }
    for a in 0..pool.secrets.len() {
        for b in 0..pool.secrets.len() {
            if pool.secrets[a].id().cmp(&pool.secrets[b].id()) != pool.ranks[a].cmp(&pool.ranks[b]) {
                return Some("BADRANK".to_string());
            }
        }
    }

    let rng = Rng::from_seed([7; 32]);
    let mut outs: Vec<String> = Vec::new();
    for script in parts {
        let mut stack: Vec<SecretBundleState> = Vec::new();
        let mut toks: Vec<String> = Vec::new();
        for op in script.split_whitespace() {
            let (kind, arg) = match op.split_once(':') {
                Some((k, a)) => (k, a),
                None => (op, ""),
            };
            let idx: Vec<usize> = arg
                .split(',')
                .filter(|x| !x.is_empty())
                .map(|x| x.parse().expect("idx"))
                .collect();
            let before = stack.clone();
            let r = catch_unwind(AssertUnwindSafe(|| {
                let mut stack = before;
                let mut generated: Option<GroupSecretId> = None;
                match kind {
                    "n" => stack.push(SecretBundle::init()),
                    "f" => stack.push(SecretBundle::from_secrets(
                        idx.iter().map(|k| pool.secrets[*k].clone()).collect(),
                    )),
                    "i" => {
                        let y = stack.pop().expect("stack");
                        stack.push(SecretBundle::insert(y, pool.secrets[idx[0]].clone()));
                    }
                    "x" => {
                        let other = stack.pop().expect("stack");
                        let y = stack.pop().expect("stack");
                        stack.push(SecretBundle::extend(y, other));
                    }
                    "r" => {
                        let y = stack.pop().expect("stack");
                        let (y, _) = SecretBundle::remove(y, &pool.secrets[idx[0]].id());
                        stack.push(y);
                    }
                    "g" => {
                        let y = stack.pop().expect("stack");
                        let s = SecretBundle::generate(&y, &rng).expect("generate");
                        generated = Some(s.id());
                        stack.push(SecretBundle::insert(y, s));
                    }
                    other => panic!("unknown op {other}"),
                }
                (stack, generated)
            }));
            match r {
                Ok((s, g)) => {
                    stack = s;
                    if let Some(g) = g {
                        pool.generated.push(g);
                    }
                    toks.push(pool.show(stack.last().expect("top")));
                }
                Err(_) => toks.push("X".to_string()),
            }
        }
        // generated secrets are numbered per script
        pool.generated.clear();
        outs.push(toks.join(" "));
    }
    if now_parts().0 != t0 {
        return None;
    }
    Some(outs.join(" || "))
}
