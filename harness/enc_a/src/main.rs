//! Harness for C34 (message ratchet), C36 (secret bundle), C38 (key registry) of
//! p2panda-encryption.  Dispatch on argv[1].
mod c34;
mod c36;
mod c38;

fn main() {
    let which = std::env::args().nth(1).unwrap_or_default();
    match which.as_str() {
        "c34" => h_common::run_cases(c34::case),
        "c36" => h_common::run_cases(c36::case),
        "c38" => h_common::run_cases(c38::case),
        other => {
            eprintln!("unknown property {other}");
            std::process::exit(2);
        }
    }
}
