//! C38: drive the real `KeyRegistry` against the real clock.
//!
//! Payload: `<pool> ; <ops>`; pool = `nb_off:na_off:sig,...` — bundle k has lifetime
//! `(T0 + nb_off, T0 + na_off)` where T0 is the wall-clock second at case start, and a pre-key
//! signature made with the member's identity secret (`sig = 1`) or with a foreign secret
//! (`sig = 0`, so it does not verify).  Ops: `ao:m:k` add pool[k] as one-time bundle of member m,
//! `al:m:k` add as long-term, `go:m` / `gl:m` fetch, `rx` remove_expired, `w` wait for the next
//! wall-clock second; `so:m:k1.k2...` / `sl:m:k1.k2...` replace member m's one-time / long-term
//! Vec by `[pool[k1], pool[k2], ...]` (push order, may be empty) by editing the registry state's
//! serde representation and reading it back from CBOR bytes (state restored from persistence:
//! nothing is verified on that path); `cn:m` number of stored one-time / long-term bundles of m
//! (read off the serialised state).  The bundle of (member, k) is built once per attempt and
//! re-used, so adding it again registers the *identical* bundle (XEdDSA signatures are
//! randomised).  The model's clock is `1000 + number of waits`; the harness checks at the
//! end of every segment that the wall clock is still in the expected second and restarts the
//! case otherwise.
//! Output per op: `A` accepted, `RL` / `RS` rejected (lifetime / signature), `G-` nothing,
//! `G<k>:ok|bad` returned pool[k] and `verify()` on it right now says ok / fails, `E`
//! KeyBundlesExpired, `D` done (also restore), `N<a>/<b>` counts; `w` prints nothing.
use std::cell::RefCell;
use std::collections::HashMap;
use std::time::{Duration, SystemTime, UNIX_EPOCH};

use ciborium::Value;

use p2panda_encryption::Rng;
use p2panda_encryption::crypto::x25519::SecretKey;
use p2panda_encryption::key_bundle::{
    KeyBundleError, Lifetime, LongTermKeyBundle, OneTimeKeyBundle, OneTimePreKey, PreKey,
};
use p2panda_encryption::key_registry::{KeyRegistry, KeyRegistryError, KeyRegistryState};
use p2panda_encryption::traits::{KeyBundle, PreKeyRegistry};

fn now_parts() -> (u64, u32) {
    let d = SystemTime::now().duration_since(UNIX_EPOCH).expect("clock");
    (d.as_secs(), d.subsec_millis())
}

/// Sleep until the wall clock is just inside a fresh second; returns that second.
fn next_second() -> u64 {
    let (s, ms) = now_parts();
    std::thread::sleep(Duration::from_millis((1000 - ms) as u64 + 15));
    let (s2, _) = now_parts();
    let _ = s;
    s2
}

fn rej(e: KeyRegistryError) -> &'static str {
    match e {
        KeyRegistryError::KeyBundle(KeyBundleError::Lifetime(_)) => "RL",
        KeyRegistryError::KeyBundle(KeyBundleError::XEdDSA(_)) => "RS",
        _ => "R?",
    }
}

struct Spec {
    nb: i64,
    na: i64,
    sig: bool,
}

fn attempt(pool: &[Spec], ops: &[&str]) -> Option<String> {
    let rng = Rng::from_seed([3; 32]);
    // start inside the first 700 ms of a second
    let (mut t0, ms) = now_parts();
    if ms > 700 {
        t0 = next_second();
    }
    let members: Vec<SecretKey> = (0..4)
        .map(|_| SecretKey::from_bytes(rng.random_array().unwrap()))
        .collect();
    let foreign = SecretKey::from_bytes(rng.random_array().unwrap());

    // Every bundle is built per (member, k) on demand; the pre-key of pool[k] is fixed.
    let prekeys: Vec<SecretKey> = (0..pool.len())
        .map(|_| SecretKey::from_bytes(rng.random_array().unwrap()))
        .collect();
    let mk_prekey = |k: usize| {
        let s = &pool[k];
        PreKey::new(
            prekeys[k].verifying_key().unwrap(),
            Lifetime::from_range((t0 as i64 + s.nb) as u64, (t0 as i64 + s.na) as u64),
        )
    };
    // Built once per (member, k): registering (member, k) again registers the identical bundle.
    let ot_cache: RefCell<HashMap<(usize, usize), OneTimeKeyBundle>> = RefCell::new(HashMap::new());
    let lt_cache: RefCell<HashMap<(usize, usize), LongTermKeyBundle>> = RefCell::new(HashMap::new());
    let onetime = |m: usize, k: usize| {
        ot_cache
            .borrow_mut()
            .entry((m, k))
            .or_insert_with(|| {
                let prekey = mk_prekey(k);
                let signer = if pool[k].sig { &members[m] } else { &foreign };
                let sig = prekey.sign(signer, &rng).unwrap();
                let otk = SecretKey::from_bytes([k as u8 + 1; 32]);
                OneTimeKeyBundle::new(
                    members[m].verifying_key().unwrap(),
                    prekey,
                    sig,
                    Some(OneTimePreKey::new(otk.verifying_key().unwrap(), k as u64)),
                )
            })
            .clone()
    };
    let longterm = |m: usize, k: usize| {
        lt_cache
            .borrow_mut()
            .entry((m, k))
            .or_insert_with(|| {
                let prekey = mk_prekey(k);
                let signer = if pool[k].sig { &members[m] } else { &foreign };
                let sig = prekey.sign(signer, &rng).unwrap();
                LongTermKeyBundle::new(members[m].verifying_key().unwrap(), prekey, sig)
            })
            .clone()
    };

    let mut y: KeyRegistryState<usize> = KeyRegistry::init();
    let mut out: Vec<String> = Vec::new();
    let mut expect = t0;
    for op in ops {
        let f: Vec<&str> = op.split(':').collect();
        let arg = |i: usize| f[i].parse::<usize>().expect("arg");
        match f[0] {
            "w" => {
                if now_parts().0 != expect {
                    return None;
                }
                let s = next_second();
                expect += 1;
                if s != expect {
                    return None;
                }
            }
            "ao" => match KeyRegistry::add_onetime_bundle(y.clone(), arg(1), onetime(arg(1), arg(2))) {
                Ok(y1) => {
                    y = y1;
                    out.push("A".into())
                }
                Err(e) => out.push(rej(e).into()),
            },
            "al" => match KeyRegistry::add_longterm_bundle(y.clone(), arg(1), longterm(arg(1), arg(2))) {
                Ok(y1) => {
                    y = y1;
                    out.push("A".into())
                }
                Err(e) => out.push(rej(e).into()),
            },
            "go" => {
                let m = arg(1);
                let (y1, b): (_, Option<OneTimeKeyBundle>) =
                    <KeyRegistry<usize> as PreKeyRegistry<usize, OneTimeKeyBundle>>::key_bundle(y.clone(), &m)
                        .expect("infallible");
                y = y1;
                out.push(match b {
                    None => "G-".to_string(),
                    Some(b) => {
                        let k = b.onetime_prekey_id().map(|x| x.to_string()).unwrap_or("?".into());
                        format!("G{}:{}", k, if b.verify().is_ok() { "ok" } else { "bad" })
                    }
                });
            }
            "gl" => {
                let m = arg(1);
                match <KeyRegistry<usize> as PreKeyRegistry<usize, LongTermKeyBundle>>::key_bundle(y.clone(), &m) {
                    Ok((y1, b)) => {
                        y = y1;
                        out.push(match b {
                            None => "G-".to_string(),
                            Some(b) => {
                                let k = (0..pool.len())
                                    .find(|k| prekeys[*k].verifying_key().unwrap() == *b.signed_prekey())
                                    .map(|k| k.to_string())
                                    .unwrap_or("?".into());
                                format!("G{}:{}", k, if b.verify().is_ok() { "ok" } else { "bad" })
                            }
                        });
                    }
                    Err(KeyRegistryError::KeyBundlesExpired) => out.push("E".into()),
                    Err(_) => out.push("E?".into()),
                }
            }
            "so" | "sl" => {
                let m = arg(1);
                let ks: Vec<usize> = f
                    .get(2)
                    .copied()
                    .unwrap_or("")
                    .split('.')
                    .filter(|x| !x.is_empty())
                    .map(|x| x.parse().expect("k"))
                    .collect();
                let one = f[0] == "so";
                let bundles: Vec<Value> = ks
                    .iter()
                    .map(|k| {
                        if one {
                            Value::serialized(&onetime(m, *k)).expect("ser bundle")
                        } else {
                            Value::serialized(&longterm(m, *k)).expect("ser bundle")
                        }
                    })
                    .collect();
                let identity = Value::serialized(&members[m].verifying_key().unwrap()).expect("ser key");
                y = restore(&y, if one { "onetime_bundles" } else { "longterm_bundles" }, m, bundles, identity);
                out.push("D".into());
            }
            "cn" => {
                let m = arg(1);
                let v = Value::serialized(&y).expect("ser state");
                out.push(format!("N{}/{}", stored(&v, "onetime_bundles", m), stored(&v, "longterm_bundles", m)));
            }
            "rx" => {
                y = KeyRegistry::remove_expired(y);
                out.push("D".into());
            }
            other => panic!("unknown op {other}"),
        }
    }
    if now_parts().0 != expect {
        return None;
    }
    Some(out.join(" "))
}

fn field_mut<'a>(v: &'a mut Value, name: &str) -> &'a mut Vec<(Value, Value)> {
    let Value::Map(fields) = v else { panic!("state is not a map") };
    let (_, val) = fields
        .iter_mut()
        .find(|(k, _)| matches!(k, Value::Text(t) if t == name))
        .unwrap_or_else(|| panic!("no field {name}"));
    let Value::Map(entries) = val else { panic!("{name} is not a map") };
    entries
}

fn is_member(k: &Value, m: usize) -> bool {
    matches!(k, Value::Integer(i) if u64::try_from(*i).ok() == Some(m as u64))
}

/// Registry state restored from persisted bytes in which member m's Vec in `field` is `bundles`.
fn restore(
    y: &KeyRegistryState<usize>,
    field: &str,
    m: usize,
    bundles: Vec<Value>,
    identity: Value,
) -> KeyRegistryState<usize> {
    let mut v = Value::serialized(y).expect("ser state");
    let entries = field_mut(&mut v, field);
    entries.retain(|(k, _)| !is_member(k, m));
    entries.push((Value::Integer((m as u64).into()), Value::Array(bundles)));
    let ids = field_mut(&mut v, "identities");
    ids.retain(|(k, _)| !is_member(k, m));
    ids.push((Value::Integer((m as u64).into()), identity));
    let mut bytes = Vec::new();
    ciborium::into_writer(&v, &mut bytes).expect("encode state");
    ciborium::from_reader(&bytes[..]).expect("decode state")
}

fn stored(v: &Value, field: &str, m: usize) -> usize {
    let Value::Map(fields) = v else { panic!("state is not a map") };
    let Some((_, Value::Map(entries))) = fields.iter().find(|(k, _)| matches!(k, Value::Text(t) if t == field)) else {
        panic!("no field {field}")
    };
    entries
        .iter()
        .find(|(k, _)| is_member(k, m))
        .map(|(_, l)| match l {
            Value::Array(a) => a.len(),
            _ => panic!("not a list"),
        })
        .unwrap_or(0)
}

pub fn case(payload: &str) -> String {
    let (pool_s, ops_s) = payload.split_once(';').expect("payload");
    let pool: Vec<Spec> = pool_s
        .trim()
        .split(',')
        .filter(|x| !x.trim().is_empty())
        .map(|e| {
            let f: Vec<i64> = e.trim().split(':').map(|x| x.parse().expect("num")).collect();
            Spec { nb: f[0], na: f[1], sig: f[2] != 0 }
        })
        .collect();
    let ops: Vec<&str> = ops_s.split_whitespace().collect();
    for _ in 0..6 {
        if let Some(s) = attempt(&pool, &ops) {
            return s;
        }
    }
    "CLOCK".to_string()
}
