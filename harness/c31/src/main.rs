//! C31: drive the real `GroupCrdt<char, u32, _, C, StrongRemove>` with one history in several
//! causal orders and query every group several times on every replica.
//!
//! Case payload (numbers separated by spaces):
//!   `<mode> <reps> <nops> {op}* <ngroups> {g}* <norders> {order: nops indices}*`
//!   op = `<id> <author> <group> <kind> <mkind> <mid> <lvl> <cond> <ninit> {<mkind> <mid> <lvl> <cond>}* <ndeps> {dep}*`
//!   mode 0: C = () (no conditions), mode 1: C = Cond(u8) (total order on the number);
//!   kind 0 create, 1 add, 2 remove, 3 promote, 4 demote; mkind 0 individual, 1 group;
//!   lvl 0..3 = Pull, Read, Write, Manage; cond 0 = None, c+1 = Some(c).
//!
//! Result: one answer per (order, repetition), joined by " / ":
//!   `acc=<bit per op> e=<char per op> m<g>{i<id>=<lvl>.<cond>,...} r<g>{...} ...`  (entries sorted).
//! An operation whose dependency was not accepted on that replica is not processable and is
//! skipped (bit 0), as is an operation `process` rejects.  `e=` gives the outcome KIND of every
//! operation on that replica (variant names only): `.` accepted, `-` skipped (dependency not
//! accepted), `D` DuplicateOperation, `C` GroupCycle, `M` ManagerGroupsNotAllowed, `I` Inner
//! (StatesNotFound), `R` Resolver, StateChangeError: `a` AlreadyAdded, `r` AlreadyRemoved,
//! `s` InsufficientAccess, `n` InactiveActor, `m` InactiveMember, `u` UnrecognisedActor,
//! `v` UnrecognisedMember.  Replicas of one history must agree on it too.
use std::collections::HashSet;
use std::fmt::Debug;

use p2panda_auth::group::resolver::StrongRemove;
use p2panda_auth::group::{GroupAction, GroupCrdt, GroupCrdtError, GroupMember, GroupMembershipError};
use p2panda_auth::traits::{Conditions, Operation};
use p2panda_auth::{Access, AccessLevel};

#[derive(Clone, Debug, PartialEq, Eq, PartialOrd, Ord)]
struct Cond(u8);
impl Conditions for Cond {}

trait Codec: Conditions {
    fn enc(c: u64) -> Option<Self>;
    fn dec(c: &Option<Self>) -> u64;
}
impl Codec for () {
    fn enc(c: u64) -> Option<Self> {
        assert!(c == 0, "condition in a case without conditions");
        None
    }
    fn dec(c: &Option<Self>) -> u64 {
        match c {
            None => 0,
            Some(()) => 1,
        }
    }
}
impl Codec for Cond {
    fn enc(c: u64) -> Option<Self> {
        if c == 0 { None } else { Some(Cond((c - 1) as u8)) }
    }
    fn dec(c: &Option<Self>) -> u64 {
        match c {
            None => 0,
            Some(Cond(n)) => *n as u64 + 1,
        }
    }
}

#[derive(Clone, Debug)]
struct HOp<C> {
    id: u32,
    author: char,
    group: char,
    action: GroupAction<char, C>,
    deps: Vec<u32>,
}

impl<C: Conditions> Operation<char, u32, C> for HOp<C> {
    fn id(&self) -> u32 {
        self.id
    }
    fn author(&self) -> char {
        self.author
    }
    fn dependencies(&self) -> Vec<u32> {
        self.deps.clone()
    }
    fn group_id(&self) -> char {
        self.group
    }
    fn action(&self) -> GroupAction<char, C> {
        self.action.clone()
    }
}

fn ch(n: u64) -> char {
    char::from_u32(0x100 + n as u32).expect("char")
}
fn un(c: char) -> u64 {
    c as u64 - 0x100
}
fn member(k: u64, id: u64) -> GroupMember<char> {
    if k == 0 { GroupMember::Individual(ch(id)) } else { GroupMember::Group(ch(id)) }
}
fn access<C: Codec>(l: u64, c: u64) -> Access<C> {
    let level = match l {
        0 => AccessLevel::Pull,
        1 => AccessLevel::Read,
        2 => AccessLevel::Write,
        _ => AccessLevel::Manage,
    };
    Access { conditions: C::enc(c), level }
}
fn lvl(l: &AccessLevel) -> u64 {
    match l {
        AccessLevel::Pull => 0,
        AccessLevel::Read => 1,
        AccessLevel::Write => 2,
        AccessLevel::Manage => 3,
    }
}

struct Rd<'a> {
    v: &'a [u64],
    p: usize,
}
impl<'a> Rd<'a> {
    fn n(&mut self) -> u64 {
        let x = self.v[self.p];
        self.p += 1;
        x
    }
}

fn entries<C: Codec>(mut v: Vec<(GroupMember<char>, Access<C>)>) -> String {
    v.sort_by_key(|(m, _)| (m.is_group(), m.id()));
    let s: Vec<String> = v
        .iter()
        .map(|(m, a)| {
            format!(
                "{}{}={}.{}",
                if m.is_group() { "g" } else { "i" },
                un(m.id()),
                lvl(&a.level),
                C::dec(&a.conditions)
            )
        })
        .collect();
    format!("{{{}}}", s.join(","))
}

fn run_case<C: Codec + Debug>(r: &mut Rd) -> String {
    let reps = r.n() as usize;
    let nops = r.n() as usize;
    let mut ops: Vec<HOp<C>> = Vec::new();
    for _ in 0..nops {
        let id = r.n() as u32;
        let author = ch(r.n());
        let group = ch(r.n());
        let kind = r.n();
        let mk = r.n();
        let mid = r.n();
        let l = r.n();
        let c = r.n();
        let ninit = r.n();
        let mut init = Vec::new();
        for _ in 0..ninit {
            let k = r.n();
            let i = r.n();
            let l = r.n();
            let c = r.n();
            init.push((member(k, i), access::<C>(l, c)));
        }
        let ndeps = r.n();
        let deps: Vec<u32> = (0..ndeps).map(|_| r.n() as u32).collect();
        let action = match kind {
            0 => GroupAction::Create { initial_members: init },
            1 => GroupAction::Add { member: member(mk, mid), access: access::<C>(l, c) },
            2 => GroupAction::Remove { member: member(mk, mid) },
            3 => GroupAction::Promote { member: member(mk, mid), access: access::<C>(l, c) },
            _ => GroupAction::Demote { member: member(mk, mid), access: access::<C>(l, c) },
        };
        ops.push(HOp { id, author, group, action, deps });
    }
    let ngroups = r.n() as usize;
    let groups: Vec<char> = (0..ngroups).map(|_| ch(r.n())).collect();
    let norders = r.n() as usize;
    let mut answers: Vec<String> = Vec::new();
    for _ in 0..norders {
        let order: Vec<usize> = (0..nops).map(|_| r.n() as usize).collect();
        let mut y = GroupCrdt::<char, u32, HOp<C>, C, StrongRemove<char, u32, HOp<C>, C>>::init();
        let mut accepted: HashSet<u32> = HashSet::new();
        let mut kinds: Vec<char> = vec!['-'; nops];
        for idx in order {
            let op = &ops[idx];
            if !op.deps.iter().all(|d| accepted.contains(d)) {
                continue;
            }
            match GroupCrdt::<char, u32, HOp<C>, C, StrongRemove<char, u32, HOp<C>, C>>::process(y.clone(), op) {
                Ok(y2) => {
                    y = y2;
                    accepted.insert(op.id);
                    kinds[idx] = '.';
                }
                Err(e) => {
                    kinds[idx] = match e {
                        GroupCrdtError::Inner(_) => 'I',
                        GroupCrdtError::DuplicateOperation(..) => 'D',
                        GroupCrdtError::GroupCycle(..) => 'C',
                        GroupCrdtError::ManagerGroupsNotAllowed(..) => 'M',
                        GroupCrdtError::Resolver(..) => 'R',
                        GroupCrdtError::StateChangeError(_, m) => match m {
                            GroupMembershipError::AlreadyAdded(..) => 'a',
                            GroupMembershipError::AlreadyRemoved(..) => 'r',
                            GroupMembershipError::InsufficientAccess(..) => 's',
                            GroupMembershipError::InactiveActor(..) => 'n',
                            GroupMembershipError::InactiveMember(..) => 'm',
                            GroupMembershipError::UnrecognisedActor(..) => 'u',
                            GroupMembershipError::UnrecognisedMember(..) => 'v',
                        },
                    };
                }
            }
        }
        let bits: String = ops.iter().map(|o| if accepted.contains(&o.id) { '1' } else { '0' }).collect();
        let kinds: String = kinds.into_iter().collect();
        // Safety valve: `members_inner` has no visited set and is bounded only by
        // MAX_NESTED_DEPTH = 1000; with two nesting cycles through one group a query would take
        // 2^500 steps.  Bound the number of calls from the direct members of the final state and
        // answer `DEEP` instead of hanging (the generators keep well below this bound).
        let edges: Vec<(char, Vec<char>)> = groups
            .iter()
            .map(|g| (*g, y.root_members(*g).into_iter().filter(|(m, _)| m.is_group()).map(|(m, _)| m.id()).collect()))
            .collect();
        let mut w: Vec<u64> = vec![1; groups.len()];
        for _ in 0..1000 {
            let w2: Vec<u64> = edges
                .iter()
                .map(|(_, subs)| {
                    let mut t: u64 = 1;
                    for h in subs {
                        let c = groups.iter().position(|x| x == h).map(|p| w[p]).unwrap_or(1);
                        t = t.saturating_add(c).min(1 << 40);
                    }
                    t
                })
                .collect();
            if w2 == w {
                break;
            }
            w = w2;
        }
        if w.iter().fold(0u64, |a, b| a.saturating_add(*b)) > 60_000 {
            for _ in 0..reps {
                answers.push(format!("acc={} e={} DEEP", bits, kinds));
            }
            continue;
        }
        for _ in 0..reps {
            let mut s = format!("acc={} e={}", bits, kinds);
            for g in &groups {
                let m: Vec<(GroupMember<char>, Access<C>)> =
                    y.members(*g).into_iter().map(|(id, a)| (GroupMember::Individual(id), a)).collect();
                s.push_str(&format!(" m{}{} r{}{}", un(*g), entries(m), un(*g), entries(y.root_members(*g))));
            }
            answers.push(s);
        }
    }
    answers.join(" / ")
}

fn main() {
    h_common::run_cases(|payload| {
        let v = h_common::nums(payload);
        let mut r = Rd { v: &v, p: 0 };
        let mode = r.n();
        if mode == 0 { run_case::<()>(&mut r) } else { run_case::<Cond>(&mut r) }
    });
}
