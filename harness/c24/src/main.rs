//! C24: drive the real `DeduplicationBuffer` (via the cfg hook re-export).
//! Case payload: `<cap> <x1> <x2> ...`; result: `<answers as 0/1> | <final content oldest first> |
//! <number of fresh inserts after which each of them was evicted>`.
//! The final content is observed through the public `contains` on every item of the alphabet
//! used plus insertion order reconstructed from answers (the buffer does not expose its deque),
//! so the harness reports the *set* in ascending age as far as it can be known: it re-derives the
//! order by evicting: it inserts fresh sentinels one at a time and watches which item disappears.
use p2panda_sync::verif::DeduplicationBuffer;

fn main() {
    h_common::run_cases(|payload| {
        let v = h_common::nums(payload);
        let cap = v[0] as usize;
        let xs = &v[1..];
        let mut buf: DeduplicationBuffer<u64> = DeduplicationBuffer::new(cap);
        let mut answers = String::new();
        for x in xs {
            answers.push(if buf.insert(*x) { '1' } else { '0' });
        }
        // Reconstruct the content oldest-first: candidates are the distinct inputs.
        let mut cands: Vec<u64> = xs.to_vec();
        cands.sort();
        cands.dedup();
        let mut present: Vec<u64> = cands.iter().copied().filter(|c| buf.contains(c)).collect();
        let mut order: Vec<u64> = Vec::new();
        let mut evicted_at: Vec<usize> = Vec::new();
        let mut sentinel = 1u64 << 40;
        // Each fresh sentinel evicts the oldest remaining original item once the buffer is full.
        let mut guard = 0;
        while !present.is_empty() && guard < 4 * (cap + 2) {
            guard += 1;
            buf.insert(sentinel);
            sentinel += 1;
            let gone: Vec<u64> = present.iter().copied().filter(|c| !buf.contains(c)).collect();
            for g in gone {
                order.push(g);
                evicted_at.push(guard);
                present.retain(|p| *p != g);
            }
        }
        // Anything never evicted (would mean the buffer grew beyond its capacity) is flagged.
        let mut s = format!(
            "{} | {} | {}",
            answers,
            h_common::join(&order, ","),
            h_common::join(&evicted_at, ",")
        );
        if !present.is_empty() {
            s.push_str(&format!(" STUCK {}", h_common::join(&present, ",")));
        }
        s
    });
}
