//! C30: drive the real `PsiHashDiscoveryProtocol` (p2panda-discovery/src/psi_hash.rs) with real
//! BLAKE3 and the real SQLite address book.
//!
//! Case payload (fields separated by `|`):
//!   `honest <seed> <rA> <rB> | <ta> | <tb> | <bookA> | <bookB>`
//!       both sides are the real implementation, connected by two mpsc channels whose sinks log
//!       every message (in causal order: single-threaded runtime, strictly alternating protocol).
//!   `alice <seed> <r> <sink> | <topics> | <book> | <script>`   /   `bob ...`
//!       (`<sink>` = `-` or the number of messages after which the peer drops its receiver)
//!       one real side against a scripted peer; `<script>` is the sequence of items the real side
//!       finds on its stream, after which the stream is closed.
//!
//!   topics       csv of topic indices (`-` = empty); topic j = BLAKE3("topic", seed, j)
//!   book         `;`-separated entries `id:stale:tr:t1/t2/..` (tr `-` = no transport info);
//!                node ids: 0 = alice, 1 = bob, others >= 2
//!   script item  `S1` | `S2:<words>` | `H3:<words>` | `N:<id>=<tr>,..` | `E` (stream yields Err)
//!   word         `h0.<j>`/`h1.<j>` salted hash of topic j with direction byte 0/1 under this
//!                session's two salt halves, `r<j>` raw topic j, `j<k>` junk value k
//!
//! Observation (canonical; model prints the same line):
//!   honest:  `<resA> | <resB> | <m1> ; <m2> ; ... | leaks <hits>`
//!   script:  `<res> | <sent messages> | leaks <hits>`
//!   res   = `ok <topics> / <infos> / <remote id>` or `err <Variant>`
//!   msg   = `a>S1` `b>S2 <words>` `a>H3 <words>` `x>N <infos>`
//! Every 32-byte value found in a message is mapped back to `h<byte>.<j>` by recomputing
//! BLAKE3(topic_j || alice_half || bob_half || byte) with the halves seen on the wire, to `r<j>`
//! if it equals a raw topic, else `?`.  `leaks`: every logged message is serialised with postcard
//! (the wire codec of p2panda-net) and with CBOR and the bytes are searched for the 32 raw bytes
//! (and the hex text) of every topic of the scenario.
use std::collections::{BTreeMap, HashSet};
use std::sync::{Arc, Mutex};
use std::time::Duration;

use futures_channel::mpsc;
use futures_util::{SinkExt, StreamExt};
use p2panda_core::cbor::{decode_cbor, encode_cbor};
use p2panda_core::{SigningKey, Topic};
use p2panda_discovery::psi_hash::{Config, PsiHashDiscoveryProtocol, PsiHashError, PsiHashMessage};
use p2panda_discovery::test_utils::TestSubscription;
use p2panda_discovery::{DiscoveryProtocol, DiscoveryResult};
use p2panda_store::address_book::AddressBookStore;
use p2panda_store::address_book::test_utils::{TestNodeId, TestNodeInfo, TestTransportInfo};
use p2panda_store::{SqliteStore, Transaction};

type Msg = PsiHashMessage<TestNodeId, TestNodeInfo>;
type Proto = PsiHashDiscoveryProtocol<SqliteStore, TestSubscription, TestNodeId, TestNodeInfo>;
type Res = Result<DiscoveryResult<TestNodeId, TestNodeInfo>, PsiHashError<SqliteStore, TestSubscription, TestNodeId, TestNodeInfo>>;

/// Minimum size of the topic table; it grows to the largest topic number of the case (large-set cases).
const MAX_TOPICS: u64 = 64;
const MAX_NODES: u64 = 32;
const MAX_JUNK: u64 = 8;

fn derive(tag: &str, seed: u64, i: u64) -> [u8; 32] {
    let mut h = blake3::Hasher::new();
    h.update(b"p2panda-verif-c30/");
    h.update(tag.as_bytes());
    h.update(&seed.to_le_bytes());
    h.update(&i.to_le_bytes());
    *h.finalize().as_bytes()
}

/// The salted hash as the protocol is specified: BLAKE3(topic || alice half || bob half || byte).
fn salted(topic: &[u8; 32], sa: &[u8; 32], sb: &[u8; 32], byte: u8) -> [u8; 32] {
    let mut h = blake3::Hasher::new();
    h.update(topic);
    h.update(sa);
    h.update(sb);
    h.update(&[byte]);
    *h.finalize().as_bytes()
}

struct World {
    seed: u64,
    topics: Vec<[u8; 32]>,
    nodes: Vec<TestNodeId>,
    junk: Vec<[u8; 32]>,
    transports: Mutex<BTreeMap<u64, TestTransportInfo>>,
}

impl World {
    fn new(seed: u64, n_topics: u64) -> Self {
        World {
            seed,
            topics: (0..n_topics.max(MAX_TOPICS)).map(|j| derive("topic", seed, j)).collect(),
            nodes: (0..MAX_NODES).map(|k| SigningKey::from_bytes(&derive("node", seed, k)).verifying_key()).collect(),
            junk: (0..MAX_JUNK).map(|k| derive("junk", seed, k)).collect(),
            transports: Mutex::new(BTreeMap::new()),
        }
    }
    fn topic(&self, j: u64) -> Topic {
        Topic::from(self.topics[j as usize])
    }
    fn transport(&self, tr: u64) -> TestTransportInfo {
        self.transports.lock().unwrap().entry(tr).or_insert_with(|| TestTransportInfo::new(&format!("10.0.0.{tr}"))).clone()
    }
    fn peer_half(&self) -> [u8; 32] {
        derive("half", self.seed, 0)
    }
    fn node_idx(&self, id: &TestNodeId) -> String {
        match self.nodes.iter().position(|n| n == id) {
            Some(k) => k.to_string(),
            None => "?".into(),
        }
    }
    fn transport_idx(&self, t: &TestTransportInfo) -> String {
        for (k, v) in self.transports.lock().unwrap().iter() {
            if v == t {
                return k.to_string();
            }
        }
        "?".into()
    }
    /// (sort key, rendering) of a 32-byte value seen in a message / result.
    fn word(&self, v: &[u8; 32], halves: Option<(&[u8; 32], &[u8; 32])>) -> (u64, String) {
        for (j, t) in self.topics.iter().enumerate() {
            let j = j as u64;
            if v == t {
                return (4 * j, format!("r{j}"));
            }
            if let Some((sa, sb)) = halves {
                if *v == salted(t, sa, sb, 0) {
                    return (4 * j + 1, format!("h0.{j}"));
                }
                if *v == salted(t, sa, sb, 1) {
                    return (4 * j + 2, format!("h1.{j}"));
                }
            }
        }
        for (k, t) in self.junk.iter().enumerate() {
            if v == t {
                return (4 * k as u64 + 3, format!("j{k}"));
            }
        }
        (u64::MAX, "?".into())
    }
    fn words(&self, set: &HashSet<Topic>, halves: Option<(&[u8; 32], &[u8; 32])>) -> String {
        let mut ws: Vec<(u64, String)> = set.iter().map(|t| self.word(t.as_bytes(), halves)).collect();
        ws.sort();
        csv(ws.into_iter().map(|w| w.1).collect())
    }
    fn infos(&self, m: &BTreeMap<TestNodeId, TestTransportInfo>) -> String {
        let mut v: Vec<(u64, String)> = m
            .iter()
            .map(|(id, t)| {
                let k = self.node_idx(id);
                (k.parse::<u64>().unwrap_or(u64::MAX), format!("{}={}", k, self.transport_idx(t)))
            })
            .collect();
        v.sort();
        csv(v.into_iter().map(|x| x.1).collect())
    }
    fn result(&self, r: &Res) -> String {
        match r {
            Ok(res) => {
                let mut ts: Vec<(u64, String)> = res.topics.iter().map(|t| self.word(t.as_bytes(), None)).collect();
                ts.sort();
                let ts: Vec<String> = ts.into_iter().map(|w| w.1.trim_start_matches('r').to_string()).collect();
                format!("ok {} / {} / {}", csv(ts), self.infos(&res.transport_infos), self.node_idx(&res.remote_node_id))
            }
            Err(e) => format!(
                "err {}",
                match e {
                    PsiHashError::Store(_) => "Store",
                    PsiHashError::Subscription(_) => "Subscription",
                    PsiHashError::UnexpectedMessage => "UnexpectedMessage",
                    PsiHashError::Stream => "Stream",
                    PsiHashError::Sink => "Sink",
                    PsiHashError::Hash(_) => "Hash",
                }
            ),
        }
    }
}

fn csv(v: Vec<String>) -> String {
    if v.is_empty() { "-".into() } else { v.join(",") }
}

fn parse_csv(s: &str) -> Vec<u64> {
    let s = s.trim();
    if s.is_empty() || s == "-" {
        return vec![];
    }
    s.split(',').map(|t| t.trim().parse::<u64>().expect("number")).collect()
}

struct Entry {
    id: u64,
    stale: bool,
    tr: Option<u64>,
    topics: Vec<u64>,
}

fn parse_book(s: &str) -> Vec<Entry> {
    let s = s.trim();
    if s.is_empty() || s == "-" {
        return vec![];
    }
    s.split(';')
        .map(|e| {
            let p: Vec<&str> = e.trim().split(':').collect();
            Entry {
                id: p[0].parse().expect("id"),
                stale: p[1] == "1",
                tr: if p[2] == "-" { None } else { Some(p[2].parse().expect("tr")) },
                topics: if p.len() < 4 || p[3].is_empty() || p[3] == "-" { vec![] } else { p[3].split('/').map(|t| t.parse().expect("topic")).collect() },
            }
        })
        .collect()
}

async fn make_store(w: &World, book: &[Entry]) -> SqliteStore {
    let store = SqliteStore::temporary().await;
    let permit = store.begin().await.unwrap();
    for e in book {
        let id = w.nodes[e.id as usize];
        let info = TestNodeInfo { id, bootstrap: false, stale: e.stale, transports: e.tr.map(|t| w.transport(t)) };
        store.insert_node_info(info).await.unwrap();
        <SqliteStore as AddressBookStore<TestNodeId, TestNodeInfo>>::set_topics(&store, id, e.topics.iter().map(|j| w.topic(*j)).collect())
            .await
            .unwrap();
    }
    store.commit(permit).await.unwrap();
    store
}

async fn make_proto(w: &World, me: u64, remote: u64, restricted: bool, topics: &[u64], book: &[Entry]) -> Proto {
    let store = make_store(w, book).await;
    let mut sub = TestSubscription::default();
    for j in topics {
        sub.topics.insert(w.topic(*j));
    }
    PsiHashDiscoveryProtocol::with_config(store, sub, w.nodes[me as usize], w.nodes[remote as usize], Config { share_nodes_with_common_topics: restricted })
}

/// A logged message: direction, the message re-read from its own CBOR bytes, postcard and CBOR bytes.
struct Logged {
    dir: char,
    postcard: Vec<u8>,
    cbor: Vec<u8>,
}

fn log_msg(log: &Arc<Mutex<Vec<Logged>>>, dir: char, m: &Msg) {
    log.lock().unwrap().push(Logged { dir, postcard: postcard::to_allocvec(m).expect("postcard"), cbor: encode_cbor(m).expect("cbor") });
}

fn contains(hay: &[u8], needle: &[u8]) -> bool {
    hay.windows(needle.len()).any(|w| w == needle)
}

/// Render the logged messages and scan their serialisations for raw topics.
fn render_log(w: &World, log: &[Logged], known_half: Option<(char, [u8; 32])>) -> (String, String) {
    let msgs: Vec<Msg> = log.iter().map(|l| decode_cbor::<Msg, _>(&l.cbor[..]).expect("cbor round trip")).collect();
    // the two salt halves as seen on the wire (first of each kind), or the scripted peer's
    let mut sa: Option<[u8; 32]> = None;
    let mut sb: Option<[u8; 32]> = None;
    match known_half {
        Some(('a', h)) => sa = Some(h),
        Some((_, h)) => sb = Some(h),
        None => {}
    }
    for m in &msgs {
        match m {
            PsiHashMessage::AliceSaltHalf { alice_salt_half } if sa.is_none() => sa = Some(*alice_salt_half),
            PsiHashMessage::BobSaltHalfAndHashedData { bob_salt_half, .. } if sb.is_none() => sb = Some(*bob_salt_half),
            _ => {}
        }
    }
    let halves = match (&sa, &sb) {
        (Some(a), Some(b)) => Some((a, b)),
        _ => None,
    };
    let mut out = vec![];
    for (l, m) in log.iter().zip(msgs.iter()) {
        out.push(match m {
            PsiHashMessage::AliceSaltHalf { .. } => format!("{}>S1", l.dir),
            PsiHashMessage::BobSaltHalfAndHashedData { topics_for_alice, .. } => format!("{}>S2 {}", l.dir, w.words(topics_for_alice, halves)),
            PsiHashMessage::AliceHashedData { topics_for_bob } => format!("{}>H3 {}", l.dir, w.words(topics_for_bob, halves)),
            PsiHashMessage::Nodes { transport_infos } => format!("{}>N {}", l.dir, w.infos(transport_infos)),
        });
    }
    let mut hits = vec![];
    for (i, l) in log.iter().enumerate() {
        for (j, t) in w.topics.iter().enumerate() {
            let hex = hex_of(t);
            if contains(&l.postcard, t) || contains(&l.cbor, t) || contains(&l.postcard, hex.as_bytes()) || contains(&l.cbor, hex.as_bytes()) {
                hits.push(format!("m{}.t{}", i + 1, j));
            }
        }
    }
    (if out.is_empty() { "-".into() } else { out.join(" ; ") }, csv(hits))
}

fn hex_of(b: &[u8; 32]) -> String {
    b.iter().map(|x| format!("{:02x}", x)).collect()
}

async fn run_honest(w: &World, ra: bool, rb: bool, ta: &[u64], tb: &[u64], book_a: &[Entry], book_b: &[Entry]) -> String {
    let pa = make_proto(w, 0, 1, ra, ta, book_a).await;
    let pb = make_proto(w, 1, 0, rb, tb, book_b).await;
    let log: Arc<Mutex<Vec<Logged>>> = Arc::new(Mutex::new(vec![]));
    let (a_tx, b_rx) = mpsc::channel::<Msg>(16);
    let (b_tx, a_rx) = mpsc::channel::<Msg>(16);
    let la = log.clone();
    let lb = log.clone();
    let fa = async move {
        let mut tx = a_tx.with(move |m: Msg| {
            log_msg(&la, 'a', &m);
            futures_util::future::ready(Ok::<Msg, mpsc::SendError>(m))
        });
        let mut rx = a_rx.map(Ok::<Msg, ()>);
        pa.alice(&mut tx, &mut rx).await
    };
    let fb = async move {
        let mut tx = b_tx.with(move |m: Msg| {
            log_msg(&lb, 'b', &m);
            futures_util::future::ready(Ok::<Msg, mpsc::SendError>(m))
        });
        let mut rx = b_rx.map(Ok::<Msg, ()>);
        pb.bob(&mut tx, &mut rx).await
    };
    let (res_a, res_b): (Res, Res) = futures_util::future::join(fa, fb).await;
    let log = log.lock().unwrap();
    let (tr, leaks) = render_log(w, &log, None);
    format!("{} | {} | {} | leaks {}", w.result(&res_a), w.result(&res_b), tr, leaks)
}

enum Item {
    S1,
    S2(Vec<String>),
    H3(Vec<String>),
    N(Vec<(u64, u64)>),
    E,
}

fn parse_script(s: &str) -> Vec<Item> {
    let s = s.trim();
    if s.is_empty() || s == "-" {
        return vec![];
    }
    s.split(';')
        .map(|it| {
            let it = it.trim();
            let (k, arg) = match it.split_once(':') {
                Some((k, a)) => (k, a.trim()),
                None => (it, ""),
            };
            let words = || -> Vec<String> { if arg.is_empty() || arg == "-" { vec![] } else { arg.split(',').map(|x| x.trim().to_string()).collect() } };
            match k {
                "S1" => Item::S1,
                "S2" => Item::S2(words()),
                "H3" => Item::H3(words()),
                "N" => Item::N(words().iter().map(|p| { let (a, b) = p.split_once('=').expect("id=tr"); (a.parse().unwrap(), b.parse().unwrap()) }).collect()),
                "E" => Item::E,
                _ => panic!("bad script item {it}"),
            }
        })
        .collect()
}

fn build_word(w: &World, s: &str, sa: &[u8; 32], sb: &[u8; 32]) -> Topic {
    if let Some(r) = s.strip_prefix("h0.") {
        Topic::from(salted(&w.topics[r.parse::<usize>().unwrap()], sa, sb, 0))
    } else if let Some(r) = s.strip_prefix("h1.") {
        Topic::from(salted(&w.topics[r.parse::<usize>().unwrap()], sa, sb, 1))
    } else if let Some(r) = s.strip_prefix('r') {
        Topic::from(w.topics[r.parse::<usize>().unwrap()])
    } else if let Some(r) = s.strip_prefix('j') {
        Topic::from(w.junk[r.parse::<usize>().unwrap()])
    } else {
        panic!("bad word {s}")
    }
}

async fn run_script(w: &World, real_is_alice: bool, r: bool, sink: Option<usize>, topics: &[u64], book: &[Entry], script: Vec<Item>) -> String {
    let (me, remote) = if real_is_alice { (0, 1) } else { (1, 0) };
    let proto = make_proto(w, me, remote, r, topics, book).await;
    // make sure every transport mentioned by the script exists in the table
    for it in &script {
        if let Item::N(v) = it {
            for (_, tr) in v {
                w.transport(*tr);
            }
        }
    }
    // In this mode the log holds what the peer actually *received* (a send into a closed sink is
    // not a message on the wire).
    let log: Arc<Mutex<Vec<Logged>>> = Arc::new(Mutex::new(vec![]));
    let (real_tx, peer_rx) = mpsc::channel::<Msg>(16);
    let (mut peer_tx, real_rx) = mpsc::channel::<Result<Msg, ()>>(16);
    let dir = if real_is_alice { 'a' } else { 'b' };
    let real = async move {
        let mut tx = real_tx;
        let mut rx = real_rx;
        if real_is_alice { proto.alice(&mut tx, &mut rx).await } else { proto.bob(&mut tx, &mut rx).await }
    };
    let peer_half = w.peer_half();
    let lp = log.clone();
    let peer = async move {
        let mut peer_rx = Some(peer_rx);
        let mut received = 0usize;
        let mut remote_half: Option<[u8; 32]> = None;
        let mut first_sent_is_s1: Option<bool> = None;
        // Read messages from the real side until `n` have arrived (or it hung up).
        macro_rules! read_until {
            ($n:expr) => {
                while received < $n {
                    let Some(rx) = peer_rx.as_mut() else { break };
                    match rx.next().await {
                        Some(m) => {
                            match &m {
                                PsiHashMessage::AliceSaltHalf { alice_salt_half } if remote_half.is_none() => remote_half = Some(*alice_salt_half),
                                PsiHashMessage::BobSaltHalfAndHashedData { bob_salt_half, .. } if remote_half.is_none() => remote_half = Some(*bob_salt_half),
                                _ => {}
                            }
                            log_msg(&lp, dir, &m);
                            received += 1;
                        }
                        None => break,
                    }
                }
            };
        }
        // The receiver is dropped after `k` messages, at the moment the real side cannot have
        // sent more: alice's (j+1)-th send follows her reading item j-1, bob's follows item j.
        let close_at: Option<usize> = sink.map(|k| if real_is_alice { k.saturating_sub(1) } else { k });
        let mut closed = false;
        let n_items = script.len();
        for (idx, it) in script.into_iter().enumerate() {
            if let (Some(k), Some(at)) = (sink, close_at) {
                if !closed && idx == at {
                    read_until!(k);
                    peer_rx = None;
                    closed = true;
                }
            }
            let needs = matches!(it, Item::S2(_) | Item::H3(_));
            // The real alice always opens with her half; the real bob answers with his half only
            // if the first thing he read was S1 (otherwise he has already failed).
            let will_come = if real_is_alice { true } else { first_sent_is_s1 == Some(true) };
            if needs && remote_half.is_none() && will_come && !closed {
                read_until!(1);
            }
            let rh = remote_half.unwrap_or([0; 32]);
            let (sa, sb) = if real_is_alice { (rh, peer_half) } else { (peer_half, rh) };
            if first_sent_is_s1.is_none() {
                first_sent_is_s1 = Some(matches!(it, Item::S1));
            }
            let m: Result<Msg, ()> = match it {
                Item::S1 => Ok(PsiHashMessage::AliceSaltHalf { alice_salt_half: peer_half }),
                Item::S2(ws) => Ok(PsiHashMessage::BobSaltHalfAndHashedData { bob_salt_half: peer_half, topics_for_alice: ws.iter().map(|x| build_word(w, x, &sa, &sb)).collect() }),
                Item::H3(ws) => Ok(PsiHashMessage::AliceHashedData { topics_for_bob: ws.iter().map(|x| build_word(w, x, &sa, &sb)).collect() }),
                Item::N(v) => Ok(PsiHashMessage::Nodes { transport_infos: v.iter().map(|(id, tr)| (w.nodes[*id as usize], w.transport(*tr))).collect() }),
                Item::E => Err(()),
            };
            let _ = peer_tx.send(m).await;
        }
        if let Some(k) = sink {
            if !closed && k == 0 && n_items == 0 {
                // close before the real side's very first send
                peer_rx = None;
            }
        }
        // Script exhausted before the closing point: the real side cannot send more than `k`
        // messages any more (it runs into the closed stream first), so just hang up and drain.
        drop(peer_tx);
        read_until!(usize::MAX);
    };
    // the peer is polled first, so a receiver that is to be closed before the first message is closed
    // before the real side gets to send it
    let ((), res): ((), Res) = futures_util::future::join(peer, real).await;
    let log = log.lock().unwrap();
    let (tr, leaks) = render_log(w, &log, Some((if real_is_alice { 'b' } else { 'a' }, peer_half)));
    format!("{} | {} | leaks {}", w.result(&res), tr, leaks)
}

fn main() {
    let rt = tokio::runtime::Builder::new_current_thread().enable_all().build().expect("runtime");
    h_common::run_cases(|payload| {
        let f: Vec<&str> = payload.split('|').collect();
        let head: Vec<&str> = f[0].split_whitespace().collect();
        let seed: u64 = head[1].parse().expect("seed");
        // topic table large enough for every topic number of the case (topic lists and address books)
        let mut n_topics = 0u64;
        let n_lists = if head[0] == "honest" { 2 } else { 1 };
        for i in 1..=n_lists {
            n_topics = parse_csv(f[i]).iter().fold(n_topics, |m, j| m.max(j + 1));
        }
        for i in n_lists + 1..=2 * n_lists {
            for e in parse_book(f[i]) {
                n_topics = e.topics.iter().fold(n_topics, |m, j| m.max(j + 1));
            }
        }
        let w = World::new(seed, n_topics);
        let fut = async {
            match head[0] {
                "honest" => {
                    let (ra, rb) = (head[2] == "1", head[3] == "1");
                    run_honest(&w, ra, rb, &parse_csv(f[1]), &parse_csv(f[2]), &parse_book(f[3]), &parse_book(f[4])).await
                }
                "alice" | "bob" => {
                    let sink = head.get(3).and_then(|x| x.parse::<usize>().ok());
                    run_script(&w, head[0] == "alice", head[2] == "1", sink, &parse_csv(f[1]), &parse_book(f[2]), parse_script(f[3])).await
                }
                other => panic!("unknown mode {other}"),
            }
        };
        rt.block_on(async {
            match tokio::time::timeout(Duration::from_secs(20), fut).await {
                Ok(s) => s,
                Err(_) => "TIMEOUT".to_string(),
            }
        })
    });
}
