//! C03 / C05: drive the real `ingest_operation` and the real `LogPrune` processor on an in-memory
//! `SqliteStore`, composed as the node pipeline composes them (p2panda/src/processor/pipeline.rs:
//! ingest, then log-prune with `PruneEntriesUntil {author, log, seq}` iff the prune flag is set and
//! ingest did not fail).
//!
//! Case payload: `<authors> <logs>|<op>;<op>;...|<delivery> <delivery> ...`
//!   op = `a,l,seq,bl,p,b,c,id`
//!     a, l   author / log index            seq  u32 sequence number
//!     bl     backlink: `n` none, `o<j>` header hash of op j (j earlier), `b<k>` bogus hash k
//!     p, b   prune flag / has body (0|1)
//!     c      corruption: 0 none, 1 signed by another key, 2 tampered after signing,
//!            3 body/payload mismatch, 4 unsupported version, 5 signature missing
//!     id     `Operation.hash` field: `s` the header hash, `o<j>` header hash of op j, `j<k>` junk k
//!     optional 9th field `src`: reuse the header of op `src` unchanged (a copy; only b and id apply)
//!   delivery = index into the op list
//!
//! Result: `V=<validate_operation bit per op> ; <step> ; <step> ...`
//!   step = `<res>/<log>+<log>...`, res = I | A | R:<reason> | P (panic: case ends there)
//!   log  = `a.l=seq:id:hh:bl:p:b,...^height`  (only non-empty logs; entries as returned by
//!          `get_log_entries`, height from `get_log_heights`)
//! Hashes are printed as numbers: header hash of op j = j+1, junk k = 800+k, bogus k = 900+k,
//! anything else 999.
//!
//! Concurrent cases (C05, overlapping ingest calls): payload
//!   `C <db> <mode> <authors> <logs>|<ops>|<deliveries>|<batch>|<schedule>`
//!   db    = `mem` (`SqliteStore::temporary()`, one connection) | `file` (file-backed database,
//!           default pool of `SqliteStoreBuilder::new()`)
//!   mode  = `hand`  every call of the batch is a boxed `ingest_operation` future on the same store;
//!                   they are polled by hand in the order of `<schedule>` (indices into the batch),
//!                   afterwards round-robin until all have returned;
//!           `join`  `join_all` of the futures on a multi-thread runtime;
//!           `spawn` one spawned task per call on a multi-thread runtime.
//!   The deliveries run first, one after the other (ingest + log-prune, as above).  Then the batch
//!   runs concurrently (ingest only), then the log-prune step of every prune-flagged call that
//!   returned Ok runs, in batch order.
//! Result: `<sequential part as above> ;; B=<res>,<res>../ins=<id>,<id>../<dump>/<dump> ;; <info>`
//!   B    result per call of the batch         ins  hash-field names of the rows inserted by the
//!   batch in `rowid` (= commit) order          dumps: all logs before / after the prune steps
//!   info: completion order and number of polls (not compared).
use std::collections::HashMap;
use std::future::Future;
use std::panic::{AssertUnwindSafe, catch_unwind};
use std::pin::Pin;
use std::sync::Arc;
use std::sync::atomic::{AtomicBool, AtomicU64, Ordering};
use std::task::{Context, Poll, Wake, Waker};
use std::time::{Duration, Instant};

use p2panda_core::{
    Body, Hash, Header, Operation, OperationError, SeqNum, SigningKey, VerifyingKey,
    validate_operation,
};
use p2panda_store::{SqliteStore, SqliteStoreBuilder};
use p2panda_store::logs::LogStore;
use p2panda_stream::Processor;
use p2panda_stream::ingest::{IngestError, ingest_operation};
use p2panda_stream::log_prune::{LogPrune, LogPruneArgs};
use serde::{Deserialize, Serialize};

#[derive(Clone, Debug, Serialize, Deserialize)]
struct Ext {
    log: u64,
    prune: bool,
    nonce: u64,
}

type Op = Operation<Ext>;

fn key(i: u64) -> SigningKey {
    let mut b = [7u8; 32];
    b[0] = i as u8;
    b[1] = (i >> 8) as u8;
    SigningKey::from_bytes(&b)
}

fn bogus(k: u64) -> Hash {
    Hash::digest(format!("bogus{k}").as_bytes())
}

fn junk(k: u64) -> Hash {
    Hash::digest(format!("junk{k}").as_bytes())
}

struct Built {
    op: Op,
    log: u64,
    prune: bool,
    /// Payload the header commits to (kept also when the operation is delivered without it).
    payload: Option<Body>,
}

fn build(idx: usize, def: &str, built: &[Built]) -> Built {
    let f: Vec<&str> = def.split(',').collect();
    assert!(f.len() == 8 || f.len() == 9, "op definition needs 8 or 9 fields");
    if f.len() == 9 {
        // Copy: the header of an earlier operation, unchanged; body and hash field as given.
        let src = &built[f[8].parse::<usize>().unwrap()];
        let header = src.op.header.clone();
        let body = if f[5] == "1" {
            Some(src.payload.clone().unwrap_or_else(|| Body::new(b"unexpected body")))
        } else {
            None
        };
        let hash = match &f[7][..1] {
            "s" => header.hash(),
            "o" => built[f[7][1..].parse::<usize>().unwrap()].op.header.hash(),
            "j" => junk(f[7][1..].parse().unwrap()),
            _ => panic!("id spec"),
        };
        return Built {
            op: Operation { hash, header, body },
            log: src.log,
            prune: src.prune,
            payload: src.payload.clone(),
        };
    }
    let a: u64 = f[0].parse().unwrap();
    let l: u64 = f[1].parse().unwrap();
    let seq: SeqNum = f[2].parse().unwrap();
    let backlink = match &f[3][..1] {
        "n" => None,
        "o" => Some(built[f[3][1..].parse::<usize>().unwrap()].op.header.hash()),
        "b" => Some(bogus(f[3][1..].parse().unwrap())),
        _ => panic!("backlink spec"),
    };
    let prune = f[4] == "1";
    let has_body = f[5] == "1";
    let c: u32 = f[6].parse().unwrap();
    let sk = key(a);
    let mut body = if has_body {
        Some(Body::new(format!("body of {idx}").as_bytes()))
    } else {
        None
    };
    let mut header = Header {
        version: if c == 4 { 2 } else { 1 },
        verifying_key: sk.verifying_key(),
        signature: None,
        payload_size: body.as_ref().map(|b| b.size()).unwrap_or(0),
        payload_hash: body.as_ref().map(|b| b.hash()),
        seq_num: seq,
        backlink,
        extensions: Ext {
            log: l,
            prune,
            nonce: idx as u64,
        },
    };
    if c == 3 && body.is_none() {
        header.payload_size = 3;
    }
    match c {
        1 => header.sign(&key(1000 + a)),
        _ => header.sign(&sk),
    }
    match c {
        2 => header.extensions.nonce ^= 0xffff,
        3 => {
            if body.is_some() {
                body = Some(Body::new(b"another body"));
            }
        }
        5 => header.signature = None,
        _ => {}
    }
    let hash = match &f[7][..1] {
        "s" => header.hash(),
        "o" => built[f[7][1..].parse::<usize>().unwrap()].op.header.hash(),
        "j" => junk(f[7][1..].parse().unwrap()),
        _ => panic!("id spec"),
    };
    let payload = if c == 0 { body.clone() } else { None };
    Built {
        op: Operation { hash, header, body },
        log: l,
        prune,
        payload,
    }
}

fn reason(op: &Op, err: &IngestError) -> String {
    match err {
        IngestError::StoreError(_) => "Store".into(),
        IngestError::InvalidOperation(e) => {
            if validate_operation(op).is_err() {
                return "Invalid".into();
            }
            match e {
                OperationError::TooManyAuthors => "TooManyAuthors".into(),
                OperationError::SeqNumNonIncremental(_, _) => "SeqNumNonIncremental".into(),
                OperationError::BacklinkMismatch => "BacklinkMismatch".into(),
                OperationError::BacklinkMissing => "BacklinkMissing".into(),
                other => format!("Other{:?}", std::mem::discriminant(other)),
            }
        }
    }
}

async fn dump(store: &SqliteStore, na: u64, nl: u64, names: &HashMap<Hash, u64>) -> String {
    let name = |h: &Hash| names.get(h).copied().unwrap_or(999);
    let logs: Vec<u64> = (0..nl).collect();
    let mut out: Vec<String> = Vec::new();
    for a in 0..na {
        let vk: VerifyingKey = key(a).verifying_key();
        let heights = <SqliteStore as LogStore<Op, VerifyingKey, u64, SeqNum, Hash>>::get_log_heights(
            store, &vk, &logs,
        )
        .await
        .expect("get_log_heights");
        for l in 0..nl {
            let entries =
                <SqliteStore as LogStore<Op, VerifyingKey, u64, SeqNum, Hash>>::get_log_entries(
                    store, &vk, &l, None, None,
                )
                .await
                .expect("get_log_entries")
                .unwrap_or_default();
            let h = heights.as_ref().and_then(|m| m.get(&l).copied());
            if entries.is_empty() && h.is_none() {
                continue;
            }
            let es: Vec<String> = entries
                .iter()
                .map(|(op, _)| {
                    format!(
                        "{}:{}:{}:{}:{}:{}",
                        op.header.seq_num,
                        name(&op.hash),
                        name(&op.header.hash()),
                        op.header.backlink.as_ref().map(|b| name(b).to_string()).unwrap_or("-".into()),
                        op.header.extensions.prune as u8,
                        op.body.is_some() as u8
                    )
                })
                .collect();
            out.push(format!(
                "{}.{}={}^{}",
                a,
                l,
                es.join(","),
                h.map(|x| x.to_string()).unwrap_or("-".into())
            ));
        }
    }
    out.join("+")
}

struct Flag(AtomicBool);

impl Wake for Flag {
    fn wake(self: Arc<Self>) {
        self.0.store(true, Ordering::SeqCst);
    }
    fn wake_by_ref(self: &Arc<Self>) {
        self.0.store(true, Ordering::SeqCst);
    }
}

static FILE_COUNTER: AtomicU64 = AtomicU64::new(0);

fn res_name(op: &Op, r: &Result<bool, IngestError>) -> String {
    match r {
        Ok(true) => "I".to_string(),
        Ok(false) => "A".to_string(),
        Err(e) => format!("R:{}", reason(op, e)),
    }
}

async fn max_rowid(store: &SqliteStore) -> i64 {
    let r: (i64,) = sqlx::query_as("SELECT COALESCE(MAX(rowid), 0) FROM operations_v1")
        .fetch_one(store.pool())
        .await
        .expect("max rowid");
    r.0
}

async fn inserted_since(store: &SqliteStore, rowid: i64, by_hex: &HashMap<String, u64>) -> String {
    let rows: Vec<(String,)> =
        sqlx::query_as("SELECT hash FROM operations_v1 WHERE rowid > ? ORDER BY rowid")
            .bind(rowid)
            .fetch_all(store.pool())
            .await
            .expect("rows by rowid");
    rows.iter()
        .map(|(h,)| by_hex.get(h).copied().unwrap_or(999).to_string())
        .collect::<Vec<_>>()
        .join(",")
}

type IngestFut<'a> = Pin<Box<dyn Future<Output = Result<bool, IngestError>> + 'a>>;

/// Polls the calls by hand: first in the order given by `sched`, then round-robin. After a poll
/// that returned `Pending` the scheduler lets the runtime work (spawned rollback tasks, sqlx
/// workers) until the call was woken or a short grace period passed (it waits for the permit).
async fn hand_poll(
    store: &SqliteStore,
    batch: &[&Built],
    sched: &[usize],
    info: &mut String,
) -> Vec<String> {
    let k = batch.len();
    let mut futs: Vec<Option<IngestFut>> = batch
        .iter()
        .map(|b| {
            let f: IngestFut = Box::pin(ingest_operation(store, &b.op, &b.log, &b.log, b.prune));
            Some(f)
        })
        .collect();
    let flags: Vec<Arc<Flag>> = (0..k).map(|_| Arc::new(Flag(AtomicBool::new(false)))).collect();
    let wakers: Vec<Waker> = flags.iter().map(|f| Waker::from(f.clone())).collect();
    let mut results: Vec<Option<String>> = vec![None; k];
    let mut done: Vec<usize> = Vec::new();
    let mut polls = 0usize;
    let deadline = Instant::now() + Duration::from_secs(30);
    let grace = Duration::from_micros(1500);
    let mut labels: Vec<usize> = sched.iter().copied().filter(|i| *i < k).collect();
    let mut pos = 0usize;
    while done.len() < k && Instant::now() < deadline {
        if pos == labels.len() {
            labels.extend(0..k);
        }
        let i = labels[pos];
        pos += 1;
        if results[i].is_some() {
            continue;
        }
        flags[i].0.store(false, Ordering::SeqCst);
        let mut cx = Context::from_waker(&wakers[i]);
        polls += 1;
        let polled = {
            let fut = futs[i].as_mut().unwrap();
            catch_unwind(AssertUnwindSafe(|| fut.as_mut().poll(&mut cx)))
        };
        match polled {
            Err(_) => {
                futs[i] = None;
                results[i] = Some("P".to_string());
                done.push(i);
            }
            Ok(Poll::Ready(r)) => {
                futs[i] = None;
                results[i] = Some(res_name(&batch[i].op, &r));
                done.push(i);
            }
            Ok(Poll::Pending) => {
                let t0 = Instant::now();
                loop {
                    tokio::task::yield_now().await;
                    if flags[i].0.load(Ordering::SeqCst) || t0.elapsed() > grace {
                        break;
                    }
                    std::thread::sleep(Duration::from_micros(20));
                }
            }
        }
        // let spawned tasks (rollback after a dropped permit) make progress
        tokio::task::yield_now().await;
    }
    drop(futs);
    *info = format!(
        "done={} polls={}",
        done.iter().map(|x| x.to_string()).collect::<Vec<_>>().join(","),
        polls
    );
    results.into_iter().map(|r| r.unwrap_or_else(|| "HANG".to_string())).collect()
}

fn run_conc(payload: &str) -> String {
    let parts: Vec<&str> = payload.split('|').collect();
    assert!(parts.len() == 5, "concurrent payload needs 5 parts");
    let head: Vec<&str> = parts[0].split_whitespace().collect();
    assert!(head.len() == 5 && head[0] == "C", "concurrent header");
    let (db, mode) = (head[1], head[2]);
    let na: u64 = head[3].parse().unwrap();
    let nl: u64 = head[4].parse().unwrap();
    let mut built: Vec<Built> = Vec::new();
    for (i, d) in parts[1].split(';').filter(|s| !s.trim().is_empty()).enumerate() {
        let b = build(i, d.trim(), &built);
        built.push(b);
    }
    let mut names: HashMap<Hash, u64> = HashMap::new();
    for k in 0..16 {
        names.insert(junk(k), 800 + k);
        names.insert(bogus(k), 900 + k);
    }
    for (i, b) in built.iter().enumerate() {
        names.entry(b.op.header.hash()).or_insert(i as u64 + 1);
    }
    let by_hex: HashMap<String, u64> = names.iter().map(|(h, n)| (h.to_hex(), *n)).collect();
    let valid: String = built
        .iter()
        .map(|b| if validate_operation(&b.op).is_ok() { '1' } else { '0' })
        .collect();
    let deliveries: Vec<usize> = h_common::nums(parts[2]).into_iter().map(|x| x as usize).collect();
    let batch_idx: Vec<usize> = h_common::nums(parts[3]).into_iter().map(|x| x as usize).collect();
    let sched: Vec<usize> = h_common::nums(parts[4]).into_iter().map(|x| x as usize).collect();

    let rt = if mode == "hand" {
        tokio::runtime::Builder::new_current_thread().enable_all().build().unwrap()
    } else {
        tokio::runtime::Builder::new_multi_thread()
            .worker_threads(3)
            .enable_all()
            .build()
            .unwrap()
    };
    let mut file: Option<std::path::PathBuf> = None;
    let store = if db == "file" {
        let path = std::env::temp_dir().join(format!(
            "h_ingest_{}_{}.sqlite",
            std::process::id(),
            FILE_COUNTER.fetch_add(1, Ordering::SeqCst)
        ));
        let _ = std::fs::remove_file(&path);
        let url = format!("sqlite://{}", path.display());
        file = Some(path);
        rt.block_on(SqliteStoreBuilder::new().database_url(&url).build())
            .expect("file database")
    } else {
        rt.block_on(SqliteStore::temporary())
    };
    let pruner: LogPrune<SqliteStore, LogPruneArgs<VerifyingKey, u64, SeqNum>, u64, Ext> =
        LogPrune::new(store.clone());
    let mut steps: Vec<String> = vec![format!("V={valid}")];
    for d in deliveries {
        let b = &built[d];
        let r = rt.block_on(async {
            let r = ingest_operation(&store, &b.op, &b.log, &b.log, b.prune).await;
            if r.is_ok() && b.prune {
                let args = LogPruneArgs::PruneEntriesUntil {
                    author: b.op.header.verifying_key,
                    log_id: b.log,
                    seq_num: b.op.header.seq_num,
                };
                pruner.process(args).await.expect("log prune");
                let _ = pruner.next().await;
            }
            r
        });
        let res = res_name(&b.op, &r);
        let d = rt.block_on(dump(&store, na, nl, &names));
        steps.push(format!("{res}/{d}"));
    }

    let batch: Vec<&Built> = batch_idx.iter().map(|i| &built[*i]).collect();
    let before_rowid = rt.block_on(max_rowid(&store));
    let mut info = String::new();
    let results: Vec<String> = match mode {
        "hand" => rt.block_on(hand_poll(&store, &batch, &sched, &mut info)),
        "join" => rt.block_on(async {
            let futs: Vec<_> = batch
                .iter()
                .map(|b| ingest_operation(&store, &b.op, &b.log, &b.log, b.prune))
                .collect();
            let rs = tokio::time::timeout(Duration::from_secs(30), futures_util::future::join_all(futs)).await;
            match rs {
                Ok(rs) => rs.iter().zip(batch.iter()).map(|(r, b)| res_name(&b.op, r)).collect(),
                Err(_) => batch.iter().map(|_| "HANG".to_string()).collect(),
            }
        }),
        "spawn" => rt.block_on(async {
            let mut handles = Vec::new();
            for b in batch.iter() {
                let store = store.clone();
                let (op, log, prune) = (b.op.clone(), b.log, b.prune);
                handles.push(tokio::spawn(async move {
                    let r = ingest_operation(&store, &op, &log, &log, prune).await;
                    res_name(&op, &r)
                }));
            }
            let mut out = Vec::new();
            for h in handles {
                out.push(match tokio::time::timeout(Duration::from_secs(30), h).await {
                    Ok(Ok(r)) => r,
                    Ok(Err(_)) => "P".to_string(),
                    Err(_) => "HANG".to_string(),
                });
            }
            out
        }),
        other => panic!("unknown mode {other}"),
    };
    let ins = rt.block_on(inserted_since(&store, before_rowid, &by_hex));
    let before = rt.block_on(dump(&store, na, nl, &names));
    rt.block_on(async {
        for (b, r) in batch.iter().zip(results.iter()) {
            if (r == "I" || r == "A") && b.prune {
                let args = LogPruneArgs::PruneEntriesUntil {
                    author: b.op.header.verifying_key,
                    log_id: b.log,
                    seq_num: b.op.header.seq_num,
                };
                pruner.process(args).await.expect("log prune");
                let _ = pruner.next().await;
            }
        }
    });
    let after = rt.block_on(dump(&store, na, nl, &names));
    if let Some(path) = file {
        rt.block_on(store.pool().close());
        let _ = std::fs::remove_file(&path);
        let _ = std::fs::remove_file(format!("{}-wal", path.display()));
        let _ = std::fs::remove_file(format!("{}-shm", path.display()));
    }
    format!(
        "{} ;; B={}/ins={}/{}/{} ;; {}",
        steps.join(" ; "),
        results.join(","),
        ins,
        before,
        after,
        info
    )
}

fn run_case(payload: &str) -> String {
    if payload.starts_with("C ") {
        return run_conc(payload);
    }
    let parts: Vec<&str> = payload.split('|').collect();
    assert!(parts.len() == 3, "payload needs 3 parts");
    let dims = h_common::nums(parts[0]);
    let (na, nl) = (dims[0], dims[1]);
    let mut built: Vec<Built> = Vec::new();
    for (i, d) in parts[1].split(';').filter(|s| !s.trim().is_empty()).enumerate() {
        let b = build(i, d.trim(), &built);
        built.push(b);
    }
    let mut names: HashMap<Hash, u64> = HashMap::new();
    for k in 0..16 {
        names.insert(junk(k), 800 + k);
        names.insert(bogus(k), 900 + k);
    }
    for (i, b) in built.iter().enumerate() {
        names.entry(b.op.header.hash()).or_insert(i as u64 + 1);
    }
    let valid: String = built
        .iter()
        .map(|b| if validate_operation(&b.op).is_ok() { '1' } else { '0' })
        .collect();
    let deliveries: Vec<usize> = h_common::nums(parts[2]).into_iter().map(|x| x as usize).collect();

    let rt = tokio::runtime::Builder::new_current_thread()
        .enable_all()
        .build()
        .unwrap();
    let store = rt.block_on(SqliteStore::temporary());
    let pruner: LogPrune<SqliteStore, LogPruneArgs<VerifyingKey, u64, SeqNum>, u64, Ext> =
        LogPrune::new(store.clone());
    let mut steps: Vec<String> = vec![format!("V={valid}")];
    for d in deliveries {
        let b = &built[d];
        let r = catch_unwind(AssertUnwindSafe(|| {
            rt.block_on(async {
                let r = ingest_operation(&store, &b.op, &b.log, &b.log, b.prune).await;
                // pipeline.rs: the event reaches the log-prune layer only after a successful ingest
                if r.is_ok() && b.prune {
                    let args = LogPruneArgs::PruneEntriesUntil {
                        author: b.op.header.verifying_key,
                        log_id: b.log,
                        seq_num: b.op.header.seq_num,
                    };
                    pruner.process(args).await.expect("log prune");
                    let _ = pruner.next().await;
                }
                r
            })
        }));
        let res = match r {
            Err(_) => {
                steps.push("P/".to_string());
                break;
            }
            Ok(Ok(true)) => "I".to_string(),
            Ok(Ok(false)) => "A".to_string(),
            Ok(Err(e)) => format!("R:{}", reason(&b.op, &e)),
        };
        let d = rt.block_on(dump(&store, na, nl, &names));
        steps.push(format!("{res}/{d}"));
    }
    steps.join(" ; ")
}

fn main() {
    h_common::run_cases(run_case);
}
