//! C03 / C05: drive the real `ingest_operation` and the real `LogPrune` processor on an in-memory
//! `SqliteStore`, composed as the node pipeline composes them (p2panda/src/processor/pipeline.rs:
//! ingest, then log-prune with `PruneEntriesUntil {author, log, seq}` iff the prune flag is set and
//! ingest did not fail).
//!
//! Case payload: `<authors> <logs>|<op>;<op>;...|<delivery> <delivery> ...`
//!   op = `a,l,seq,bl,p,b,c,id`
//!     a, l   author / log index            seq  u32 sequence number
//!     bl     backlink: `n` none, `o<j>` header hash of op j (j earlier), `b<k>` bogus hash k
//!     p, b   prune flag / has body (0|1)
//!     c      corruption: 0 none, 1 signed by another key, 2 tampered after signing,
//!            3 body/payload mismatch, 4 unsupported version, 5 signature missing
//!     id     `Operation.hash` field: `s` the header hash, `o<j>` header hash of op j, `j<k>` junk k
//!     optional 9th field `src`: reuse the header of op `src` unchanged (a copy; only b and id apply)
//!   delivery = index into the op list
//!
//! Result: `V=<validate_operation bit per op> ; <step> ; <step> ...`
//!   step = `<res>/<log>+<log>...`, res = I | A | R:<reason> | P (panic: case ends there)
//!   log  = `a.l=seq:id:hh:bl:p:b,...^height`  (only non-empty logs; entries as returned by
//!          `get_log_entries`, height from `get_log_heights`)
//! Hashes are printed as numbers: header hash of op j = j+1, junk k = 800+k, bogus k = 900+k,
//! anything else 999.
use std::collections::HashMap;
use std::panic::{AssertUnwindSafe, catch_unwind};

use p2panda_core::{
    Body, Hash, Header, Operation, OperationError, SeqNum, SigningKey, VerifyingKey,
    validate_operation,
};
use p2panda_store::SqliteStore;
use p2panda_store::logs::LogStore;
use p2panda_stream::Processor;
use p2panda_stream::ingest::{IngestError, ingest_operation};
use p2panda_stream::log_prune::{LogPrune, LogPruneArgs};
use serde::{Deserialize, Serialize};

#[derive(Clone, Debug, Serialize, Deserialize)]
struct Ext {
    log: u64,
    prune: bool,
    nonce: u64,
}

type Op = Operation<Ext>;

fn key(i: u64) -> SigningKey {
    let mut b = [7u8; 32];
    b[0] = i as u8;
    b[1] = (i >> 8) as u8;
    SigningKey::from_bytes(&b)
}

fn bogus(k: u64) -> Hash {
    Hash::digest(format!("bogus{k}").as_bytes())
}

fn junk(k: u64) -> Hash {
    Hash::digest(format!("junk{k}").as_bytes())
}

struct Built {
    op: Op,
    log: u64,
    prune: bool,
    /// Payload the header commits to (kept also when the operation is delivered without it).
    payload: Option<Body>,
}

fn build(idx: usize, def: &str, built: &[Built]) -> Built {
    let f: Vec<&str> = def.split(',').collect();
    assert!(f.len() == 8 || f.len() == 9, "op definition needs 8 or 9 fields");
    if f.len() == 9 {
        // Copy: the header of an earlier operation, unchanged; body and hash field as given.
        let src = &built[f[8].parse::<usize>().unwrap()];
        let header = src.op.header.clone();
        let body = if f[5] == "1" {
            Some(src.payload.clone().unwrap_or_else(|| Body::new(b"unexpected body")))
        } else {
            None
        };
        let hash = match &f[7][..1] {
            "s" => header.hash(),
            "o" => built[f[7][1..].parse::<usize>().unwrap()].op.header.hash(),
            "j" => junk(f[7][1..].parse().unwrap()),
            _ => panic!("id spec"),
        };
        return Built {
            op: Operation { hash, header, body },
            log: src.log,
            prune: src.prune,
            payload: src.payload.clone(),
        };
    }
    let a: u64 = f[0].parse().unwrap();
    let l: u64 = f[1].parse().unwrap();
    let seq: SeqNum = f[2].parse().unwrap();
    let backlink = match &f[3][..1] {
        "n" => None,
        "o" => Some(built[f[3][1..].parse::<usize>().unwrap()].op.header.hash()),
        "b" => Some(bogus(f[3][1..].parse().unwrap())),
        _ => panic!("backlink spec"),
    };
    let prune = f[4] == "1";
    let has_body = f[5] == "1";
    let c: u32 = f[6].parse().unwrap();
    let sk = key(a);
    let mut body = if has_body {
        Some(Body::new(format!("body of {idx}").as_bytes()))
    } else {
        None
    };
    let mut header = Header {
        version: if c == 4 { 2 } else { 1 },
        verifying_key: sk.verifying_key(),
        signature: None,
        payload_size: body.as_ref().map(|b| b.size()).unwrap_or(0),
        payload_hash: body.as_ref().map(|b| b.hash()),
        seq_num: seq,
        backlink,
        extensions: Ext {
            log: l,
            prune,
            nonce: idx as u64,
        },
    };
    if c == 3 && body.is_none() {
        header.payload_size = 3;
    }
    match c {
        1 => header.sign(&key(1000 + a)),
        _ => header.sign(&sk),
    }
    match c {
        2 => header.extensions.nonce ^= 0xffff,
        3 => {
            if body.is_some() {
                body = Some(Body::new(b"another body"));
            }
        }
        5 => header.signature = None,
        _ => {}
    }
    let hash = match &f[7][..1] {
        "s" => header.hash(),
        "o" => built[f[7][1..].parse::<usize>().unwrap()].op.header.hash(),
        "j" => junk(f[7][1..].parse().unwrap()),
        _ => panic!("id spec"),
    };
    let payload = if c == 0 { body.clone() } else { None };
    Built {
        op: Operation { hash, header, body },
        log: l,
        prune,
        payload,
    }
}

fn reason(op: &Op, err: &IngestError) -> String {
    match err {
        IngestError::StoreError(_) => "Store".into(),
        IngestError::InvalidOperation(e) => {
            if validate_operation(op).is_err() {
                return "Invalid".into();
            }
            match e {
                OperationError::TooManyAuthors => "TooManyAuthors".into(),
                OperationError::SeqNumNonIncremental(_, _) => "SeqNumNonIncremental".into(),
                OperationError::BacklinkMismatch => "BacklinkMismatch".into(),
                OperationError::BacklinkMissing => "BacklinkMissing".into(),
                other => format!("Other{:?}", std::mem::discriminant(other)),
            }
        }
    }
}

async fn dump(store: &SqliteStore, na: u64, nl: u64, names: &HashMap<Hash, u64>) -> String {
    let name = |h: &Hash| names.get(h).copied().unwrap_or(999);
    let logs: Vec<u64> = (0..nl).collect();
    let mut out: Vec<String> = Vec::new();
    for a in 0..na {
        let vk: VerifyingKey = key(a).verifying_key();
        let heights = <SqliteStore as LogStore<Op, VerifyingKey, u64, SeqNum, Hash>>::get_log_heights(
            store, &vk, &logs,
        )
        .await
        .expect("get_log_heights");
        for l in 0..nl {
            let entries =
                <SqliteStore as LogStore<Op, VerifyingKey, u64, SeqNum, Hash>>::get_log_entries(
                    store, &vk, &l, None, None,
                )
                .await
                .expect("get_log_entries")
                .unwrap_or_default();
            let h = heights.as_ref().and_then(|m| m.get(&l).copied());
            if entries.is_empty() && h.is_none() {
                continue;
            }
            let es: Vec<String> = entries
                .iter()
                .map(|(op, _)| {
                    format!(
                        "{}:{}:{}:{}:{}:{}",
                        op.header.seq_num,
                        name(&op.hash),
                        name(&op.header.hash()),
                        op.header.backlink.as_ref().map(|b| name(b).to_string()).unwrap_or("-".into()),
                        op.header.extensions.prune as u8,
                        op.body.is_some() as u8
                    )
                })
                .collect();
            out.push(format!(
                "{}.{}={}^{}",
                a,
                l,
                es.join(","),
                h.map(|x| x.to_string()).unwrap_or("-".into())
            ));
        }
    }
    out.join("+")
}

fn run_case(payload: &str) -> String {
    let parts: Vec<&str> = payload.split('|').collect();
    assert!(parts.len() == 3, "payload needs 3 parts");
    let dims = h_common::nums(parts[0]);
    let (na, nl) = (dims[0], dims[1]);
    let mut built: Vec<Built> = Vec::new();
    for (i, d) in parts[1].split(';').filter(|s| !s.trim().is_empty()).enumerate() {
        let b = build(i, d.trim(), &built);
        built.push(b);
    }
    let mut names: HashMap<Hash, u64> = HashMap::new();
    for k in 0..16 {
        names.insert(junk(k), 800 + k);
        names.insert(bogus(k), 900 + k);
    }
    for (i, b) in built.iter().enumerate() {
        names.entry(b.op.header.hash()).or_insert(i as u64 + 1);
    }
    let valid: String = built
        .iter()
        .map(|b| if validate_operation(&b.op).is_ok() { '1' } else { '0' })
        .collect();
    let deliveries: Vec<usize> = h_common::nums(parts[2]).into_iter().map(|x| x as usize).collect();

    let rt = tokio::runtime::Builder::new_current_thread()
        .enable_all()
        .build()
        .unwrap();
    let store = rt.block_on(SqliteStore::temporary());
    let pruner: LogPrune<SqliteStore, LogPruneArgs<VerifyingKey, u64, SeqNum>, u64, Ext> =
        LogPrune::new(store.clone());
    let mut steps: Vec<String> = vec![format!("V={valid}")];
    for d in deliveries {
        let b = &built[d];
        let r = catch_unwind(AssertUnwindSafe(|| {
            rt.block_on(async {
                let r = ingest_operation(&store, &b.op, &b.log, &b.log, b.prune).await;
                // pipeline.rs: the event reaches the log-prune layer only after a successful ingest
                if r.is_ok() && b.prune {
                    let args = LogPruneArgs::PruneEntriesUntil {
                        author: b.op.header.verifying_key,
                        log_id: b.log,
                        seq_num: b.op.header.seq_num,
                    };
                    pruner.process(args).await.expect("log prune");
                    let _ = pruner.next().await;
                }
                r
            })
        }));
        let res = match r {
            Err(_) => {
                steps.push("P/".to_string());
                break;
            }
            Ok(Ok(true)) => "I".to_string(),
            Ok(Ok(false)) => "A".to_string(),
            Ok(Err(e)) => format!("R:{}", reason(&b.op, &e)),
        };
        let d = rt.block_on(dump(&store, na, nl, &names));
        steps.push(format!("{res}/{d}"));
    }
    steps.join(" ; ")
}

fn main() {
    h_common::run_cases(run_case);
}
