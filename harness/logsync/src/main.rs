//! C19 / C20 / C21: drive the real `LogSync::run` of p2panda-sync.
//!
//! Payload = space separated `key=value` tokens (values contain no spaces):
//!   logs=0:0,1;1:0          session log configuration (author index : log ids), `-` = empty
//!   rep=0.0:0/500,1/510;..  replica: per author.log the rows seq/size (size = header + payload
//!                           bytes as stored), `-` = empty            (c19/c21: repa= repb= logsb=)
//!   mut=1:p.0.0.2;3:d.0.0.1 c20: before store call k apply p(rune) a.l.until | d(elete) a.l.seq |
//!                           x a.l (drop whole log) | i(nsert) a.l.seq/size
//!   have=0:0=3;1:0=5        c20: the scripted peer's Have
//!   pops=2                  c20: operations the scripted peer sends (foreign author)
//!   cap=3 ms=2500           c21 (and c19 cases over a small transport): `futures::mpsc::channel(cap)`
//!                           and the no-progress deadline
//! A row token `lo-hi/size` stands for the rows lo..=hi, all of that size.
//!
//! Authors are indices into a fixed key table sorted by verifying key, so that index order is the
//! `BTreeMap<VerifyingKey, _>` order the code iterates in.
use std::collections::BTreeMap;
use std::sync::atomic::{AtomicUsize, Ordering};
use std::sync::{Arc, Mutex};
use std::time::Duration;

use futures_channel::mpsc;
use futures_util::{SinkExt, StreamExt, future};
use p2panda_core::cbor::decode_cbor;
use p2panda_core::{Body, Hash, Header, Operation, SeqNum, SigningKey, VerifyingKey};
use p2panda_store::logs::LogStore;
use p2panda_store::operations::OperationStore;
use p2panda_store::{SqliteError, SqliteStore, tx_unwrap};
use p2panda_sync::protocols::{LogSync, LogSyncError, LogSyncEvent, LogSyncMessage, Logs};
use p2panda_sync::test_utils::create_operation;
use p2panda_sync::traits::Protocol;
use tokio::sync::broadcast;

type L = usize;
type E = usize;
type Msg = LogSyncMessage<L>;
type Op = Operation<E>;

const N_KEYS: usize = 8;
/// Author index of the scripted peer's own operations (never part of a generated replica).
const FOREIGN: usize = 7;

struct Keys {
    sk: Vec<SigningKey>,
    vk: Vec<VerifyingKey>,
}

impl Keys {
    fn new() -> Self {
        let mut sk: Vec<SigningKey> = (0..N_KEYS)
            .map(|i| SigningKey::from_bytes(&[(i as u8).wrapping_mul(37).wrapping_add(11); 32]))
            .collect();
        sk.sort_by_key(|k| k.verifying_key());
        let vk = sk.iter().map(|k| k.verifying_key()).collect();
        Keys { sk, vk }
    }
    fn idx(&self, vk: &VerifyingKey) -> usize {
        self.vk.iter().position(|k| k == vk).unwrap_or(99)
    }
}

fn field<'a>(payload: &'a str, key: &str) -> Option<&'a str> {
    payload
        .split_whitespace()
        .find_map(|t| t.strip_prefix(key).and_then(|r| r.strip_prefix('=')))
}

fn num(s: &str) -> usize {
    s.parse().expect("number")
}

/// `0:0,1;1:0` -> author -> logs
fn parse_logs(s: &str) -> Vec<(usize, Vec<usize>)> {
    if s == "-" || s.is_empty() {
        return vec![];
    }
    s.split(';')
        .map(|al| {
            let (a, ls) = al.split_once(':').expect("logs");
            (num(a), ls.split(',').filter(|x| !x.is_empty()).map(num).collect())
        })
        .collect()
}

/// `0.0:0/500,1/510;1.0:2/600` -> (author, log, [(seq, size)])
fn parse_rep(s: &str) -> Vec<(usize, usize, Vec<(u32, usize)>)> {
    if s == "-" || s.is_empty() {
        return vec![];
    }
    s.split(';')
        .map(|e| {
            let (k, rows) = e.split_once(':').expect("rep");
            let (a, l) = k.split_once('.').expect("rep key");
            let rows = rows
                .split(',')
                .filter(|x| !x.is_empty())
                .flat_map(|r| {
                    // `seq/size` or a run `lo-hi/size` (inclusive) of rows of one size
                    let (q, z) = r.split_once('/').expect("row");
                    let (lo, hi) = match q.split_once('-') {
                        Some((lo, hi)) => (num(lo) as u32, num(hi) as u32),
                        None => (num(q) as u32, num(q) as u32),
                    };
                    let z = num(z);
                    (lo..=hi).map(move |s| (s, z))
                })
                .collect();
            (num(a), num(l), rows)
        })
        .collect()
}

/// `0:0=3,1=2;1:0=5`
fn parse_have(s: &str, keys: &Keys) -> BTreeMap<VerifyingKey, BTreeMap<L, SeqNum>> {
    let mut out = BTreeMap::new();
    if s == "-" || s.is_empty() {
        return out;
    }
    for al in s.split(';') {
        let (a, ls) = al.split_once(':').expect("have");
        let mut m = BTreeMap::new();
        for lh in ls.split(',').filter(|x| !x.is_empty()) {
            let (l, h) = lh.split_once('=').expect("have entry");
            m.insert(num(l), num(h) as u32);
        }
        out.insert(keys.vk[num(a)], m);
    }
    out
}

/// Build an operation whose stored size (header bytes + body bytes) is exactly `total`.
fn make_op(sk: &SigningKey, seq: u32, log: usize, total: usize) -> (Op, Vec<u8>) {
    // The backlink is not validated by the store; a fixed one keeps the header length independent
    // of which other rows exist.
    let backlink = if seq == 0 { None } else { Some(Hash::digest([seq as u8, log as u8])) };
    let mut blen = total.saturating_sub(180).max(1);
    for _ in 0..6 {
        let bytes: Vec<u8> = (0..blen).map(|i| (i as u8) ^ (seq as u8)).collect();
        let body = Body::new(&bytes);
        let (header, header_bytes) = create_operation(sk, &body, seq, backlink, log);
        if header_bytes.len() + bytes.len() == total {
            let op = Operation { hash: header.hash(), header, body: Some(body) };
            return (op, header_bytes);
        }
        assert!(total > header_bytes.len(), "size {total} too small for a header");
        blen = total - header_bytes.len();
    }
    panic!("cannot build an operation of total size {total}");
}

async fn insert(store: &SqliteStore, op: &Op, log: usize) {
    tx_unwrap!(store, {
        <SqliteStore as OperationStore<Op, Hash>>::insert_operation(store, &op.hash, op, &log)
            .await
            .unwrap();
    });
}

async fn fill(store: &SqliteStore, keys: &Keys, rep: &[(usize, usize, Vec<(u32, usize)>)]) {
    for (a, l, rows) in rep {
        for (seq, size) in rows {
            let (op, _) = make_op(&keys.sk[*a], *seq, *l, *size);
            insert(store, &op, *l).await;
        }
    }
}

fn to_logs(cfg: &[(usize, Vec<usize>)], keys: &Keys) -> Logs<L> {
    let mut logs = Logs::default();
    for (a, ls) in cfg {
        logs.insert(keys.vk[*a], ls.clone());
    }
    logs
}

fn show_msg(m: &Msg, keys: &Keys) -> String {
    match m {
        LogSyncMessage::Have(h) => {
            let parts: Vec<String> = h
                .iter()
                .map(|(vk, ls)| {
                    let inner: Vec<String> = ls.iter().map(|(l, s)| format!("{l}={s}")).collect();
                    format!("{}:{}", keys.idx(vk), inner.join(","))
                })
                .collect();
            format!("H[{}]", parts.join(";"))
        }
        LogSyncMessage::PreSync { total_operations, total_bytes } => format!("P{total_operations}:{total_bytes}"),
        LogSyncMessage::Operation(header, body) => match decode_cbor::<Header<E>, _>(&header[..]) {
            Ok(h) => format!(
                "O{}.{}.{}/{}",
                keys.idx(&h.verifying_key),
                h.extensions,
                h.seq_num,
                header.len() + body.as_ref().map(|b| b.len()).unwrap_or(0)
            ),
            Err(_) => "O?".to_string(),
        },
        LogSyncMessage::Done => "D".to_string(),
    }
}

fn show_err(e: &LogSyncError) -> &'static str {
    match e {
        LogSyncError::Decode(_) => "Decode",
        LogSyncError::LogStore(_) => "LogStore",
        LogSyncError::OperationStore(_) => "OperationStore",
        LogSyncError::BroadcastSend => "BroadcastSend",
        LogSyncError::MessageSink(_) => "MessageSink",
        LogSyncError::MessageStream(_) => "MessageStream",
        LogSyncError::UnexpectedStreamClosure => "UnexpectedStreamClosure",
        LogSyncError::UnexpectedMessage(_) => "UnexpectedMessage",
    }
}

// ------------------------------------------------------------------------------------------------
// C20: a store wrapper that changes the store before its k-th query
// ------------------------------------------------------------------------------------------------

#[derive(Clone, Debug)]
enum Mutation {
    Prune(usize, usize, u32),
    Delete(usize, usize, u32),
    DropLog(usize, usize),
    Insert(usize, usize, u32, usize),
}

#[derive(Clone)]
struct MutStore {
    inner: SqliteStore,
    calls: Arc<AtomicUsize>,
    muts: Arc<Vec<(usize, Mutation)>>,
    keys: Arc<Keys>,
}

impl MutStore {
    async fn before(&self) {
        let k = self.calls.fetch_add(1, Ordering::SeqCst);
        for (at, m) in self.muts.iter() {
            if *at != k {
                continue;
            }
            match m {
                Mutation::Prune(a, l, until) => {
                    <SqliteStore as LogStore<Op, VerifyingKey, L, SeqNum, Hash>>::prune_entries(
                        &self.inner, &self.keys.vk[*a], l, until,
                    )
                    .await
                    .unwrap();
                }
                Mutation::DropLog(a, l) => {
                    // seq_num < u32::MAX covers every row the harness creates
                    <SqliteStore as LogStore<Op, VerifyingKey, L, SeqNum, Hash>>::prune_entries(
                        &self.inner, &self.keys.vk[*a], l, &u32::MAX,
                    )
                    .await
                    .unwrap();
                }
                Mutation::Delete(a, l, seq) => {
                    let rows = <SqliteStore as LogStore<Op, VerifyingKey, L, SeqNum, Hash>>::get_log_entries(
                        &self.inner, &self.keys.vk[*a], l, if *seq == 0 { None } else { Some(*seq - 1) }, Some(*seq),
                    )
                    .await
                    .unwrap();
                    if let Some(rows) = rows {
                        for (op, _) in rows {
                            let store = &self.inner;
                            tx_unwrap!(store, {
                                <SqliteStore as OperationStore<Op, Hash>>::delete_operation(store, &op.hash)
                                    .await
                                    .unwrap();
                            });
                        }
                    }
                }
                Mutation::Insert(a, l, seq, size) => {
                    let (op, _) = make_op(&self.keys.sk[*a], *seq, *l, *size);
                    insert(&self.inner, &op, *l).await;
                }
            }
        }
    }
}

impl LogStore<Op, VerifyingKey, L, SeqNum, Hash> for MutStore {
    type Error = SqliteError;

    async fn get_latest_entry(&self, author: &VerifyingKey, log_id: &L) -> Result<Option<Op>, Self::Error> {
        <SqliteStore as LogStore<Op, VerifyingKey, L, SeqNum, Hash>>::get_latest_entry(&self.inner, author, log_id).await
    }

    async fn get_latest_entry_tx(&self, author: &VerifyingKey, log_id: &L) -> Result<Option<Op>, Self::Error> {
        <SqliteStore as LogStore<Op, VerifyingKey, L, SeqNum, Hash>>::get_latest_entry_tx(&self.inner, author, log_id).await
    }

    async fn get_log_heights(&self, author: &VerifyingKey, logs: &[L]) -> Result<Option<BTreeMap<L, SeqNum>>, Self::Error> {
        self.before().await;
        <SqliteStore as LogStore<Op, VerifyingKey, L, SeqNum, Hash>>::get_log_heights(&self.inner, author, logs).await
    }

    async fn get_log_size(
        &self,
        author: &VerifyingKey,
        log_id: &L,
        after: Option<SeqNum>,
        until: Option<SeqNum>,
    ) -> Result<Option<(u32, u32)>, Self::Error> {
        self.before().await;
        <SqliteStore as LogStore<Op, VerifyingKey, L, SeqNum, Hash>>::get_log_size(&self.inner, author, log_id, after, until).await
    }

    async fn get_log_entries(
        &self,
        author: &VerifyingKey,
        log_id: &L,
        after: Option<SeqNum>,
        until: Option<SeqNum>,
    ) -> Result<Option<Vec<(Op, Vec<u8>)>>, Self::Error> {
        self.before().await;
        <SqliteStore as LogStore<Op, VerifyingKey, L, SeqNum, Hash>>::get_log_entries(&self.inner, author, log_id, after, until).await
    }

    async fn prune_entries(&self, author: &VerifyingKey, log_id: &L, until: &SeqNum) -> Result<u64, Self::Error> {
        <SqliteStore as LogStore<Op, VerifyingKey, L, SeqNum, Hash>>::prune_entries(&self.inner, author, log_id, until).await
    }
}

fn parse_muts(s: &str) -> Vec<(usize, Mutation)> {
    if s == "-" || s.is_empty() {
        return vec![];
    }
    s.split(';')
        .map(|m| {
            let (k, rest) = m.split_once(':').expect("mut");
            let parts: Vec<&str> = rest.split('.').collect();
            let mu = match parts[0] {
                "p" => Mutation::Prune(num(parts[1]), num(parts[2]), num(parts[3]) as u32),
                "d" => Mutation::Delete(num(parts[1]), num(parts[2]), num(parts[3]) as u32),
                "x" => Mutation::DropLog(num(parts[1]), num(parts[2])),
                "i" => {
                    let (q, z) = parts[3].split_once('/').expect("insert row");
                    Mutation::Insert(num(parts[1]), num(parts[2]), num(q) as u32, num(z))
                }
                _ => panic!("mutation kind"),
            };
            (num(k), mu)
        })
        .collect()
}

async fn c20(payload: &str, keys: Arc<Keys>) -> String {
    let cfg = parse_logs(field(payload, "logs").unwrap_or("-"));
    let rep = parse_rep(field(payload, "rep").unwrap_or("-"));
    let muts = parse_muts(field(payload, "mut").unwrap_or("-"));
    let have = parse_have(field(payload, "have").unwrap_or("-"), &keys);
    let pops = num(field(payload, "pops").unwrap_or("0"));

    let inner = SqliteStore::temporary().await;
    fill(&inner, &keys, &rep).await;
    let store = MutStore { inner, calls: Arc::new(AtomicUsize::new(0)), muts: Arc::new(muts), keys: keys.clone() };

    let (event_tx, mut event_rx) = broadcast::channel::<LogSyncEvent<E>>(8192);
    let session: LogSync<L, E, MutStore, LogSyncEvent<E>> = LogSync::new(store.clone(), to_logs(&cfg, &keys), event_tx);

    // scripted peer: Have, then Done or PreSync . ops . Done; everything is queued up front and the
    // sender is kept alive so that the stream never reports a closure
    let mut peer: Vec<Msg> = vec![LogSyncMessage::Have(have)];
    if pops > 0 {
        let mut ops = vec![];
        let mut bytes = 0;
        for s in 0..pops {
            let (op, hb) = make_op(&keys.sk[FOREIGN], s as u32, 0, 400);
            let body = op.body.as_ref().map(|b| b.to_bytes());
            bytes += hb.len() + body.as_ref().map(|b| b.len()).unwrap_or(0);
            ops.push(LogSyncMessage::Operation(hb, body));
        }
        peer.push(LogSyncMessage::PreSync { total_operations: pops as u32, total_bytes: bytes as u32 });
        peer.extend(ops);
    }
    peer.push(LogSyncMessage::Done);

    let (mut sink_tx, sink_rx) = mpsc::channel::<Msg>(8192);
    let (mut peer_tx, peer_rx) = mpsc::channel::<Msg>(8192);
    let mut peer_rx = peer_rx.map(Ok::<_, ()>);
    for m in peer {
        peer_tx.send(m).await.unwrap();
    }
    let res = tokio::time::timeout(Duration::from_secs(20), session.run(&mut sink_tx, &mut peer_rx)).await;
    drop(sink_tx);
    let sent: Vec<Msg> = sink_rx.collect().await;
    let mut evs = 0;
    while let Ok(ev) = event_rx.try_recv() {
        if let LogSyncEvent::OperationReceived { .. } = ev {
            evs += 1;
        }
    }
    let status = match res {
        Err(_) => "timeout".to_string(),
        Ok(Ok(_)) => "ok".to_string(),
        Ok(Err(e)) => format!("err={}", show_err(&e)),
    };
    let shown: Vec<String> = sent.iter().map(|m| show_msg(m, &keys)).collect();
    drop(peer_tx);
    format!("{} | {} | calls={} recv={}", shown.join(" "), status, store.calls.load(Ordering::SeqCst), evs)
}

// ------------------------------------------------------------------------------------------------
// C19 / C21: two real sessions against each other
// ------------------------------------------------------------------------------------------------

struct Side {
    store: SqliteStore,
    cfg: Vec<(usize, Vec<usize>)>,
}

async fn heights_line(side: &Side, keys: &Keys) -> String {
    let mut parts = vec![];
    for (a, ls) in &side.cfg {
        for l in ls {
            let latest = <SqliteStore as LogStore<Op, VerifyingKey, L, SeqNum, Hash>>::get_latest_entry(&side.store, &keys.vk[*a], l)
                .await
                .unwrap();
            if let Some(op) = latest {
                parts.push(format!("{a}.{l}={}", op.header.seq_num));
            }
        }
    }
    parts.join(",")
}

async fn pair(payload: &str, keys: Arc<Keys>, bounded: bool) -> String {
    let cfg_a = parse_logs(field(payload, "logs").unwrap_or("-"));
    let cfg_b = match field(payload, "logsb") {
        Some(s) => parse_logs(s),
        None => cfg_a.clone(),
    };
    let rep_a = parse_rep(field(payload, "repa").unwrap_or("-"));
    let rep_b = parse_rep(field(payload, "repb").unwrap_or("-"));
    // c21: always a bounded transport; c19: unbounded in effect (16384 slots) unless the case
    // names a capacity -- then the same exactness observation is taken over `channel(cap)`.
    let cap = match field(payload, "cap") {
        Some(c) => num(c),
        None if bounded => 0,
        None => 16384,
    };
    let ms = num(field(payload, "ms").unwrap_or("20000")) as u64;

    let a = Side { store: SqliteStore::temporary().await, cfg: cfg_a };
    let b = Side { store: SqliteStore::temporary().await, cfg: cfg_b };
    fill(&a.store, &keys, &rep_a).await;
    fill(&b.store, &keys, &rep_b).await;

    let (ev_a_tx, mut ev_a_rx) = broadcast::channel::<LogSyncEvent<E>>(16384);
    let (ev_b_tx, mut ev_b_rx) = broadcast::channel::<LogSyncEvent<E>>(16384);
    let sess_a: LogSync<L, E, SqliteStore, LogSyncEvent<E>> = LogSync::new(a.store.clone(), to_logs(&a.cfg, &keys), ev_a_tx);
    let sess_b: LogSync<L, E, SqliteStore, LogSyncEvent<E>> = LogSync::new(b.store.clone(), to_logs(&b.cfg, &keys), ev_b_tx);

    let (ab_tx, ab_rx) = mpsc::channel::<Msg>(cap);
    let (ba_tx, ba_rx) = mpsc::channel::<Msg>(cap);
    let rec_a: Arc<Mutex<Vec<Msg>>> = Arc::new(Mutex::new(vec![]));
    let rec_b: Arc<Mutex<Vec<Msg>>> = Arc::new(Mutex::new(vec![]));
    let (ra, rb) = (rec_a.clone(), rec_b.clone());
    // the recording happens when the message is handed to the sink, i.e. in program order of `send`
    let mut sink_a = ab_tx.with(move |m: Msg| {
        ra.lock().unwrap().push(m.clone());
        future::ready(Ok::<Msg, mpsc::SendError>(m))
    });
    let mut sink_b = ba_tx.with(move |m: Msg| {
        rb.lock().unwrap().push(m.clone());
        future::ready(Ok::<Msg, mpsc::SendError>(m))
    });
    let mut stream_a = ba_rx.map(Ok::<_, ()>);
    let mut stream_b = ab_rx.map(Ok::<_, ()>);

    let both = async { tokio::join!(sess_a.run(&mut sink_a, &mut stream_a), sess_b.run(&mut sink_b, &mut stream_b)) };
    // "timeout" = no message was handed to either sink for `ms` milliseconds (three consecutive
    // probes without progress), not a fixed wall-clock budget: a loaded machine must not turn a
    // slow session into a reported deadlock.
    let res = {
        tokio::pin!(both);
        let mut last = usize::MAX;
        let mut idle = 0;
        loop {
            tokio::select! {
                biased;
                r = &mut both => break Ok(r),
                _ = tokio::time::sleep(Duration::from_millis(ms / 3 + 1)) => {
                    let now = rec_a.lock().unwrap().len() + rec_b.lock().unwrap().len();
                    if now == last { idle += 1; } else { idle = 0; last = now; }
                    if idle >= 3 { break Err(()); }
                }
            }
        }
    };

    let status = match &res {
        Err(_) => "timeout".to_string(),
        Ok((Ok(_), Ok(_))) => "done".to_string(),
        Ok((ra, rb)) => format!(
            "err={}/{}",
            ra.as_ref().err().map(show_err).unwrap_or("ok"),
            rb.as_ref().err().map(show_err).unwrap_or("ok")
        ),
    };
    let sent_a: Vec<String> = rec_a.lock().unwrap().iter().map(|m| show_msg(m, &keys)).collect();
    let sent_b: Vec<String> = rec_b.lock().unwrap().iter().map(|m| show_msg(m, &keys)).collect();
    if bounded {
        let na = sent_a.iter().filter(|m| m.starts_with('O')).count();
        let nb = sent_b.iter().filter(|m| m.starts_with('O')).count();
        return format!("{status} handed_a={} handed_b={} ops_a={na} ops_b={nb}", sent_a.len(), sent_b.len());
    }

    // events, then ingest what was received and report the resulting heights
    let mut evs: Vec<Vec<String>> = vec![vec![], vec![]];
    for (i, (rx, side)) in [(&mut ev_a_rx, &a), (&mut ev_b_rx, &b)].into_iter().enumerate() {
        while let Ok(ev) = rx.try_recv() {
            if let LogSyncEvent::OperationReceived { operation, .. } = ev {
                let h = &operation.header;
                let size = h.to_bytes().len() + operation.body.as_ref().map(|b| b.to_bytes().len()).unwrap_or(0);
                evs[i].push(format!("{}.{}.{}/{}", keys.idx(&h.verifying_key), h.extensions, h.seq_num, size));
                insert(&side.store, &operation, h.extensions).await;
            }
        }
    }
    format!(
        "{status} | A {} | EA {} | HA {} | B {} | EB {} | HB {}",
        sent_a.join(" "),
        evs[0].join(" "),
        heights_line(&a, &keys).await,
        sent_b.join(" "),
        evs[1].join(" "),
        heights_line(&b, &keys).await
    )
}

async fn dispatch(which: &str, payload: &str, keys: Arc<Keys>) -> String {
    match which {
        "c20" => c20(payload, keys).await,
        "c19" => pair(payload, keys, false).await,
        "c21" => {
            // the deadlock depends on how tokio's select! orders its ready arms: repeat the
            // session (fresh stores every time) and report the first attempt that hangs
            let tries = num(field(payload, "tries").unwrap_or("1"));
            let mut last = String::new();
            let mut hung = None;
            for t in 0..tries {
                last = pair(payload, keys.clone(), true).await;
                if last.starts_with("timeout") {
                    hung = Some(t + 1);
                    break;
                }
                if !last.starts_with("done") {
                    break;
                }
            }
            match hung {
                Some(t) => format!("{last} attempt={t}"),
                None => format!("{last} attempts={tries}"),
            }
        }
        _ => "unknown sub-command".to_string(),
    }
}

fn main() {
    let which = std::env::args().nth(1).unwrap_or_else(|| "c20".to_string());
    let keys = Arc::new(Keys::new());
    h_common::run_cases(|payload| {
        // Every case runs on its own thread with its own runtime under a watchdog: a session that
        // spins without ever yielding (so that no timer inside the runtime can fire) is reported
        // as `timeout spin` and its thread is abandoned (it dies with the process).
        let ms = num(field(payload, "ms").unwrap_or("20000")) as u64;
        let tries = num(field(payload, "tries").unwrap_or("1")) as u64;
        let limit = Duration::from_millis(if which == "c21" { ms * 3 * tries + 30_000 } else { 180_000 });
        let (tx, rx) = std::sync::mpsc::channel::<String>();
        let (which, keys, payload) = (which.clone(), keys.clone(), payload.to_string());
        std::thread::spawn(move || {
            let res = std::panic::catch_unwind(std::panic::AssertUnwindSafe(|| {
                let rt = tokio::runtime::Builder::new_current_thread().enable_all().build().unwrap();
                rt.block_on(dispatch(&which, &payload, keys))
            }));
            let line = match res {
                Ok(s) => s,
                Err(e) => {
                    let msg = if let Some(s) = e.downcast_ref::<&str>() {
                        s.to_string()
                    } else if let Some(s) = e.downcast_ref::<String>() {
                        s.clone()
                    } else {
                        "?".to_string()
                    };
                    format!("PANIC {}", msg.replace('\n', " "))
                }
            };
            let _ = tx.send(line);
        });
        match rx.recv_timeout(limit) {
            Ok(line) => line,
            Err(_) => "timeout spin (no answer from the session thread: busy loop without yield point)".to_string(),
        }
    });
}
