//! C18: drive the real `HybridTimestamp::increment` under a scripted mock clock
//! (`p2panda-core` feature `test_utils` reads `mock_instant::thread_local::SystemTime`), and the
//! real `UnsignedTransportInfo::increment_timestamp` / `NodeInfo::update_transports`.
//!
//! Case payloads (numbers are u64, decimal):
//!   `inc <t> <l> <now1> <now2> ...`   -> `<t1>/<l1> <t2>/<l2> ... [PANIC]`
//!   `net <t> <l> <c1> <n1> <c2> <n2> ...` (record created at clock c_k, incremented at clock
//!        n_k, signed, handed to update_transports) -> `<t>/<l>:<accepted 0|1> ... [PANIC]`
//!   `upd <has_cur> <t> <l> <t2> <l2> <sigok>` -> `ERR|OK0|OK1 <stored t/l | ->`
use std::panic::{AssertUnwindSafe, catch_unwind};
use std::time::Duration;

use mock_instant::thread_local::MockClock;
use p2panda_core::SigningKey;
use p2panda_core::timestamp::{HybridTimestamp, LamportTimestamp, Timestamp};
use p2panda_net::addrs::{
    AuthenticatedTransportInfo, NodeInfo, NodeTransportInfo, TransportInfo, UnsignedTransportInfo,
};

fn set_clock(micros: u64) {
    MockClock::set_system_time(Duration::from_micros(micros));
}

fn hts(t: u64, l: u64) -> HybridTimestamp {
    HybridTimestamp::from_parts(Timestamp::new(t), LamportTimestamp::new(l))
}

fn show(h: &HybridTimestamp) -> String {
    // `Display` is "<unix>/<logical>"; go through `to_parts` so that the observation does not
    // depend on the formatter.
    let (t, l) = h.to_parts();
    format!("{}/{}", u64::from(t), l)
}

fn signed(ts: HybridTimestamp, key: &SigningKey) -> AuthenticatedTransportInfo {
    let mut info = UnsignedTransportInfo::new();
    info.timestamp = ts;
    info.sign(key).expect("sign")
}

fn stored(node: &NodeInfo) -> String {
    match &node.transports {
        Some(t) => show(&t.timestamp()),
        None => "-".to_string(),
    }
}

fn main() {
    h_common::run_cases(|payload| {
        let (kind, rest) = payload.split_once(' ').unwrap_or((payload, ""));
        let v = h_common::nums(rest);
        match kind {
            "inc" => {
                let mut h = hts(v[0], v[1]);
                let mut out: Vec<String> = Vec::new();
                for now in &v[2..] {
                    set_clock(*now);
                    match catch_unwind(AssertUnwindSafe(|| h.increment())) {
                        Ok(n) => {
                            h = n;
                            out.push(show(&h));
                        }
                        Err(_) => {
                            out.push("PANIC".into());
                            break;
                        }
                    }
                }
                out.join(" ")
            }
            "net" => {
                let key = SigningKey::generate();
                let mut node = NodeInfo::new(key.verifying_key());
                let first = signed(hts(v[0], v[1]), &key);
                assert!(node.update_transports(first.into()).expect("own record verifies"));
                let mut out: Vec<String> = Vec::new();
                for pair in v[2..].chunks(2) {
                    // What iroh_endpoint/discovery.rs `publish` does: previous = the record in
                    // our own NodeInfo; new().increment_timestamp(previous).sign(); insert.
                    let previous = match &node.transports {
                        Some(TransportInfo::Authenticated(info)) => Some(info.clone()),
                        _ => None,
                    };
                    set_clock(pair[0]);
                    let fresh = UnsignedTransportInfo::new();
                    set_clock(pair[1]);
                    let next = match catch_unwind(AssertUnwindSafe(|| {
                        fresh.increment_timestamp(previous.as_ref())
                    })) {
                        Ok(n) => n,
                        Err(_) => {
                            out.push("PANIC".into());
                            break;
                        }
                    };
                    let next = next.sign(&key).expect("sign");
                    let ts = next.timestamp();
                    let acc = match node.update_transports(next.into()) {
                        Ok(true) => 1,
                        _ => 0,
                    };
                    out.push(format!("{}:{}", show(&ts), acc));
                }
                out.join(" ")
            }
            "upd" => {
                let key = SigningKey::generate();
                let other_key = SigningKey::generate();
                let mut node = NodeInfo::new(key.verifying_key());
                if v[0] == 1 {
                    node.transports = Some(signed(hts(v[1], v[2]), &key).into());
                }
                let other = signed(hts(v[3], v[4]), if v[5] == 1 { &key } else { &other_key });
                let res = match node.update_transports(other.into()) {
                    Err(_) => "ERR",
                    Ok(false) => "OK0",
                    Ok(true) => "OK1",
                };
                format!("{} {}", res, stored(&node))
            }
            _ => "BADCASE".to_string(),
        }
    });
}
