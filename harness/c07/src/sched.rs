//! Step-by-step replay of schedules of concurrent `Acked::ack` calls (shared by h_c07 and h_c15).
//!
//! Every call i runs as its own future (joined with `join_all` or spawned as a task) inside
//! `ACK_ID.scope(i, ..)`.  The schedule points of the code under test — `cursor_before_read`,
//! `cursor_after_read`, `ack_after_write` (hook `p2panda::verif_c07::point`) and `begin_acquired`
//! (hook `p2panda_store::sqlite::verif::point`) — ask the process-wide callback installed here for a
//! future; for a task that carries an `ACK_ID` it is a [`Gate`] that completes only when the
//! controller spends a token on that call.  Tasks without an `ACK_ID` (the node's own tasks, the
//! harness' observations) are never held.  One more gate (`start`) sits in front of the call itself.
//!
//! A label `i` of the schedule lets call i pass the gate it waits at and then waits until the call
//! reaches its next gate or returns.  A call that is queued on the `Acked` semaphore reaches no
//! gate; where the protocol of the unchanged code says the call has to queue (the permit is held
//! by another call) the controller waits a short, fixed time instead and records what it sees.  On
//! the unchanged code both kinds of waiting are deterministic; a change of the order of steps
//! inside `ack` shows up as a call standing at a gate the model says it cannot have reached.
use std::collections::VecDeque;
use std::future::Future;
use std::pin::Pin;
use std::sync::{Arc, Mutex};
use std::task::{Context, Poll, Waker};
use std::time::Duration;

tokio::task_local! {
    pub static ACK_ID: usize;
}

const SETTLE: Duration = Duration::from_millis(25);
const LONG: Duration = Duration::from_secs(20);

struct Inner {
    gated: bool,
    at: Vec<Option<&'static str>>,
    arrivals: Vec<u64>,
    tokens: Vec<u32>,
    wakers: Vec<Option<Waker>>,
    done: Vec<Option<String>>,
    // what the unchanged code would have: who holds the permit, who is queued (FIFO)
    holder: Option<usize>,
    queue: VecDeque<usize>,
    stuck: bool,
}

pub struct Ctl {
    inner: Mutex<Inner>,
    notify: tokio::sync::Notify,
}

static CURRENT: Mutex<Option<Arc<Ctl>>> = Mutex::new(None);

pub fn set_current(ctl: Option<Arc<Ctl>>) {
    *CURRENT.lock().unwrap() = ctl;
}

fn gate_for(name: &'static str) -> Option<Pin<Box<dyn Future<Output = ()> + Send>>> {
    match name {
        "cursor_before_read" | "cursor_after_read" | "begin_acquired" | "ack_after_write" => {}
        _ => return None,
    }
    let id = ACK_ID.try_with(|i| *i).ok()?;
    let ctl = CURRENT.lock().unwrap().clone()?;
    {
        let g = ctl.inner.lock().unwrap();
        if !g.gated || id >= g.at.len() {
            return None;
        }
    }
    Some(Box::pin(Gate { ctl, id, name, registered: false }))
}

/// Installs the callbacks of both hooks (idempotent; they do nothing while no `Ctl` is current).
pub fn install_hooks() {
    p2panda::verif_c07::install(Some(Arc::new(|name| gate_for(name))));
    p2panda_store::sqlite::verif::install(Some(Arc::new(|name, wait| if wait { gate_for(name) } else { None })));
}

struct Gate {
    ctl: Arc<Ctl>,
    id: usize,
    name: &'static str,
    registered: bool,
}

impl Future for Gate {
    type Output = ();

    fn poll(mut self: Pin<&mut Self>, cx: &mut Context<'_>) -> Poll<()> {
        let ctl = self.ctl.clone();
        let mut g = ctl.inner.lock().unwrap();
        let id = self.id;
        if !g.gated {
            g.at[id] = None;
            return Poll::Ready(());
        }
        if !self.registered {
            self.registered = true;
            g.at[id] = Some(self.name);
            g.arrivals[id] += 1;
            ctl.notify.notify_one();
        }
        if g.tokens[id] > 0 {
            g.tokens[id] -= 1;
            g.at[id] = None;
            ctl.notify.notify_one();
            return Poll::Ready(());
        }
        g.wakers[id] = Some(cx.waker().clone());
        Poll::Pending
    }
}

impl Ctl {
    pub fn new(n: usize, gated: bool) -> Arc<Ctl> {
        Arc::new(Ctl {
            inner: Mutex::new(Inner {
                gated,
                at: vec![None; n],
                arrivals: vec![0; n],
                tokens: vec![0; n],
                wakers: (0..n).map(|_| None).collect(),
                done: vec![None; n],
                holder: None,
                queue: VecDeque::new(),
                stuck: false,
            }),
            notify: tokio::sync::Notify::new(),
        })
    }

    /// Call i: the start gate, the call itself, its result.
    pub fn wrap<F>(self: &Arc<Self>, i: usize, f: F) -> impl Future<Output = ()> + use<F>
    where
        F: Future<Output = String>,
    {
        let ctl = self.clone();
        ACK_ID.scope(i, async move {
            let gated = ctl.inner.lock().unwrap().gated;
            if gated {
                Gate { ctl: ctl.clone(), id: i, name: "start", registered: false }.await;
            }
            let r = f.await;
            let mut g = ctl.inner.lock().unwrap();
            g.done[i] = Some(r);
            g.at[i] = None;
            ctl.notify.notify_one();
        })
    }

    async fn wait<P: Fn(&Inner) -> bool>(&self, pred: P, limit: Duration) -> bool {
        let deadline = tokio::time::Instant::now() + limit;
        loop {
            if pred(&self.inner.lock().unwrap()) {
                return true;
            }
            let now = tokio::time::Instant::now();
            if now >= deadline {
                return false;
            }
            let _ = tokio::time::timeout(deadline - now, self.notify.notified()).await;
        }
    }

    /// Wait until every call stands at its start gate (all futures were polled once).
    pub async fn ready(&self) -> bool {
        self.wait(|g| g.at.iter().all(|a| a.is_some()), LONG).await
    }

    pub fn stuck(&self) -> bool {
        self.inner.lock().unwrap().stuck
    }

    /// One label of the schedule.
    pub async fn label(&self, i: usize) {
        let (name, expect_block, arr0) = {
            let g = self.inner.lock().unwrap();
            if i >= g.at.len() || g.done[i].is_some() {
                return;
            }
            let Some(name) = g.at[i] else {
                return; // in flight: queued on the semaphore
            };
            let eb = if name == "start" { g.holder.is_some() } else { g.holder != Some(i) };
            (name, eb, g.arrivals[i])
        };
        {
            let mut g = self.inner.lock().unwrap();
            g.tokens[i] += 1;
            if let Some(w) = g.wakers[i].take() {
                w.wake();
            }
        }
        // the call has to pass the gate first (its task may not have been polled yet) ...
        if !self.wait(|g| g.tokens[i] == 0 || g.done[i].is_some(), LONG).await {
            self.inner.lock().unwrap().stuck = true;
            return;
        }
        // ... then it reaches its next point, returns, or queues on the semaphore
        let moved = self
            .wait(|g| g.done[i].is_some() || g.arrivals[i] > arr0, if expect_block { SETTLE } else { LONG })
            .await;
        let mut handover = false;
        {
            let mut g = self.inner.lock().unwrap();
            if !moved && !expect_block {
                g.stuck = true;
                return;
            }
            if name == "start" {
                if g.done[i].is_none() && g.at[i].is_some() {
                    if g.holder.is_none() {
                        g.holder = Some(i);
                    }
                } else if g.done[i].is_none() && expect_block {
                    g.queue.push_back(i);
                }
            }
            if g.done[i].is_some() && g.holder == Some(i) {
                g.holder = None;
                handover = true;
            }
        }
        // the permit goes to a queued call (the first one in the semaphore's queue; calls whose header
        // is of another topic return at once and pass it on)
        while handover {
            if self.inner.lock().unwrap().queue.is_empty() {
                break;
            }
            let ok = self
                .wait(|g| g.queue.iter().any(|&j| g.done[j].is_some() || g.at[j].is_some()), LONG)
                .await;
            let mut g = self.inner.lock().unwrap();
            if !ok {
                g.stuck = true;
                break;
            }
            let arrived = g.queue.iter().copied().find(|&j| g.done[j].is_none() && g.at[j].is_some());
            let returned: Vec<usize> = g.queue.iter().copied().filter(|&j| g.done[j].is_some()).collect();
            g.queue.retain(|j| !returned.contains(j) && Some(*j) != arrived);
            if arrived.is_some() {
                g.holder = arrived;
                break;
            }
        }
    }

    /// One letter per call: I not started, W in flight (queued), H/R/B/N at the four points of
    /// `ack`, K returned Ok, X returned InvalidTopic, E another error.
    pub fn letters(&self) -> String {
        let g = self.inner.lock().unwrap();
        (0..g.at.len())
            .map(|i| match (&g.done[i], g.at[i]) {
                (Some(r), _) => match r.as_str() {
                    "ok" => 'K',
                    "InvalidTopic" => 'X',
                    _ => 'E',
                },
                (None, Some("start")) => 'I',
                (None, Some("cursor_before_read")) => 'H',
                (None, Some("cursor_after_read")) => 'R',
                (None, Some("begin_acquired")) => 'B',
                (None, Some("ack_after_write")) => 'N',
                (None, Some(_)) => '?',
                (None, None) => 'W',
            })
            .collect()
    }

    /// Open all gates for good.
    pub fn open(&self) {
        let mut g = self.inner.lock().unwrap();
        g.gated = false;
        for w in g.wakers.iter_mut() {
            if let Some(w) = w.take() {
                w.wake();
            }
        }
    }

    pub async fn all_done(&self) -> bool {
        self.wait(|g| g.done.iter().all(|d| d.is_some()), LONG + LONG).await
    }

    pub fn results(&self) -> Vec<String> {
        let g = self.inner.lock().unwrap();
        g.done.iter().map(|d| d.clone().unwrap_or("-".to_string())).collect()
    }
}
