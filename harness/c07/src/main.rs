//! C07: drive the real `Cursor::advance` and the real `Acked::ack` / `Acked::cursor` (crate-private
//! in `p2panda`, reached through the cfg hook `p2panda::verif_c07`) over an in-memory SqliteStore.
//!
//! Case payloads (first token selects the kind):
//!
//! `adv <a/l=h ...> ; a l h ; a l h ; ...`
//!     a cursor with the given initial state, then a sequence of `advance(author, log, height)`.
//!     Result: `<log_height of the advanced log after each step, comma separated> | <final state>`.
//!
//! `ack <name:topic ...> ; i a t h ; i a t h ; ...`
//!     the `Acked` instances of the scenario (`name` = custom cursor name index, or `-` for
//!     `Acked::new`, whose cursor is named after the topic), all over ONE store; then a sequence of
//!     "instance i acks a header of author a, in the log of topic t, with seq_num h".
//!     Result, per op and separated by ` ; `: `<ok|InvalidTopic|InvalidName|Store> [cursor of
//!     instance 0] [cursor of instance 1] ...`, a cursor being its state `a/t=h ...` as returned by
//!     `Acked::cursor()`, cross-checked against `CursorStore::get_cursor` on the store (`RAWDIFF`
//!     is appended if they differ).
//!
//! `node n0 n1 ; i t j ; ...`
//!     a real `Node` with two topic streams, acks through the public `StreamSubscription::ack`
//!     (see `run_node`).
//!
//! `conc <rt c|m><mode j|s><store m|f> <T> ; a t h, a t h ... ; a t h, a t h ... ; <i i i ...|free>`
//!     concurrent acks through ONE `Acked` (`Acked::new(store, topic T)`, one clone per call):
//!     after the first list was acked sequentially, the calls of the second list are all in flight
//!     at once — `join_all` (j) or one spawned task each (s), on a current-thread (c) or
//!     multi-thread (m) runtime, over an in-memory (m) or file-backed default-pool (f) store — and
//!     the label list decides which call passes its next schedule point (see `sched.rs`); `free`
//!     runs them without any gate. Result: `[cursor] ; <letters> [cursor] ; ... | res res ... |
//!     [final cursor]` (one entry per label; persisted cursor read with `CursorStore::get_cursor`).
//!
//! Authors are real `VerifyingKey`s, topics real `Topic`s, log ids real `LogId::from_topic(..)`
//! hashes; the output maps them back to scenario indices.
use std::collections::{BTreeMap, HashMap};

use p2panda::operation::{Extensions, Header, LogId};
use p2panda::verif_c07::{Acked, AckedError};
use p2panda_core::logs::LogHeights;
use p2panda_core::{Cursor, SigningKey, Topic, VerifyingKey};
use p2panda_store::cursors::CursorStore;
use p2panda_store::{SqliteStore, SqliteStoreBuilder};

mod sched;

struct Keys {
    by_idx: Vec<VerifyingKey>,
    idx_of: HashMap<VerifyingKey, u64>,
}

impl Keys {
    fn new() -> Self {
        Keys { by_idx: Vec::new(), idx_of: HashMap::new() }
    }

    fn get(&mut self, i: u64) -> VerifyingKey {
        while (self.by_idx.len() as u64) <= i {
            let n = self.by_idx.len() as u64;
            let mut seed = [0u8; 32];
            seed[..8].copy_from_slice(&n.to_le_bytes());
            seed[31] = 0x5a;
            let vk = SigningKey::from_bytes(&seed).verifying_key();
            self.idx_of.insert(vk, n);
            self.by_idx.push(vk);
        }
        self.by_idx[i as usize]
    }
}

fn topic(i: u64) -> Topic {
    let mut b = [0u8; 32];
    b[..8].copy_from_slice(&i.to_le_bytes());
    b[31] = 0x7c;
    Topic::from(b)
}

fn show_state<L: Ord + Copy>(
    keys: &Keys,
    state: &LogHeights<VerifyingKey, L>,
    log_idx: &dyn Fn(&L) -> String,
) -> String {
    show_state_by(&|vk: &VerifyingKey| keys.idx_of[vk], state, log_idx)
}

fn show_state_by<L: Ord + Copy>(
    author_idx: &dyn Fn(&VerifyingKey) -> u64,
    state: &LogHeights<VerifyingKey, L>,
    log_idx: &dyn Fn(&L) -> String,
) -> String {
    let mut rows: Vec<(u64, String, u32)> = Vec::new();
    let mut empties: Vec<u64> = Vec::new();
    for (vk, inner) in state {
        let a = author_idx(vk);
        if inner.is_empty() {
            empties.push(a);
        }
        for (l, h) in inner {
            rows.push((a, log_idx(l), *h));
        }
    }
    let mut toks: Vec<(u64, u64, String)> = rows
        .into_iter()
        .map(|(a, l, h)| (a, l.parse::<u64>().unwrap_or(u64::MAX), format!("{}/{}={}", a, l, h)))
        .collect();
    for a in empties {
        toks.push((a, 0, format!("{}/", a)));
    }
    toks.sort();
    toks.into_iter().map(|t| t.2).collect::<Vec<_>>().join(" ")
}

fn run_adv(keys: &mut Keys, body: &str) -> String {
    let mut parts = body.split(';');
    let init = parts.next().unwrap_or("");
    let mut state: LogHeights<VerifyingKey, u64> = BTreeMap::new();
    for tok in init.split_whitespace() {
        let (a, rest) = tok.split_once('/').expect("a/l=h");
        let (l, h) = rest.split_once('=').expect("l=h");
        let dup = state
            .entry(keys.get(a.parse().unwrap()))
            .or_default()
            .insert(l.parse().unwrap(), h.parse().unwrap());
        assert!(dup.is_none(), "duplicate key in scenario");
    }
    let mut cursor: Cursor<VerifyingKey, u64> = Cursor::new("adv", state);
    let mut seen: Vec<String> = Vec::new();
    for op in parts {
        let v = h_common::nums(op);
        if v.is_empty() {
            continue;
        }
        let (a, l, h) = (keys.get(v[0]), v[1], v[2] as u32);
        cursor.advance(a, l, h);
        seen.push(match cursor.log_height(&a, &l) {
            Some(x) => x.to_string(),
            None => "-".to_string(),
        });
    }
    format!("{} | {}", seen.join(","), show_state(keys, cursor.state(), &|l: &u64| l.to_string()))
}

async fn run_ack(keys: &mut Keys, body: &str) -> String {
    let mut parts = body.split(';');
    let insts = parts.next().unwrap_or("");
    let store: SqliteStore = SqliteStoreBuilder::memory().build().await.expect("store");
    let mut log_to_topic: HashMap<LogId, u64> = HashMap::new();
    for t in 0..64u64 {
        log_to_topic.insert(LogId::from_topic(topic(t)), t);
    }
    let mut acked: Vec<Acked> = Vec::new();
    for tok in insts.split_whitespace() {
        let (name, t) = tok.split_once(':').expect("name:topic");
        let t: u64 = t.parse().unwrap();
        if name == "-" {
            acked.push(Acked::new(store.clone(), topic(t)));
        } else {
            acked.push(Acked::from_name(store.clone(), topic(t), format!("cursor-{}", name)));
        }
    }
    let log_idx = |l: &LogId| match log_to_topic.get(l) {
        Some(t) => t.to_string(),
        None => "?".to_string(),
    };
    let mut out: Vec<String> = Vec::new();
    for op in parts {
        let v = h_common::nums(op);
        if v.is_empty() {
            continue;
        }
        let (i, a, t, h) = (v[0] as usize, keys.get(v[1]), v[2], v[3] as u32);
        let header = Header {
            version: 1,
            verifying_key: a,
            signature: None,
            payload_size: 0,
            payload_hash: None,
            seq_num: h,
            backlink: None,
            extensions: Extensions::from_topic(topic(t)),
        };
        let res = match acked[i].ack(&header).await {
            Ok(()) => "ok",
            Err(AckedError::InvalidTopic(_)) => "InvalidTopic",
            Err(AckedError::InvalidName(_, _)) => "InvalidName",
            Err(AckedError::Store(_)) => "Store",
        };
        let mut line = res.to_string();
        for k in &acked {
            let c = k.cursor().await.expect("cursor");
            let raw: Option<Cursor<VerifyingKey, LogId>> =
                CursorStore::<VerifyingKey, LogId>::get_cursor(&store, k.cursor_name())
                    .await
                    .expect("get_cursor");
            let raw_state = raw.map(|c| c.state().clone()).unwrap_or_default();
            line.push_str(&format!(" [{}]", show_state(keys, c.state(), &log_idx)));
            if &raw_state != c.state() || c.name() != k.cursor_name() {
                line.push_str(" RAWDIFF");
            }
        }
        out.push(line);
    }
    out.join(" ; ")
}

fn header_of(a: VerifyingKey, t: u64, h: u32) -> Header {
    Header {
        version: 1,
        verifying_key: a,
        signature: None,
        payload_size: 0,
        payload_hash: None,
        seq_num: h,
        backlink: None,
        extensions: Extensions::from_topic(topic(t)),
    }
}

fn triples(s: &str) -> Vec<(u64, u64, u32)> {
    s.split(',')
        .map(|p| h_common::nums(p))
        .filter(|v| !v.is_empty())
        .map(|v| (v[0], v[1], v[2] as u32))
        .collect()
}

/// `conc`: see the module documentation and `sched.rs`.
async fn run_conc(keys: &mut Keys, body: &str) -> String {
    let mut parts = body.split(';');
    let head: Vec<&str> = parts.next().unwrap_or("").split_whitespace().collect();
    let flags: Vec<char> = head[0].chars().collect();
    let (spawn, file) = (flags[1] == 's', flags[2] == 'f');
    let t: u64 = head[1].parse().unwrap();
    let init = triples(parts.next().unwrap_or(""));
    let acks = triples(parts.next().unwrap_or(""));
    let sched_txt = parts.next().unwrap_or("").trim().to_string();
    let sched: Option<Vec<usize>> =
        if sched_txt == "free" { None } else { Some(h_common::nums(&sched_txt).into_iter().map(|x| x as usize).collect()) };

    let dir = std::env::temp_dir().join(format!(
        "h_c07_{}_{}",
        std::process::id(),
        SALT.fetch_add(1, std::sync::atomic::Ordering::SeqCst)
    ));
    let store: SqliteStore = if file {
        std::fs::create_dir_all(&dir).expect("temp dir");
        SqliteStoreBuilder::new()
            .database_url(&format!("sqlite://{}/db.sqlite", dir.display()))
            .build()
            .await
            .expect("file store")
    } else {
        SqliteStoreBuilder::memory().build().await.expect("store")
    };
    let mut log_to_topic: HashMap<LogId, u64> = HashMap::new();
    for t in 0..64u64 {
        log_to_topic.insert(LogId::from_topic(topic(t)), t);
    }
    let log_idx = |l: &LogId| match log_to_topic.get(l) {
        Some(t) => t.to_string(),
        None => "?".to_string(),
    };
    let acked = Acked::new(store.clone(), topic(t));
    for (a, lt, h) in &init {
        let _ = acked.ack(&header_of(keys.get(*a), *lt, *h)).await;
    }
    for (a, _, _) in &acks {
        keys.get(*a);
    }
    let name = acked.cursor_name().to_string();
    let keys_ro: &Keys = keys;
    let read = || async {
        let raw: Option<Cursor<VerifyingKey, LogId>> =
            CursorStore::<VerifyingKey, LogId>::get_cursor(&store, &name).await.expect("get_cursor");
        format!("[{}]", show_state(keys_ro, &raw.map(|c| c.state().clone()).unwrap_or_default(), &log_idx))
    };
    let mut out: Vec<String> = vec![read().await];

    let ctl = sched::Ctl::new(acks.len(), sched.is_some());
    sched::set_current(Some(ctl.clone()));
    let mut futs = Vec::new();
    for (i, (a, lt, h)) in acks.iter().enumerate() {
        let k = acked.clone();
        let header = header_of(keys_ro.by_idx[*a as usize], *lt, *h);
        futs.push(ctl.wrap(i, async move {
            match k.ack(&header).await {
                Ok(()) => "ok",
                Err(AckedError::InvalidTopic(_)) => "InvalidTopic",
                Err(AckedError::InvalidName(_, _)) => "InvalidName",
                Err(AckedError::Store(_)) => "Store",
            }
            .to_string()
        }));
    }
    let controller = async {
        let mut obs: Vec<String> = Vec::new();
        if let Some(labels) = &sched {
            if !ctl.ready().await {
                obs.push("NOTREADY".to_string());
            }
            for i in labels {
                ctl.label(*i).await;
                if ctl.stuck() {
                    obs.push(format!("STUCK {}", ctl.letters()));
                    break;
                }
                obs.push(format!("{} {}", ctl.letters(), read().await));
            }
        }
        ctl.open();
        if !ctl.all_done().await {
            obs.push(format!("HUNG {}", ctl.letters()));
        }
        obs
    };
    let obs = if spawn {
        let handles: Vec<_> = futs.into_iter().map(tokio::spawn).collect();
        let obs = controller.await;
        for h in handles {
            let _ = tokio::time::timeout(std::time::Duration::from_secs(5), h).await;
        }
        obs
    } else {
        let (obs, _) = tokio::join!(controller, futures_util::future::join_all(futs));
        obs
    };
    sched::set_current(None);
    out.extend(obs);
    let fin = read().await;
    let res = ctl.results().join(" ");
    drop(acked);
    store.pool().close().await;
    if file {
        let _ = std::fs::remove_dir_all(&dir);
    }
    format!("{} | {} | {}", out.join(" ; "), res, fin)
}

/// `node n0 n1 ; i t j ; ...`: a real `Node` (explicit ack policy) with one topic stream per topic
/// 0 and 1; `n_t` messages are published into topic t; then "subscription i acks the j-th
/// operation of topic t" through the public `StreamSubscription::ack(hash)`. The cursors are read
/// back from the node's store with `CursorStore::get_cursor(topic.to_string())`. Output format as
/// for `ack` (the node's own key is author 0).
async fn run_node(body: &str) -> String {
    use p2panda::node::AckPolicy;
    let mut parts = body.split(';');
    let counts = h_common::nums(parts.next().unwrap_or(""));
    // The node runs on a pool we created ourselves, so that the cursors can be read back through
    // a `SqliteStore` over the very same database (`Node::store()` is test-only).
    let store: SqliteStore = SqliteStoreBuilder::memory().build().await.expect("store");
    let node = p2panda::builder()
        .ack_policy(AckPolicy::Explicit)
        .database_pool(store.pool().clone())
        .spawn()
        .await
        .expect("node");
    // Per-case unique topics: the node's database may be shared between nodes of one process.
    let salt = SALT.fetch_add(1, std::sync::atomic::Ordering::SeqCst) + 1;
    let topics: Vec<Topic> = (0..2u64).map(|t| topic(1000 * salt + t)).collect();
    let mut log_to_topic: HashMap<LogId, u64> = HashMap::new();
    for (t, tp) in topics.iter().enumerate() {
        log_to_topic.insert(LogId::from_topic(*tp), t as u64);
    }
    let mut pubs = Vec::new();
    let mut subs = Vec::new();
    for tp in &topics {
        let (tx, rx) = node.stream::<String>(*tp).await.expect("stream");
        pubs.push(tx);
        subs.push(rx);
    }
    let mut hashes: Vec<Vec<p2panda_core::Hash>> = vec![Vec::new(), Vec::new()];
    for t in 0..2usize {
        for j in 0..counts[t] {
            let processing = pubs[t].publish(format!("m{}-{}", t, j)).await.expect("publish");
            hashes[t].push(processing.hash());
            processing.await.expect("processed");
        }
    }
    let log_idx = |l: &LogId| match log_to_topic.get(l) {
        Some(t) => t.to_string(),
        None => "?".to_string(),
    };
    let mut out: Vec<String> = Vec::new();
    for op in parts {
        let v = h_common::nums(op);
        if v.is_empty() {
            continue;
        }
        let (i, t, j) = (v[0] as usize, v[1] as usize, v[2] as usize);
        let res = match subs[i].ack(hashes[t][j]).await {
            Ok(()) => "ok",
            Err(AckedError::InvalidTopic(_)) => "InvalidTopic",
            Err(AckedError::InvalidName(_, _)) => "InvalidName",
            Err(AckedError::Store(_)) => "Store",
        };
        let mut line = res.to_string();
        for tp in &topics {
            let raw: Option<Cursor<VerifyingKey, LogId>> =
                CursorStore::<VerifyingKey, LogId>::get_cursor(&store, tp.to_string())
                    .await
                    .expect("get_cursor");
            let st = raw.map(|c| c.state().clone()).unwrap_or_default();
            line.push_str(&format!(" [{}]", show_state_by(&|_vk| 0, &st, &log_idx)));
        }
        out.push(line);
    }
    out.join(" ; ")
}

static SALT: std::sync::atomic::AtomicU64 = std::sync::atomic::AtomicU64::new(0);

fn main() {
    let rt = tokio::runtime::Builder::new_current_thread().enable_all().build().expect("runtime");
    let mut rt_multi: Option<tokio::runtime::Runtime> = None;
    sched::install_hooks();
    let mut keys = Keys::new();
    h_common::run_cases(|payload| {
        let (kind, body) = payload.split_once(' ').unwrap_or((payload, ""));
        match kind {
            "adv" => run_adv(&mut keys, body),
            "ack" => rt.block_on(run_ack(&mut keys, body)),
            "node" => rt.block_on(run_node(body)),
            "conc" if body.starts_with('m') => {
                let mt = rt_multi.get_or_insert_with(|| {
                    tokio::runtime::Builder::new_multi_thread().worker_threads(2).enable_all().build().expect("runtime")
                });
                mt.block_on(run_conc(&mut keys, body))
            }
            "conc" => rt.block_on(run_conc(&mut keys, body)),
            _ => "BADKIND".to_string(),
        }
    });
}
