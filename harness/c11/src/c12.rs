//! C12: cancel the real `Orderer::next` future at its await points.
//!
//! Payload: `<mode> <step> <step> ...`
//!   mode `direct`: the real `Orderer` over the real (file-backed) `SqliteStore`; an attempt `k:<n>`
//!                  polls a fresh `next()` future by hand (counting waker) and drops it after the
//!                  n-th poll that returned `Pending`.  Where it was cancelled is observed in the
//!                  database: `post` = a ready row is flagged `in_queue = FALSE` although the item
//!                  was never returned (the commit was applied), `pre` otherwise.
//!   mode `wrap`:   the real `Orderer` over a thin wrapper store which delegates every call to the
//!                  real `SqliteStore` and can park the calling future at a named await point:
//!                  `begin` (in `Transaction::begin`), `take` (in `take_next_ready`), `commit0`
//!                  (in `commit`, nothing committed yet), `commit1` (in `commit`, the database has
//!                  applied it), `getop` (in `get_operation`); `notified` = stuck waiting for a
//!                  notification (queue empty).  An attempt `a:<point>` polls a fresh `next()`
//!                  future until it is parked there (or completes) and drops it.
//!   steps: `d<x>:<deps>` deliver operation x through `Orderer::process`; `k:<n>` / `a:<point>` one
//!          cancelled (or, if it completes first, successful) `next`.  At the end the queue is
//!          drained with fresh `next()` calls awaited to completion.
//! Result: one token `<where>=<x|->` per attempt, then `| [drained ids]`.
use std::cell::RefCell;
use std::collections::HashSet;
use std::future::Future;
use std::pin::Pin;
use std::rc::Rc;
use std::sync::Arc;
use std::sync::atomic::{AtomicUsize, Ordering as AtomicOrdering};
use std::task::{Context, Poll, Wake, Waker};
use std::time::{Duration, Instant};

use p2panda_core::{Hash, LogId, Topic};
use p2panda_store::operations::OperationStore;
use p2panda_store::orderer::{OrdererStore, OrdererTestExt};
use p2panda_store::{SqliteError, SqliteStore, SqliteStoreBuilder, Transaction};
use p2panda_stream::Processor;
use p2panda_stream::orderer::Orderer;

use crate::{Op, OpGraph, Step, parse_steps};

// ---------------------------------------------------------------------------------------------
// wrapper store
// ---------------------------------------------------------------------------------------------

#[derive(Default)]
struct Ctl {
    stop_at: Option<String>,
    parked: Option<String>,
    last: String,
}

#[derive(Clone)]
struct WrapStore {
    inner: SqliteStore,
    ctl: Rc<RefCell<Ctl>>,
}

/// Never completes; the harness drops the surrounding future while it is parked here.
struct Park;

impl Future for Park {
    type Output = ();
    fn poll(self: Pin<&mut Self>, _cx: &mut Context<'_>) -> Poll<()> {
        Poll::Pending
    }
}

impl WrapStore {
    async fn gate(&self, name: &str) {
        let stop = {
            let mut c = self.ctl.borrow_mut();
            c.last = name.to_string();
            c.stop_at.as_deref() == Some(name)
        };
        if stop {
            self.ctl.borrow_mut().parked = Some(name.to_string());
            Park.await;
        }
    }
}

impl Transaction for WrapStore {
    type Error = SqliteError;
    type Permit = <SqliteStore as Transaction>::Permit;

    async fn begin(&self) -> Result<Self::Permit, Self::Error> {
        self.gate("begin").await;
        self.inner.begin().await
    }

    async fn rollback(&self, permit: Self::Permit) -> Result<(), Self::Error> {
        self.inner.rollback(permit).await
    }

    async fn commit(&self, permit: Self::Permit) -> Result<(), Self::Error> {
        self.gate("commit0").await;
        let r = self.inner.commit(permit).await;
        self.gate("commit1").await;
        r
    }
}

impl OrdererStore<Hash> for WrapStore {
    type Error = SqliteError;

    async fn mark_ready(&self, id: Hash) -> Result<bool, Self::Error> {
        self.inner.mark_ready(id).await
    }

    async fn mark_pending(&self, id: Hash, dependencies: Vec<Hash>) -> Result<bool, Self::Error> {
        self.inner.mark_pending(id, dependencies).await
    }

    async fn get_next_pending(&self, id: Hash) -> Result<Option<HashSet<(Hash, Vec<Hash>)>>, Self::Error> {
        self.inner.get_next_pending(id).await
    }

    async fn take_next_ready(&self) -> Result<Option<Hash>, Self::Error> {
        self.gate("take").await;
        let r = OrdererStore::<Hash>::take_next_ready(&self.inner).await;
        if let Ok(None) = r {
            self.ctl.borrow_mut().last = "notified".to_string();
        }
        r
    }

    async fn remove_pending(&self, id: Hash) -> Result<bool, Self::Error> {
        self.inner.remove_pending(id).await
    }

    async fn ready(&self, keys: &[Hash]) -> Result<bool, Self::Error> {
        self.inner.ready(keys).await
    }
}

impl OperationStore<Op, Hash> for WrapStore {
    type Error = SqliteError;

    async fn insert_operation<L: LogId>(&self, id: &Hash, operation: &Op, log_id: &L) -> Result<bool, Self::Error> {
        self.inner.insert_operation(id, operation, log_id).await
    }

    async fn get_operation(&self, id: &Hash) -> Result<Option<Op>, Self::Error> {
        self.gate("getop").await;
        self.inner.get_operation(id).await
    }

    async fn get_operation_tx(&self, id: &Hash) -> Result<Option<Op>, Self::Error> {
        self.inner.get_operation_tx(id).await
    }

    async fn has_operation(&self, id: &Hash) -> Result<bool, Self::Error> {
        OperationStore::<Op, Hash>::has_operation(&self.inner, id).await
    }

    async fn has_operation_tx(&self, id: &Hash) -> Result<bool, Self::Error> {
        OperationStore::<Op, Hash>::has_operation_tx(&self.inner, id).await
    }

    async fn delete_operation(&self, id: &Hash) -> Result<bool, Self::Error> {
        OperationStore::<Op, Hash>::delete_operation(&self.inner, id).await
    }

    async fn delete_operation_payload(&self, id: &Hash) -> Result<bool, Self::Error> {
        OperationStore::<Op, Hash>::delete_operation_payload(&self.inner, id).await
    }
}

// ---------------------------------------------------------------------------------------------
// hand polling
// ---------------------------------------------------------------------------------------------

struct CountWaker(AtomicUsize);

impl Wake for CountWaker {
    fn wake(self: Arc<Self>) {
        self.0.fetch_add(1, AtomicOrdering::SeqCst);
    }
    fn wake_by_ref(self: &Arc<Self>) {
        self.0.fetch_add(1, AtomicOrdering::SeqCst);
    }
}

/// Lets spawned tasks (the rollback task of a dropped permit) and the SQLite worker make progress.
async fn settle() {
    for _ in 0..3 {
        tokio::task::yield_now().await;
        tokio::time::sleep(Duration::from_millis(1)).await;
    }
}

/// How long a future may stay without wake-up before it counts as blocked. Only used as a verdict
/// where the queue is known to be empty (the future waits for `notified`); otherwise it is a
/// safety net against hanging.
const STUCK_EMPTY: Duration = Duration::from_millis(300);
const STUCK_NEVER: Duration = Duration::from_secs(20);

enum Polled<T> {
    Ready(T),
    /// dropped after the budget of pending polls / when parked
    Dropped,
    /// no wake-up arrived: blocked on something only another caller can release
    Stuck,
}

/// Polls `fut` by hand. `budget` = number of `Pending` results after which the future is dropped
/// (`None`: unlimited); `parked()` is asked after every `Pending`.
async fn poll_by_hand<F, T>(fut: F, budget: Option<usize>, stuck_after: Duration, parked: impl Fn() -> bool,
                            waiting: impl Fn() -> bool) -> (Polled<T>, usize)
where
    F: Future<Output = T>,
{
    let mut fut = Box::pin(fut);
    let cw = Arc::new(CountWaker(AtomicUsize::new(0)));
    let waker = Waker::from(cw.clone());
    let mut cx = Context::from_waker(&waker);
    let mut pendings = 0usize;
    loop {
        let seen = cw.0.load(AtomicOrdering::SeqCst);
        match fut.as_mut().poll(&mut cx) {
            Poll::Ready(v) => return (Polled::Ready(v), pendings),
            Poll::Pending => {
                pendings += 1;
                if parked() {
                    drop(fut);
                    return (Polled::Dropped, pendings);
                }
                if waiting() {
                    drop(fut);
                    return (Polled::Stuck, pendings);
                }
                if let Some(b) = budget
                    && pendings >= b
                {
                    drop(fut);
                    return (Polled::Dropped, pendings);
                }
                // wait for a wake-up (from the SQLite worker thread or a tokio primitive)
                let t0 = Instant::now();
                while cw.0.load(AtomicOrdering::SeqCst) == seen {
                    tokio::time::sleep(Duration::from_micros(200)).await;
                    if t0.elapsed() > stuck_after {
                        drop(fut);
                        return (Polled::Stuck, pendings);
                    }
                }
            }
        }
    }
}

async fn counts(store: &SqliteStore) -> (usize, usize) {
    let permit = store.begin().await.unwrap();
    let all = store.ready_len().await;
    let queued = store.ready_queue_len().await;
    store.commit(permit).await.unwrap();
    (all, queued)
}

async fn run_with<S>(steps: &[Step], attempts: &[String], order: &[bool], orderer: Orderer<Op, Hash, S>,
                     sql: &SqliteStore, graph: &OpGraph, ctl: Option<Rc<RefCell<Ctl>>>) -> String
where
    S: Clone + Transaction + OrdererStore<Hash> + OperationStore<Op, Hash>,
{
    let mut out: Vec<String> = Vec::new();
    let mut returned = 0usize;
    let mut si = 0usize;
    let mut ai = 0usize;
    for is_attempt in order {
        if !*is_attempt {
            let Step::Deliver(x, _) = &steps[si] else { return "ERR step".to_string() };
            si += 1;
            if orderer.process(graph.ops[x].clone()).await.is_err() {
                return "ERR process".to_string();
            }
            continue;
        }
        let a = &attempts[ai];
        ai += 1;
        let (res, class) = if let (Some(ctl), Ok(k)) = (&ctl, a.parse::<usize>()) {
            // wrapper store, but cut after k polls (the natural `Pending` points of the real store):
            // the wrapper knows inside which call the future was when it was dropped
            {
                let mut c = ctl.borrow_mut();
                c.stop_at = None;
                c.parked = None;
                c.last = "lock".to_string();
            }
            let ctl3 = ctl.clone();
            let (res, _) = poll_by_hand(orderer.next(), Some(k), STUCK_NEVER, || false,
                                        move || ctl3.borrow().last == "notified").await;
            let class = match &res {
                Polled::Ready(_) => "done".to_string(),
                _ => ctl.borrow().last.clone(),
            };
            (res, class)
        } else if let Some(ctl) = &ctl {
            {
                let mut c = ctl.borrow_mut();
                c.stop_at = if a == "notified" || a == "none" { None } else { Some(a.clone()) };
                c.parked = None;
                c.last = "lock".to_string();
            }
            let ctl2 = ctl.clone();
            let ctl3 = ctl.clone();
            // the wrapper sees `take_next_ready` answer "nothing": a `Pending` after that is the wait
            // for a notification
            let (res, _) = poll_by_hand(orderer.next(), None, STUCK_NEVER, move || ctl2.borrow().parked.is_some(),
                                        move || ctl3.borrow().last == "notified").await;
            let class = match &res {
                Polled::Ready(_) => "done".to_string(),
                Polled::Dropped => ctl.borrow().parked.clone().unwrap_or_else(|| "?".to_string()),
                Polled::Stuck => ctl.borrow().last.clone(),
            };
            ctl.borrow_mut().stop_at = None;
            (res, class)
        } else {
            let k: usize = a.parse().expect("k");
            let (_, queued) = counts(sql).await;
            let stuck_after = if queued == 0 { STUCK_EMPTY } else { STUCK_NEVER };
            let (res, _) = poll_by_hand(orderer.next(), Some(k), stuck_after, || false, || false).await;
            let class = match &res {
                Polled::Ready(_) => "done",
                Polled::Dropped => "cut",
                Polled::Stuck => "notified",
            };
            (res, class.to_string())
        };
        settle().await;
        let mut class = class;
        let tok = match res {
            Polled::Ready(Ok(op)) => {
                returned += 1;
                graph.index[&op.hash].to_string()
            }
            Polled::Ready(Err(_)) => return "ERR next".to_string(),
            _ => "-".to_string(),
        };
        if ctl.is_none() && class == "cut" {
            // where was it cut? rows flagged out of the queue vs. items handed out so far
            let (all, queued) = counts(sql).await;
            class = if all - queued > returned { "post".to_string() } else { "pre".to_string() };
            if all - queued > returned {
                returned = all - queued; // the lost item is accounted for; later cuts are judged afresh
            }
        }
        if ctl.is_some() && tok == "-" && (class == "commit0" || class == "commit1") {
            // cut inside `commit`: whether the database had applied it is read off the tables
            let (all, queued) = counts(sql).await;
            class = if all - queued > returned { "commit1".to_string() } else { "commit0".to_string() };
        }
        if ctl.is_some() && tok == "-" && (class == "commit1" || class == "getop") {
            let (all, queued) = counts(sql).await;
            returned = all - queued;
        }
        out.push(format!("{class}={tok}"));
    }
    // drain with fresh `next()` calls awaited to completion
    let mut drained: Vec<u64> = Vec::new();
    loop {
        let (_, queued) = counts(sql).await;
        if queued == 0 {
            break;
        }
        match orderer.next().await {
            Ok(op) => drained.push(graph.index[&op.hash]),
            Err(_) => return "ERR drain".to_string(),
        }
        if drained.len() > 10_000 {
            return "ERR drain does not end".to_string();
        }
    }
    format!("{} | [{}]", out.join(" "), h_common::join(&drained, ","))
}

/// `buffer <n> <gap_us>`: n independent operations are fed, `gap_us` apart, through the public
/// stream layer (`ProcessorStream` -> `Buffer`, whose `select!` drops the pending `next()` future
/// whenever input arrives) around the real `Orderer`.  Timing dependent, hence only reported:
/// `delivered=<m>/<n> flagged_out=<rows with in_queue = FALSE> queued=<rows still queued>`.
async fn run_buffer(n: u64, gap_us: u64, sql: &SqliteStore) -> String {
    use futures_util::StreamExt;
    use p2panda_stream::StreamLayerExt;
    let steps: Vec<Step> = (0..n).map(|i| Step::Deliver(i, vec![])).collect();
    let graph = OpGraph::build(&steps);
    {
        let log_id = Topic::random();
        let permit = sql.begin().await.unwrap();
        for op in graph.ops.values() {
            sql.insert_operation(&op.hash, op, &log_id).await.unwrap();
        }
        sql.commit(permit).await.unwrap();
    }
    let local = tokio::task::LocalSet::new();
    let delivered: Vec<u64> = local
        .run_until(async {
            let orderer: Orderer<Op, Hash, SqliteStore> = Orderer::new(sql.clone());
            let (tx, rx) = tokio::sync::mpsc::unbounded_channel::<Op>();
            let input = futures_util::stream::unfold(rx, |mut rx| async move { rx.recv().await.map(|x| (x, rx)) });
            let mut stream = Box::pin(input.layer(orderer));
            let ops: Vec<Op> = (0..n).map(|i| graph.ops[&i].clone()).collect();
            let feeder = tokio::task::spawn_local(async move {
                for op in ops {
                    let _ = tx.send(op);
                    if gap_us > 0 {
                        tokio::time::sleep(Duration::from_micros(gap_us)).await;
                    } else {
                        tokio::task::yield_now().await;
                    }
                }
                // keep the sender alive: a closed input ends the buffer task
                tokio::time::sleep(Duration::from_secs(3600)).await;
            });
            let mut got: Vec<u64> = Vec::new();
            loop {
                match tokio::time::timeout(Duration::from_millis(4000), stream.next()).await {
                    Ok(Some(Ok(op))) => got.push(graph.index[&op.hash]),
                    Ok(Some(Err(_))) => break,
                    Ok(None) => break,
                    Err(_) => break, // idle: nothing more is coming
                }
                if got.len() as u64 >= n {
                    break;
                }
            }
            feeder.abort();
            drop(stream);
            got
        })
        .await;
    // the aborted buffer task (its pending `next()` holds the transaction permit) dies with the set
    drop(local);
    settle().await;
    let Ok((all, queued)) = tokio::time::timeout(Duration::from_secs(10), counts(sql)).await else {
        return format!("delivered={}/{} STUCK", delivered.len(), n);
    };
    let mut d = delivered.clone();
    d.sort();
    d.dedup();
    format!("delivered={}/{} flagged_out={} queued={} distinct={}", delivered.len(), n, all - queued, queued, d.len())
}

pub async fn run(tokens: &[&str]) -> String {
    let mode = tokens[0];
    let mut step_tokens: Vec<&str> = Vec::new();
    let mut attempts: Vec<String> = Vec::new();
    let mut order: Vec<bool> = Vec::new();
    for t in if mode == "buffer" { &tokens[..0] } else { &tokens[1..] } {
        if let Some(a) = t.strip_prefix("a:").or_else(|| t.strip_prefix("k:")) {
            attempts.push(a.to_string());
            order.push(true);
        } else {
            step_tokens.push(t);
            order.push(false);
        }
    }
    let steps = parse_steps(&step_tokens);
    let graph = OpGraph::build(&steps);
    // A file-backed database: the in-memory one lives in its single connection and would be lost
    // whenever sqlx closes and re-opens that connection after a query future was dropped.
    let path = std::env::temp_dir().join(format!(
        "h_c12_{}_{}.sqlite",
        std::process::id(),
        DB_SEQ.fetch_add(1, AtomicOrdering::SeqCst)
    ));
    let _ = std::fs::remove_file(&path);
    let url = format!("sqlite://{}", path.display());
    let sql = SqliteStoreBuilder::new()
        .database_url(&url)
        // one connection, as `SqliteStoreBuilder::memory()`: what the harness reads after a drop is
        // then serialised behind whatever the dropped future left in flight on that connection
        .min_connections(1)
        .max_connections(1)
        .build()
        .await
        .expect("database");
    let result = if mode == "buffer" {
        run_buffer(tokens[1].parse().expect("n"), tokens[2].parse().expect("gap"), &sql).await
    } else {
        run_on(mode, &steps, &attempts, &order, &graph, &sql).await
    };
    sql.pool().close().await;
    for ext in ["", "-wal", "-shm"] {
        let _ = std::fs::remove_file(format!("{}{}", path.display(), ext));
    }
    result
}

static DB_SEQ: AtomicUsize = AtomicUsize::new(0);

async fn run_on(mode: &str, steps: &[Step], attempts: &[String], order: &[bool], graph: &OpGraph, sql: &SqliteStore) -> String {
    {
        let log_id = Topic::random();
        let permit = sql.begin().await.unwrap();
        for op in graph.ops.values() {
            sql.insert_operation(&op.hash, op, &log_id).await.unwrap();
        }
        sql.commit(permit).await.unwrap();
    }
    match mode {
        "direct" => {
            let orderer: Orderer<Op, Hash, SqliteStore> = Orderer::new(sql.clone());
            run_with(steps, attempts, order, orderer, sql, graph, None).await
        }
        "wrap" => {
            let ctl = Rc::new(RefCell::new(Ctl::default()));
            let ws = WrapStore { inner: sql.clone(), ctl: ctl.clone() };
            let orderer: Orderer<Op, Hash, WrapStore> = Orderer::new(ws);
            run_with(steps, attempts, order, orderer, sql, graph, Some(ctl)).await
        }
        m => format!("ERR mode {m}"),
    }
}
