//! C12 (placeholder, filled in after C11).
pub async fn run(_tokens: &[&str]) -> String {
    "TODO".to_string()
}
