//! C11 / C12: drive the real causal orderer.
//!
//! `h_c11 c11`: payload `<mode> <op> <op> ...`
//!   mode `co`: the real `CausalOrderer<Hash, SqliteStore>` (cfg hook re-export) over an in-memory
//!              SqliteStore; node `i` is `Hash::digest("node<i>")`; any graph (cycles, the same
//!              node delivered with different dependency lists) can be expressed.
//!   mode `op`: the real `Orderer` processor over real signed `Operation<DepsExt>`s stored in the
//!              operation store (dependencies = hashes in the header extension).
//!   op `d<x>:<d1>,<d2>,...` deliver node x with that dependency list (repeats allowed),
//!      `n` one `next`, `D` drain (`next` until the queue is empty).
//!   result: one token per `n` (`<x>` or `-`) and per `D` (`[x,y,...]`), in order.
//!
//! `h_c11 c12`: see `c12.rs`.
mod c12;

use std::collections::HashMap;

use p2panda_core::{Body, Hash, Header, Operation, SigningKey, Topic};
use p2panda_store::operations::OperationStore;
use p2panda_store::orderer::OrdererTestExt;
use p2panda_store::{SqliteStore, Transaction};
use p2panda_stream::Processor;
use p2panda_stream::orderer::Orderer;
use p2panda_stream::orderer::verif_c11::{CausalOrderer, VerifDependencies};
use serde::{Deserialize, Serialize};

#[derive(Clone, Debug, Default, Serialize, Deserialize)]
pub struct DepsExt {
    pub dependencies: Vec<Hash>,
}

impl VerifDependencies for DepsExt {
    fn verif_dependencies(&self) -> &[Hash] {
        &self.dependencies
    }
}

pub type Op = Operation<DepsExt>;

#[derive(Clone, Debug)]
pub enum Step {
    Deliver(u64, Vec<u64>),
    Next,
    Drain,
}

pub fn parse_steps(tokens: &[&str]) -> Vec<Step> {
    tokens
        .iter()
        .map(|t| {
            if *t == "n" {
                Step::Next
            } else if *t == "D" {
                Step::Drain
            } else {
                let rest = t.strip_prefix('d').expect("op token");
                let (x, ds) = rest.split_once(':').expect("d<x>:<deps>");
                let deps = ds
                    .split(',')
                    .filter(|s| !s.is_empty())
                    .map(|s| s.parse::<u64>().expect("dep"))
                    .collect();
                Step::Deliver(x.parse::<u64>().expect("node"), deps)
            }
        })
        .collect()
}

pub fn node_hash(i: u64) -> Hash {
    Hash::digest(format!("node{i}").as_bytes())
}

/// Builds real signed operations for a consistent acyclic graph (dependencies of a node = those
/// of its first delivery; nodes only referenced get an operation without dependencies).
pub struct OpGraph {
    pub ops: HashMap<u64, Op>,
    pub index: HashMap<Hash, u64>,
}

impl OpGraph {
    pub fn build(steps: &[Step]) -> Self {
        let mut deps: HashMap<u64, Vec<u64>> = HashMap::new();
        for s in steps {
            if let Step::Deliver(x, ds) = s {
                deps.entry(*x).or_insert_with(|| ds.clone());
            }
        }
        let key = SigningKey::generate();
        let mut g = OpGraph {
            ops: HashMap::new(),
            index: HashMap::new(),
        };
        let nodes: Vec<u64> = deps.keys().copied().collect();
        for x in nodes {
            g.make(x, &deps, &key, 0);
        }
        g
    }

    fn make(&mut self, x: u64, deps: &HashMap<u64, Vec<u64>>, key: &SigningKey, depth: usize) -> Hash {
        if let Some(op) = self.ops.get(&x) {
            return op.hash;
        }
        assert!(depth < 10_000, "cyclic graph in op mode");
        let ds: Vec<u64> = deps.get(&x).cloned().unwrap_or_default();
        let dependencies: Vec<Hash> = ds.iter().map(|d| self.make(*d, deps, key, depth + 1)).collect();
        let body: Body = format!("node{x}").into_bytes().into();
        let mut header = Header {
            verifying_key: key.verifying_key(),
            payload_size: body.size(),
            payload_hash: Some(body.hash()),
            extensions: DepsExt { dependencies },
            ..Default::default()
        };
        header.sign(key);
        let op = Operation {
            hash: header.hash(),
            header,
            body: Some(body),
        };
        self.index.insert(op.hash, x);
        let h = op.hash;
        self.ops.insert(x, op);
        h
    }
}

async fn queue_len(store: &SqliteStore) -> usize {
    let permit = store.begin().await.unwrap();
    let n = store.ready_queue_len().await;
    store.commit(permit).await.unwrap();
    n
}

async fn run_co(steps: &[Step]) -> String {
    let store = SqliteStore::temporary().await;
    let orderer: CausalOrderer<Hash, SqliteStore> = CausalOrderer::new(store.clone());
    let mut index: HashMap<Hash, u64> = HashMap::new();
    let mut out: Vec<String> = Vec::new();
    for s in steps {
        match s {
            Step::Deliver(x, ds) => {
                let h = node_hash(*x);
                index.insert(h, *x);
                let deps: Vec<Hash> = ds.iter().map(|d| node_hash(*d)).collect();
                let permit = store.begin().await.unwrap();
                orderer.process(h, &deps).await.unwrap();
                store.commit(permit).await.unwrap();
            }
            Step::Next => {
                let permit = store.begin().await.unwrap();
                let r = orderer.next().await.unwrap();
                store.commit(permit).await.unwrap();
                out.push(match r {
                    Some(h) => index[&h].to_string(),
                    None => "-".to_string(),
                });
            }
            Step::Drain => {
                let mut batch: Vec<u64> = Vec::new();
                loop {
                    let permit = store.begin().await.unwrap();
                    let r = orderer.next().await.unwrap();
                    store.commit(permit).await.unwrap();
                    match r {
                        Some(h) => batch.push(index[&h]),
                        None => break,
                    }
                    assert!(batch.len() < 100_000, "drain does not end");
                }
                out.push(format!("[{}]", h_common::join(&batch, ",")));
            }
        }
    }
    out.join(" ")
}

async fn run_op(steps: &[Step]) -> String {
    let store = SqliteStore::temporary().await;
    let graph = OpGraph::build(steps);
    {
        let log_id = Topic::random();
        let permit = store.begin().await.unwrap();
        for op in graph.ops.values() {
            store.insert_operation(&op.hash, op, &log_id).await.unwrap();
        }
        store.commit(permit).await.unwrap();
    }
    let orderer: Orderer<Op, Hash, SqliteStore> = Orderer::new(store.clone());
    let mut out: Vec<String> = Vec::new();
    for s in steps {
        match s {
            Step::Deliver(x, _) => {
                if orderer.process(graph.ops[x].clone()).await.is_err() {
                    return "ERR process".to_string();
                }
            }
            Step::Next => {
                // `Orderer::next` never returns while the queue is empty (it waits to be
                // notified): an empty queue is observed directly.
                if queue_len(&store).await == 0 {
                    out.push("-".to_string());
                } else {
                    match orderer.next().await {
                        Ok(op) => out.push(graph.index[&op.hash].to_string()),
                        Err(_) => return "ERR next".to_string(),
                    }
                }
            }
            Step::Drain => {
                let mut batch: Vec<u64> = Vec::new();
                while queue_len(&store).await > 0 {
                    match orderer.next().await {
                        Ok(op) => batch.push(graph.index[&op.hash]),
                        Err(_) => return "ERR next".to_string(),
                    }
                    assert!(batch.len() < 100_000, "drain does not end");
                }
                out.push(format!("[{}]", h_common::join(&batch, ",")));
            }
        }
    }
    out.join(" ")
}

fn main() {
    let which = std::env::args().nth(1).unwrap_or_else(|| "c11".to_string());
    let rt = tokio::runtime::Builder::new_current_thread()
        .enable_all()
        .build()
        .unwrap();
    h_common::run_cases(|payload| {
        let tokens: Vec<&str> = payload.split_whitespace().collect();
        if which == "c12" {
            return rt.block_on(c12::run(&tokens));
        }
        let steps = parse_steps(&tokens[1..]);
        match tokens[0] {
            "co" => rt.block_on(run_co(&steps)),
            "op" => rt.block_on(run_op(&steps)),
            m => format!("ERR mode {m}"),
        }
    });
}
