//! C10: drive N transactions on a real `SqliteStore` under a schedule given label by label.
//!
//! Case payload:  `<mode> ; <prog0> ; <prog1> ; ... ; <labels>`
//!   mode   = `m` (in-memory, 1 connection) | `f` (temp-file database, 4 connections)
//!   prog   = `<fin> <k1> <k2> ...`, fin in c(ommit) r(ollback) d(rop permit) e(rror)
//!   labels = `S<i>` (task i executes its next instruction), `C<i>` (task i's future is dropped),
//!            `R<i>` (the detached rollback task spawned by task i's permit advances one step),
//!            `Q` (read the committed rows through the pool; file mode only),
//!            `H<i>` (the HELPER of task i — a second future sharing the store clone that issues
//!            statements of task i's transaction through `store.tx(..)` without holding the permit —
//!            advances: first `H` = lock the slot mutex and park INSIDE the critical section at the
//!            `tx_locked` schedule point, second `H` = execute the statement and unlock)
//!   a prog may end in `h <k1> <k2> ...`: the keys the helper of that task writes
//! Result: `<one token per label> | <rows in rowid order> | <P|T>` (see Oracle/C10.v for tokens).
//!
//! Every task is a hand-polled future (never spawned), so "cancel" is exactly a future drop, and
//! the order in which tasks advance is the scenario's label list. Commit/error programs run through
//! the real `tx!` macro. The detached rollback task is spawned by `TransactionPermit::drop` on the
//! runtime; it is steered through the cfg-gated schedule points in `p2panda-store/src/sqlite.rs`.
use std::cell::RefCell;
use std::future::Future;
use std::pin::Pin;
use std::rc::Rc;
use std::sync::Mutex;
use std::sync::atomic::{AtomicUsize, Ordering};
use std::task::{Context, Poll, Waker};
use std::time::{Duration, Instant};

use p2panda_core::cbor::decode_cbor;
use p2panda_core::{SigningKey, VerifyingKey};
use p2panda_store::sqlite::verif;
use p2panda_store::topics::TopicStore;
use p2panda_store::{SqliteError, SqliteStore, SqliteStoreBuilder, Transaction, tx};
use tokio::sync::oneshot;

const WAIT: Duration = Duration::from_secs(20);
const TOPIC: u64 = 7;

// ---------------------------------------------------------------------------------------------
// Process-wide hook controller (the callback is process-wide; cases run one after another).
// ---------------------------------------------------------------------------------------------

struct Event {
    name: &'static str,
    actor: Option<usize>,
    opener: Option<oneshot::Sender<()>>,
}

struct Ctl {
    free: bool,
    actor: Option<usize>,
    /// actors `>= helper_base` are helper futures; only they stop at `tx_locked`
    helper_base: usize,
    events: Vec<Event>,
}

static CTL: Mutex<Ctl> = Mutex::new(Ctl {
    free: true,
    actor: None,
    helper_base: usize::MAX,
    events: Vec::new(),
});

fn install_hook() {
    verif::install(Some(std::sync::Arc::new(|name, wait| {
        let mut c = CTL.lock().unwrap();
        let actor = c.actor;
        if name == "tx_locked" {
            // statements of the permit holder itself run through; a helper parks inside the
            // slot-mutex critical section
            match actor {
                Some(a) if !c.free && a >= c.helper_base => {}
                _ => return None,
            }
        }
        if !wait || c.free {
            c.events.push(Event { name, actor, opener: None });
            return None;
        }
        let (tx, rx) = oneshot::channel::<()>();
        c.events.push(Event { name, actor, opener: Some(tx) });
        Some(Box::pin(async move {
            let _ = rx.await;
        }) as Pin<Box<dyn Future<Output = ()> + Send>>)
    })));
}

fn set_actor(a: Option<usize>) {
    CTL.lock().unwrap().actor = a;
}

// ---------------------------------------------------------------------------------------------
// Task programs
// ---------------------------------------------------------------------------------------------

#[derive(Clone, Copy, PartialEq)]
enum Fin {
    Commit,
    Rollback,
    Drop,
    Error,
}

#[derive(Clone)]
struct Prog {
    fin: Fin,
    writes: Vec<u64>,
    helper: Vec<u64>,
}

#[derive(Default)]
struct GateSt {
    allowed: usize,
    parked: bool,
    notes: String,
}

type Shared = Rc<RefCell<Vec<GateSt>>>;

/// Harness-level gate in front of every instruction of a task.
struct HGate {
    sh: Shared,
    i: usize,
}

impl Future for HGate {
    type Output = ();
    fn poll(self: Pin<&mut Self>, _cx: &mut Context<'_>) -> Poll<()> {
        let mut v = self.sh.borrow_mut();
        let g = &mut v[self.i];
        if g.allowed > 0 {
            g.allowed -= 1;
            g.parked = false;
            Poll::Ready(())
        } else {
            g.parked = true;
            Poll::Pending
        }
    }
}

fn hgate(sh: &Shared, i: usize) -> HGate {
    HGate { sh: sh.clone(), i }
}

fn note(sh: &Shared, i: usize, s: &str) {
    sh.borrow_mut()[i].notes.push_str(s);
}

fn author() -> VerifyingKey {
    SigningKey::from_bytes(&[1u8; 32]).verifying_key()
}

async fn write(store: &SqliteStore, sh: &Shared, i: usize, k: u64) -> Result<(), SqliteError> {
    let inserted =
        <SqliteStore as TopicStore<u64, VerifyingKey, u64>>::associate(store, &TOPIC, &author(), &k)
            .await?;
    note(sh, i, if inserted { "I" } else { "i" });
    Ok(())
}

/// A statement that fails inside the transaction (NOT NULL constraint).
async fn failing_statement(store: &SqliteStore) -> Result<(), SqliteError> {
    store
        .tx(async |tx| {
            sqlx::query("INSERT INTO topics_v1 (topic, author, data_id) VALUES (NULL, NULL, NULL)")
                .execute(&mut **tx)
                .await
                .map_err(SqliteError::Sqlite)?;
            Ok(())
        })
        .await
}

/// The helper of a task: issues statements of the task's transaction through the same store
/// (the real `associate`, i.e. `store.tx(..)`), never holds the permit. `gi` = its gate index.
async fn helper(store: SqliteStore, keys: Vec<u64>, sh: Shared, gi: usize) -> Result<(), SqliteError> {
    for k in keys {
        hgate(&sh, gi).await;
        match write(&store, &sh, gi, k).await {
            Ok(()) => {}
            Err(SqliteError::TransactionMissing) => note(&sh, gi, "M"),
            Err(_) => note(&sh, gi, "X"),
        }
    }
    Ok(())
}

async fn task(store: SqliteStore, prog: Prog, sh: Shared, i: usize) -> Result<(), SqliteError> {
    hgate(&sh, i).await;
    match prog.fin {
        Fin::Commit | Fin::Error => {
            // The real macro: begin, body, commit; `?` inside the body drops the permit.
            tx!(store, {
                note(&sh, i, "B");
                for k in &prog.writes {
                    hgate(&sh, i).await;
                    write(&store, &sh, i, *k).await?;
                }
                hgate(&sh, i).await;
                if prog.fin == Fin::Error {
                    let r = failing_statement(&store).await;
                    if r.is_err() {
                        note(&sh, i, "E");
                    }
                    r?;
                }
            });
            note(&sh, i, "K");
            Ok(())
        }
        Fin::Rollback => {
            let permit = store.begin().await?;
            note(&sh, i, "B");
            for k in &prog.writes {
                hgate(&sh, i).await;
                write(&store, &sh, i, *k).await?;
            }
            hgate(&sh, i).await;
            store.rollback(permit).await?;
            note(&sh, i, "R");
            Ok(())
        }
        Fin::Drop => {
            let permit = store.begin().await?;
            note(&sh, i, "B");
            for k in &prog.writes {
                hgate(&sh, i).await;
                write(&store, &sh, i, *k).await?;
            }
            hgate(&sh, i).await;
            drop(permit);
            note(&sh, i, "D");
            Ok(())
        }
    }
}

// ---------------------------------------------------------------------------------------------
// Driver
// ---------------------------------------------------------------------------------------------

enum St {
    Init,
    Waiting,
    AtGate(oneshot::Sender<()>),
    Between,
    Done,
}

enum HSt {
    Idle,
    Pending,
    Locked(oneshot::Sender<()>),
}

enum Rb {
    Spawned,
    AtStart(oneshot::Sender<()>),
    Running,
    AtRelease(oneshot::Sender<()>),
    Releasing,
    Done,
}

type TaskFut = Pin<Box<dyn Future<Output = Result<(), SqliteError>>>>;

struct Driver {
    sh: Shared,
    futs: Vec<Option<TaskFut>>,
    st: Vec<St>,
    finished: Vec<Option<bool>>, // Some(ok?) once the future returned
    rbs: Vec<(usize, Rb)>,       // (spawner, state) in spawn order
    hfuts: Vec<Option<TaskFut>>, // helper of task i
    hst: Vec<HSt>,
    anomalies: Vec<String>,
}

impl Driver {
    fn absorb(&mut self) {
        let evs: Vec<Event> = std::mem::take(&mut CTL.lock().unwrap().events);
        for e in evs {
            match e.name {
                "begin_acquired" | "commit_taken" | "rollback_taken" => match (e.actor, e.opener) {
                    (Some(i), Some(op)) if i < self.st.len() => self.st[i] = St::AtGate(op),
                    (_, None) => {} // free-running phase (setup, drain, probe)
                    _ => self.anomalies.push(format!("{}?", e.name)),
                },
                "tx_locked" => {
                    let n = self.st.len();
                    match (e.actor, e.opener) {
                        (Some(a), Some(op)) if a >= n && a < 2 * n => self.hst[a - n] = HSt::Locked(op),
                        (_, None) => {}
                        _ => self.anomalies.push("tx_locked?".into()),
                    }
                }
                "rollback_task_spawn" => match e.actor {
                    Some(i) => self.rbs.push((i, Rb::Spawned)),
                    None => self.anomalies.push("spawn?".into()),
                },
                "rollback_task_start" => {
                    let slot = self.rbs.iter_mut().find(|(_, r)| matches!(r, Rb::Spawned));
                    match (slot, e.opener) {
                        (Some((_, r)), Some(op)) => *r = Rb::AtStart(op),
                        (Some((_, r)), None) => *r = Rb::Running,
                        _ => self.anomalies.push("start?".into()),
                    }
                }
                "rollback_task_before_release" => {
                    let slot = self.rbs.iter_mut().find(|(_, r)| matches!(r, Rb::Running));
                    match (slot, e.opener) {
                        (Some((_, r)), Some(op)) => *r = Rb::AtRelease(op),
                        (Some((_, r)), None) => *r = Rb::Releasing,
                        _ => self.anomalies.push("before_release?".into()),
                    }
                }
                "rollback_task_done" => {
                    match self.rbs.iter_mut().find(|(_, r)| matches!(r, Rb::Releasing)) {
                        Some((_, r)) => *r = Rb::Done,
                        None => self.anomalies.push("done?".into()),
                    }
                }
                other => self.anomalies.push(format!("event {}?", other)),
            }
        }
    }

    fn poll(&mut self, i: usize) {
        if let Some(f) = self.futs[i].as_mut() {
            let mut cx = Context::from_waker(Waker::noop());
            set_actor(Some(i));
            let r = f.as_mut().poll(&mut cx);
            set_actor(None);
            if let Poll::Ready(res) = r {
                set_actor(Some(i));
                self.futs[i] = None;
                set_actor(None);
                self.finished[i] = Some(res.is_ok());
                self.st[i] = St::Done;
            }
        }
        self.absorb();
    }

    fn parked(&self, i: usize) -> bool {
        self.sh.borrow()[i].parked
    }

    fn take_notes(&self, i: usize) -> String {
        std::mem::take(&mut self.sh.borrow_mut()[i].notes)
    }

    /// Poll task `i` (yielding to the runtime in between) until it is parked at its next
    /// instruction gate, stopped at a store schedule point, or finished. False on timeout.
    async fn settle(&mut self, i: usize) -> bool {
        let t0 = Instant::now();
        let mut n = 0u32;
        loop {
            self.poll(i);
            if self.futs[i].is_none() || self.parked(i) || matches!(self.st[i], St::AtGate(_)) {
                return true;
            }
            if t0.elapsed() > WAIT {
                return false;
            }
            pause(&mut n).await;
        }
    }

    async fn step(&mut self, i: usize) -> String {
        let mut tok = String::new();
        match std::mem::replace(&mut self.st[i], St::Done) {
            St::Done => return "-".into(),
            St::Init => {
                self.st[i] = St::Waiting;
                self.sh.borrow_mut()[i].allowed += 1;
                self.poll(i);
                match self.st[i] {
                    St::AtGate(_) => tok.push('G'),
                    St::Waiting => tok.push('W'),
                    _ => tok.push('?'),
                }
            }
            St::Waiting => {
                self.st[i] = St::Waiting;
                self.poll(i);
                if let St::AtGate(_) = self.st[i] {
                    let St::AtGate(op) = std::mem::replace(&mut self.st[i], St::Between) else { unreachable!() };
                    let _ = op.send(());
                    if !self.settle(i).await {
                        tok.push('T');
                    }
                } else {
                    tok.push('w');
                }
            }
            St::AtGate(op) => {
                self.st[i] = St::Between;
                let _ = op.send(());
                if !self.settle(i).await {
                    tok.push('T');
                }
            }
            St::Between => {
                self.st[i] = St::Between;
                {
                    let mut v = self.sh.borrow_mut();
                    v[i].allowed += 1;
                    v[i].parked = false;
                }
                if !self.settle(i).await {
                    tok.push('T');
                }
                if let St::AtGate(_) = self.st[i] {
                    tok.push('t');
                }
            }
        }
        let notes = self.take_notes(i);
        let mut out = notes;
        out.push_str(&tok);
        if self.finished[i] == Some(false) && !out.contains('E') {
            out.push_str("!err");
        }
        if out.is_empty() {
            out.push('?');
        }
        out
    }

    fn poll_h(&mut self, i: usize) {
        let n = self.st.len();
        if let Some(f) = self.hfuts[i].as_mut() {
            let mut cx = Context::from_waker(Waker::noop());
            set_actor(Some(n + i));
            let r = f.as_mut().poll(&mut cx);
            if r.is_ready() {
                self.hfuts[i] = None;
            }
            set_actor(None);
        }
        self.absorb();
    }

    /// One helper step: `L` = took the slot mutex and is parked inside the critical section;
    /// `h<notes>` = executed the statement (`I` inserted / `M` TransactionMissing) and unlocked;
    /// `l` = still waiting for the slot mutex; `-` = nothing to do.
    async fn hstep(&mut self, i: usize) -> String {
        let n = self.st.len();
        if self.hfuts[i].is_none() {
            return "-".into();
        }
        match std::mem::replace(&mut self.hst[i], HSt::Pending) {
            st @ (HSt::Idle | HSt::Pending) => {
                if matches!(st, HSt::Idle) {
                    let mut v = self.sh.borrow_mut();
                    v[n + i].allowed += 1;
                    v[n + i].parked = false;
                }
                self.poll_h(i);
                // the lock is taken synchronously when the mutex is free; give a contended one a
                // few rounds
                let mut k = 0u32;
                while !matches!(self.hst[i], HSt::Locked(_)) && self.hfuts[i].is_some() && k < 8 {
                    pause(&mut k).await;
                    self.poll_h(i);
                }
                if matches!(self.hst[i], HSt::Locked(_)) { "L".into() } else { "l".into() }
            }
            HSt::Locked(op) => {
                self.hst[i] = HSt::Idle;
                let _ = op.send(());
                let t0 = Instant::now();
                let mut k = 0u32;
                let mut ok = true;
                loop {
                    self.poll_h(i);
                    if self.hfuts[i].is_none() || self.sh.borrow()[n + i].parked {
                        break;
                    }
                    if t0.elapsed() > WAIT {
                        ok = false;
                        break;
                    }
                    pause(&mut k).await;
                }
                let notes = self.take_notes(n + i);
                format!("h{}{}", notes, if ok { "" } else { "T" })
            }
        }
    }

    fn cancel_h(&mut self, i: usize) {
        let n = self.st.len();
        set_actor(Some(n + i));
        self.hfuts[i] = None;
        set_actor(None);
        self.hst[i] = HSt::Idle;
        self.absorb();
    }

    fn cancel(&mut self, i: usize) -> String {
        if self.futs[i].is_some() {
            set_actor(Some(i));
            self.futs[i] = None;
            set_actor(None);
            self.st[i] = St::Done;
            self.absorb();
            "c".into()
        } else {
            "-".into()
        }
    }

    async fn wait_rb<F: Fn(&Rb) -> bool>(&mut self, idx: usize, f: F) -> bool {
        let t0 = Instant::now();
        let mut n = 0u32;
        loop {
            self.absorb();
            if f(&self.rbs[idx].1) {
                return true;
            }
            if t0.elapsed() > WAIT {
                return false;
            }
            pause(&mut n).await;
        }
    }

    async fn rb_step(&mut self, i: usize) -> String {
        self.absorb();
        let Some(idx) = self.rbs.iter().position(|(s, r)| *s == i && !matches!(r, Rb::Done)) else {
            return "-".into();
        };
        if matches!(self.rbs[idx].1, Rb::Spawned) && !self.wait_rb(idx, |r| matches!(r, Rb::AtStart(_))).await {
            return "T".into();
        }
        match std::mem::replace(&mut self.rbs[idx].1, Rb::Running) {
            Rb::AtStart(op) => {
                let _ = op.send(());
                if self.wait_rb(idx, |r| matches!(r, Rb::AtRelease(_))).await { "s".into() } else { "T".into() }
            }
            Rb::AtRelease(op) => {
                self.rbs[idx].1 = Rb::Releasing;
                let _ = op.send(());
                if self.wait_rb(idx, |r| matches!(r, Rb::Done)).await { "r".into() } else { "T".into() }
            }
            other => {
                self.rbs[idx].1 = other;
                "?".into()
            }
        }
    }
}

async fn pause(n: &mut u32) {
    *n += 1;
    if *n < 20 {
        tokio::task::yield_now().await;
    } else {
        tokio::time::sleep(Duration::from_micros(200)).await;
    }
}

async fn rows(store: &SqliteStore) -> Result<Vec<u64>, String> {
    let r: Vec<(Vec<u8>,)> = sqlx::query_as("SELECT data_id FROM topics_v1 ORDER BY rowid")
        .fetch_all(store.pool())
        .await
        .map_err(|e| format!("{e:?}"))?;
    r.into_iter()
        .map(|(b,)| decode_cbor::<u64, _>(&b[..]).map_err(|e| format!("{e:?}")))
        .collect()
}

static FILE_CTR: AtomicUsize = AtomicUsize::new(0);

async fn run_case(mode: &str, progs: Vec<Prog>, labels: Vec<String>) -> String {
    let mut path = None;
    let store = if mode == "f" {
        let p = std::env::temp_dir().join(format!(
            "h_c10_{}_{}.sqlite",
            std::process::id(),
            FILE_CTR.fetch_add(1, Ordering::SeqCst)
        ));
        let _ = std::fs::remove_file(&p);
        let url = format!("sqlite://{}", p.display());
        path = Some(p);
        SqliteStoreBuilder::new()
            .database_url(&url)
            .min_connections(1)
            .max_connections(4)
            .build()
            .await
            .expect("file store")
    } else {
        SqliteStoreBuilder::memory().build().await.expect("memory store")
    };

    {
        let mut c = CTL.lock().unwrap();
        c.free = false;
        c.actor = None;
        c.helper_base = progs.len();
        c.events.clear();
    }

    let n = progs.len();
    // gates 0..n: tasks, n..2n: helpers
    let sh: Shared = Rc::new(RefCell::new((0..2 * n).map(|_| GateSt::default()).collect()));
    let mut d = Driver {
        sh: sh.clone(),
        futs: Vec::new(),
        st: (0..n).map(|_| St::Init).collect(),
        finished: vec![None; n],
        rbs: Vec::new(),
        hfuts: Vec::new(),
        hst: (0..n).map(|_| HSt::Idle).collect(),
        anomalies: Vec::new(),
    };
    for (i, p) in progs.iter().enumerate() {
        let f = tokio::task::unconstrained(task(store.clone(), p.clone(), sh.clone(), i));
        d.futs.push(Some(Box::pin(f)));
        if p.helper.is_empty() {
            d.hfuts.push(None);
        } else {
            let h = tokio::task::unconstrained(helper(store.clone(), p.helper.clone(), sh.clone(), n + i));
            d.hfuts.push(Some(Box::pin(h)));
        }
    }

    let mut toks: Vec<String> = Vec::new();
    for l in &labels {
        let (k, idx) = l.split_at(1);
        let i: usize = idx.parse().unwrap_or(0);
        let t = match k {
            "S" if i < n => d.step(i).await,
            "C" if i < n => d.cancel(i),
            "R" if i < n => d.rb_step(i).await,
            "H" if i < n => d.hstep(i).await,
            "Q" => match rows(&store).await {
                Ok(v) => format!("q{}", h_common::join(&v, ",")),
                Err(e) => format!("q!{}", e.replace(' ', "_")),
            },
            _ => "?".into(),
        };
        toks.push(t);
    }

    // Drain: cancel everything still running, let every detached rollback task finish.
    for i in 0..n {
        d.cancel(i);
    }
    // a helper parked inside the critical section is dropped (its guard unlocks the slot mutex)
    for i in 0..n {
        d.cancel_h(i);
    }
    CTL.lock().unwrap().free = true;
    d.absorb();
    for (_, r) in d.rbs.iter_mut() {
        match std::mem::replace(r, Rb::Done) {
            Rb::Spawned => *r = Rb::Spawned,
            Rb::AtStart(op) => {
                let _ = op.send(());
                *r = Rb::Running
            }
            Rb::Running => *r = Rb::Running,
            Rb::AtRelease(op) => {
                let _ = op.send(());
                *r = Rb::Releasing
            }
            Rb::Releasing => *r = Rb::Releasing,
            Rb::Done => {}
        }
    }
    let t0 = Instant::now();
    let mut k = 0u32;
    let mut drained = true;
    loop {
        d.absorb();
        if d.rbs.iter().all(|(_, r)| matches!(r, Rb::Done)) {
            break;
        }
        if t0.elapsed() > WAIT {
            drained = false;
            break;
        }
        pause(&mut k).await;
    }

    // Probe: a later transaction can still start and commit.
    let probe = if !drained {
        "T"
    } else {
        match tokio::time::timeout(WAIT, store.begin()).await {
            Ok(Ok(permit)) => match tokio::time::timeout(WAIT, store.commit(permit)).await {
                Ok(Ok(())) => "P",
                _ => "T",
            },
            _ => "T",
        }
    };
    let final_rows = match rows(&store).await {
        Ok(v) => h_common::join(&v, ","),
        Err(e) => format!("!{}", e.replace(' ', "_")),
    };
    d.absorb();
    let mut out = format!("{} | {} | {}", toks.join(" "), final_rows, probe);
    if !d.anomalies.is_empty() {
        out.push_str(&format!(" ANOMALY {}", d.anomalies.join(",")));
    }
    drop(d);
    store.pool().close().await;
    if let Some(p) = path {
        for suf in ["", "-wal", "-shm", "-journal"] {
            let _ = std::fs::remove_file(format!("{}{}", p.display(), suf));
        }
    }
    out
}

fn main() {
    install_hook();
    h_common::run_cases(|payload| {
        let parts: Vec<&str> = payload.split(';').map(|s| s.trim()).collect();
        let mode = parts[0].to_string();
        let mut progs = Vec::new();
        for p in &parts[1..parts.len() - 1] {
            let t: Vec<&str> = p.split_whitespace().collect();
            let fin = match t[0] {
                "c" => Fin::Commit,
                "r" => Fin::Rollback,
                "d" => Fin::Drop,
                "e" => Fin::Error,
                other => panic!("bad fin {other}"),
            };
            let hpos = t.iter().position(|x| *x == "h").unwrap_or(t.len());
            progs.push(Prog {
                fin,
                writes: t[1..hpos].iter().map(|x| x.parse().expect("key")).collect(),
                helper: t[(hpos + 1).min(t.len())..].iter().map(|x| x.parse().expect("hkey")).collect(),
            });
        }
        let labels: Vec<String> = parts[parts.len() - 1].split_whitespace().map(|s| s.to_string()).collect();
        CTL.lock().unwrap().free = true;
        let rt = tokio::runtime::Builder::new_current_thread().enable_all().build().expect("runtime");
        let out = rt.block_on(run_case(&mode, progs, labels));
        drop(rt);
        out
    });
}
