//! C04: drive a real `p2panda` Node (real pipeline thread, real SQLite store) through its entry
//! points and dump every log of every author after every step.
//!
//! One Node per process; every case uses two fresh random topics and fresh external author keys,
//! so cases do not see each other's logs (logs are keyed by author and topic-derived log id; the
//! node's own logs are per topic).
//!
//! Case payload: `<authors>|<op>;<op>;...|<step> <step> ...`
//!   author 0 is the node itself, 1.. are external authors (fresh keys)
//!   op = `a,t,seq,bl,p,b,c[,src]`: claimed author, topic the extensions are built from, seq,
//!        backlink (`n` | `o<j>` header hash of op j | `b<k>` bogus), prune flag as found in the
//!        header, has body, corruption:
//!          forged (the header is not what the claimed author signed):
//!            1 signed by an unrelated key, 2 prune flag flipped after signing, 5 signature removed
//!          authentic (signed by the claimed author's key) but rejected by `validate_operation`:
//!            3 delivered with a body the header does not commit to (other bytes, other length)
//!            4 header version 2
//!            6 header claims no payload (size 0, no hash) but a body is attached
//!            7 header carries a payload hash with payload size 0 (no body attached)
//!            8 delivered with other body bytes of the *same* length (size matches, hash does not)
//!            9 header commits to the right payload hash but a size off by one
//!          0 none -- such an operation can still be rejected by the log-integrity rules (fork:
//!            sequence number at or below the latest stored entry, wrong backlink) or by
//!            `validate_header` (seq > 0 without backlink, seq 0 with backlink)
//!        src (optional): index of an earlier op whose signed *header* is reused unchanged
//!            (a, t, seq, bl, p are then those of the source); b = deliver it with the body the
//!            header commits to (1) or without body (0); c = 0, or 3 (a different body attached)
//!   step = `i<t>:<j>` import op j through the stream of topic t
//!        | `p<t>:<prune>:<body>` publish (prune=1: `StreamPublisher::prune`) on topic t
//!        | `r<t>` drop the stream of topic t and re-open it with `StreamFrom::Start` (replay)
//!
//! Result: `V=<validate_operation bit per op> ; <step> ; ...`, step = `ok|fail/<logs>` in the dump
//! format of harness/ingest (`a.l=seq:id:hh:bl:p:b,...^height`), l = topic index. Hash numbers:
//! header hash of op j = j+1, k-th published operation = 501+k, bogus k = 900+k, else 999.
use std::collections::HashMap;
use std::time::Duration;

use futures_util::StreamExt;
use p2panda::node::Node;
use p2panda::operation::{Extensions, Header, LogId, Operation};
use p2panda::streams::{StreamEvent, StreamFrom, StreamPublisher, StreamSubscription};
use p2panda_core::cbor::encode_cbor;
use p2panda_core::{Body, Hash, SeqNum, SigningKey, Topic, VerifyingKey, validate_operation};
use p2panda_store::logs::LogStore;
use tokio::sync::mpsc;

#[derive(Debug)]
enum Ev {
    ImportEnded(u64),
    Failed,
    Other,
}

struct Stream {
    tx: StreamPublisher<String>,
    events: mpsc::UnboundedReceiver<Ev>,
}

fn bogus(k: u64) -> Hash {
    Hash::digest(format!("bogus{k}").as_bytes())
}

fn spawn_drain(mut rx: StreamSubscription<String>) -> mpsc::UnboundedReceiver<Ev> {
    let (etx, erx) = mpsc::unbounded_channel();
    tokio::spawn(async move {
        while let Some(ev) = rx.next().await {
            let e = match ev {
                StreamEvent::ImportEnded { session_id } => Ev::ImportEnded(session_id),
                StreamEvent::ProcessingFailed { .. } => Ev::Failed,
                _ => Ev::Other,
            };
            if etx.send(e).is_err() {
                break;
            }
        }
    });
    erx
}

async fn open(node: &Node, topic: Topic, from: StreamFrom) -> Stream {
    // Under heavy machine load the first request to a freshly spawned node can fail
    // ("channel is closed"); opening a stream has no effect on the store, so it is retried.
    let mut attempt = 0;
    loop {
        match node.stream_from::<String>(topic, from.clone()).await {
            Ok((tx, rx)) => return Stream { tx, events: spawn_drain(rx) },
            Err(err) => {
                attempt += 1;
                if attempt >= 20 {
                    panic!("stream: {err}");
                }
                tokio::time::sleep(Duration::from_millis(250)).await;
            }
        }
    }
}

/// Import a batch of operations through a stream; returns whether any of them failed processing.
async fn import(s: &mut Stream, ops: Vec<Operation>) -> bool {
    let fut = s.tx.import(futures_util::stream::iter(ops)).await.expect("import");
    let sid = fut.session_id();
    let mut failed = false;
    loop {
        let ev = tokio::time::timeout(Duration::from_secs(600), s.events.recv())
            .await
            .expect("import did not finish")
            .expect("event stream closed");
        match ev {
            Ev::ImportEnded(id) if id == sid => break,
            Ev::Failed => failed = true,
            _ => {}
        }
    }
    let _ = fut.await;
    failed
}

/// Body the header of op `idx` commits to (a CBOR string, so that accepted operations decode).
fn true_body(idx: usize) -> Body {
    Body::new(&encode_cbor(&format!("message {idx}")).unwrap())
}

fn build(idx: usize, def: &str, keys: &[SigningKey], topics: &[Topic], built: &[Operation]) -> Operation {
    let f: Vec<&str> = def.split(',').collect();
    assert!(f.len() == 7 || f.len() == 8, "op definition needs 7 or 8 fields");
    if f.len() == 8 {
        // The signed header of an earlier operation, unchanged, with or without (or with another) body.
        let src: usize = f[7].parse().unwrap();
        let header = built[src].header.clone();
        let body = match (f[5], f[6]) {
            (_, "3") => Some(Body::new(&encode_cbor(&format!("another body {idx}")).unwrap())),
            // python resolves chains of copies: src is always an op built from scratch
            ("1", "0") => header.payload_hash.map(|_| true_body(src)),
            ("0", "0") => None,
            _ => panic!("src copy: c must be 0 or 3"),
        };
        return Operation { hash: header.hash(), header, body };
    }
    let a: usize = f[0].parse().unwrap();
    let t: usize = f[1].parse().unwrap();
    let seq: SeqNum = f[2].parse().unwrap();
    let backlink = match &f[3][..1] {
        "n" => None,
        "o" => Some(built[f[3][1..].parse::<usize>().unwrap()].header.hash()),
        "b" => Some(bogus(f[3][1..].parse().unwrap())),
        _ => panic!("backlink spec"),
    };
    let prune = f[4] == "1";
    let has_body = f[5] == "1";
    let c: u32 = f[6].parse().unwrap();
    assert!(matches!(c, 0 | 1 | 2 | 3 | 4 | 5 | 6 | 7 | 8 | 9), "unknown corruption {c}");
    // What the header commits to.
    let committed = if (has_body && c != 6) || matches!(c, 3 | 7 | 8 | 9) {
        Some(true_body(idx))
    } else {
        None
    };
    let signed_flag = if c == 2 { !prune } else { prune };
    let mut header = Header {
        version: if c == 4 { 2 } else { 1 },
        verifying_key: keys[a].verifying_key(),
        signature: None,
        payload_size: match c {
            7 => 0,
            9 => committed.as_ref().unwrap().size() + 1,
            _ => committed.as_ref().map(|b| b.size()).unwrap_or(0),
        },
        payload_hash: committed.as_ref().map(|b| b.hash()),
        seq_num: seq,
        backlink,
        extensions: Extensions::from_topic(topics[t]).set_prune_flag(signed_flag),
    };
    match c {
        1 => header.sign(&SigningKey::generate()),
        _ => header.sign(&keys[a]),
    }
    match c {
        2 => header.extensions = header.extensions.clone().set_prune_flag(prune),
        5 => header.signature = None,
        _ => {}
    }
    // What is delivered next to the header.
    let body = match c {
        3 => Some(Body::new(&encode_cbor(&format!("another body {idx}")).unwrap())),
        6 => Some(true_body(idx)),
        7 => None,
        8 => {
            // same length as the committed body, other bytes ("message" -> "massage")
            let b = Body::new(&encode_cbor(&format!("massage {idx}")).unwrap());
            assert!(b.size() == committed.as_ref().unwrap().size());
            Some(b)
        }
        9 => committed.clone(),
        _ => if has_body { committed.clone() } else { None },
    };
    Operation { hash: header.hash(), header, body }
}

async fn dump(node: &Node, keys: &[SigningKey], topics: &[Topic], names: &HashMap<Hash, u64>) -> String {
    let store = node.store();
    let name = |h: &Hash| names.get(h).copied().unwrap_or(999);
    let logs: Vec<LogId> = topics.iter().map(|t| LogId::from_topic(*t)).collect();
    let mut out: Vec<String> = Vec::new();
    for (a, k) in keys.iter().enumerate() {
        let vk: VerifyingKey = k.verifying_key();
        let heights = <_ as LogStore<Operation, VerifyingKey, LogId, SeqNum, Hash>>::get_log_heights(&store, &vk, &logs)
            .await
            .expect("get_log_heights");
        for (l, log_id) in logs.iter().enumerate() {
            let entries: Vec<(Operation, Vec<u8>)> = store
                .get_log_entries(&vk, log_id, None, None)
                .await
                .expect("get_log_entries")
                .unwrap_or_default();
            let h = heights.as_ref().and_then(|m| m.get(log_id).copied());
            if entries.is_empty() && h.is_none() {
                continue;
            }
            let es: Vec<String> = entries
                .iter()
                .map(|(op, _)| {
                    format!(
                        "{}:{}:{}:{}:{}:{}",
                        op.header.seq_num,
                        name(&op.hash),
                        name(&op.header.hash()),
                        op.header.backlink.as_ref().map(|b| name(b).to_string()).unwrap_or("-".into()),
                        op.header.extensions.prune_flag().is_set() as u8,
                        op.body.is_some() as u8
                    )
                })
                .collect();
            out.push(format!("{}.{}={}^{}", a, l, es.join(","), h.map(|x| x.to_string()).unwrap_or("-".into())));
        }
    }
    out.join("+")
}

async fn run_case(node: &Node, node_key: &SigningKey, payload: &str) -> String {
    let parts: Vec<&str> = payload.split('|').collect();
    assert!(parts.len() == 3, "payload needs 3 parts");
    let na: usize = parts[0].trim().parse().unwrap();
    let mut keys: Vec<SigningKey> = vec![node_key.clone()];
    for _ in 1..na.max(1) {
        keys.push(SigningKey::generate());
    }
    let topics = vec![Topic::random(), Topic::random()];
    let mut built: Vec<Operation> = Vec::new();
    for (i, d) in parts[1].split(';').filter(|s| !s.trim().is_empty()).enumerate() {
        let op = build(i, d.trim(), &keys, &topics, &built);
        built.push(op);
    }
    let mut names: HashMap<Hash, u64> = HashMap::new();
    for k in 0..16 {
        names.insert(bogus(k), 900 + k);
    }
    for (i, op) in built.iter().enumerate() {
        names.entry(op.header.hash()).or_insert(i as u64 + 1);
    }
    let valid: String = built.iter().map(|op| if validate_operation(op).is_ok() { '1' } else { '0' }).collect();

    let mut streams: Vec<Option<Stream>> = Vec::new();
    for t in &topics {
        streams.push(Some(open(node, *t, StreamFrom::Frontier).await));
    }
    let mut published = 0u64;
    let mut out: Vec<String> = vec![format!("V={valid}")];
    for step in parts[2].split_whitespace() {
        let kind = &step[..1];
        let args: Vec<&str> = step[1..].split(':').collect();
        let t: usize = args[0].parse().unwrap();
        let ok = match kind {
            "i" => {
                let j: usize = args[1].parse().unwrap();
                let failed = import(streams[t].as_mut().unwrap(), vec![built[j].clone()]).await;
                !failed
            }
            "p" => {
                let prune = args[1] == "1";
                let body = args[2] == "1";
                let s = streams[t].as_mut().unwrap();
                let fut = if prune {
                    s.tx.prune(if body { Some(format!("snapshot {published}")) } else { None }).await
                } else {
                    s.tx.publish(format!("message {published}")).await
                }
                .expect("publish");
                names.insert(fut.hash(), 501 + published);
                published += 1;
                let event = tokio::time::timeout(Duration::from_secs(600), fut)
                    .await
                    .expect("publish did not finish")
                    .expect("publish result");
                !event.is_failed()
            }
            "r" => {
                streams[t] = None;
                let mut s = open(node, topics[t], StreamFrom::Start).await;
                // The replay runs before anything else on the new stream; an empty import is
                // answered only after it has finished.
                let failed = import(&mut s, vec![]).await;
                streams[t] = Some(s);
                !failed
            }
            _ => panic!("unknown step"),
        };
        let d = dump(node, &keys, &topics, &names).await;
        out.push(format!("{}/{}", if ok { "ok" } else { "fail" }, d));
    }
    out.join(" ; ")
}

fn main() {
    let rt = tokio::runtime::Builder::new_multi_thread()
        .worker_threads(2)
        .enable_all()
        .build()
        .unwrap();
    let node_key = SigningKey::generate();
    let node = rt.block_on(async {
        p2panda::builder()
            .signing_key(node_key.clone())
            .spawn()
            .await
            .expect("node")
    });
    h_common::run_cases(|payload| rt.block_on(run_case(&node, &node_key, payload)));
}
