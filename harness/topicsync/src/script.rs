//! Scripted stream and fault-injecting sink shared by the protocol harnesses.
use std::collections::VecDeque;
use std::pin::Pin;
use std::task::{Context, Poll};

use futures_util::{Sink, Stream};

/// What the stream does once its scripted items are used up.
#[derive(Clone, Copy, PartialEq, Debug)]
pub enum End {
    /// `Ready(None)`: the remote closed the stream.
    Close,
    /// `Pending` forever: the remote stays silent.
    Silent,
}

pub struct ScriptStream<M> {
    pub items: VecDeque<Result<M, String>>,
    pub end: End,
    /// Items handed out so far.
    pub taken: usize,
    /// `poll_next` calls that returned `Ready(None)`.
    pub none_polls: usize,
}

impl<M> ScriptStream<M> {
    pub fn new(items: Vec<Result<M, String>>, end: End) -> Self {
        Self { items: items.into(), end, taken: 0, none_polls: 0 }
    }
}

impl<M: Unpin> Stream for ScriptStream<M> {
    type Item = Result<M, String>;

    fn poll_next(mut self: Pin<&mut Self>, _cx: &mut Context<'_>) -> Poll<Option<Self::Item>> {
        match self.items.pop_front() {
            Some(item) => {
                self.taken += 1;
                Poll::Ready(Some(item))
            }
            None => match self.end {
                End::Close => {
                    self.none_polls += 1;
                    Poll::Ready(None)
                }
                End::Silent => Poll::Pending,
            },
        }
    }
}

/// Sink that records what it accepted.  Sink operations (`start_send`, `poll_flush`,
/// `poll_close`) are numbered from 0 in call order; operation number `fail_at` fails, and so
/// does every later one (a broken connection stays broken) when `sticky` is set.
pub struct ScriptSink<M> {
    pub sent: Vec<M>,
    pub ops: usize,
    pub fail_at: Option<usize>,
    pub sticky: bool,
    pub closed: bool,
    pub close_calls: usize,
    /// `poll_close` fails (independently of `fail_at`).
    pub fail_close: bool,
}

impl<M> ScriptSink<M> {
    pub fn new(fail_at: Option<usize>) -> Self {
        Self { sent: Vec::new(), ops: 0, fail_at, sticky: false, closed: false, close_calls: 0, fail_close: false }
    }

    fn op(&mut self) -> Result<(), String> {
        let n = self.ops;
        self.ops += 1;
        match self.fail_at {
            Some(k) if n == k || (self.sticky && n > k) => Err(format!("sink op {n} failed")),
            _ => Ok(()),
        }
    }
}

impl<M: Unpin> Sink<M> for ScriptSink<M> {
    type Error = String;

    fn poll_ready(self: Pin<&mut Self>, _cx: &mut Context<'_>) -> Poll<Result<(), String>> {
        Poll::Ready(Ok(()))
    }

    fn start_send(mut self: Pin<&mut Self>, item: M) -> Result<(), String> {
        self.op()?;
        self.sent.push(item);
        Ok(())
    }

    fn poll_flush(mut self: Pin<&mut Self>, _cx: &mut Context<'_>) -> Poll<Result<(), String>> {
        Poll::Ready(self.op())
    }

    fn poll_close(mut self: Pin<&mut Self>, _cx: &mut Context<'_>) -> Poll<Result<(), String>> {
        self.close_calls += 1;
        let r = self.op();
        if self.fail_close {
            return Poll::Ready(Err("close failed".to_string()));
        }
        if r.is_ok() {
            self.closed = true;
        }
        Poll::Ready(r)
    }
}

pub fn hex(b: &[u8]) -> String {
    b.iter().map(|x| format!("{x:02x}")).collect()
}

pub fn unhex(s: &str) -> Vec<u8> {
    if s == "-" {
        return Vec::new();
    }
    (0..s.len() / 2).map(|i| u8::from_str_radix(&s[2 * i..2 * i + 2], 16).expect("hex")).collect()
}

pub fn opt_num(s: &str) -> Option<usize> {
    if s == "-" { None } else { Some(s.parse().expect("number")) }
}
