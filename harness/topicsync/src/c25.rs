//! C25: the real `TopicHandshakeInitiator` / `TopicHandshakeAcceptor`.
//!
//! Case payloads:
//!   `S <I|A> <topic-hex|-> <ev:0|1> <sinkfail|-> <items...>`  one side against a scripted stream
//!        (items `T:<hex>` | `D` | `E`; the stream closes after them) and a fault-injecting sink.
//!   `P <topic-hex> <mitm>`  both real sides over channels with a man in the middle:
//!        `-` | `T<i|a><k>` (forward k messages of that direction, then close it) |
//!        `S<i|a><k>:<item>` (replace message k by item).
//! Results:
//!   S: `<result> | <sent> | <events> | none_polls=<n>`
//!   P: `I=<result> A=<result> | <events I> | <events A>`
//! `<result>` = `Ok` | `Ok:<hex>` | `Err:<variant>` | `HANG`.
use std::time::Duration;

use futures_channel::mpsc;
use futures_util::{SinkExt, StreamExt};
use p2panda_sync::protocols::{
    TopicHandshakeAcceptor, TopicHandshakeError, TopicHandshakeEvent, TopicHandshakeInitiator,
    TopicHandshakeMessage,
};
use p2panda_sync::traits::Protocol;

use crate::script::{End, ScriptSink, ScriptStream, hex, opt_num, unhex};

type T = Vec<u8>;
type Msg = TopicHandshakeMessage<T>;
type Evt = TopicHandshakeEvent<T>;

fn show_msg(m: &Msg) -> String {
    match m {
        TopicHandshakeMessage::Topic(t) => format!("T:{}", hex(t)),
        TopicHandshakeMessage::Done => "D".to_string(),
    }
}

fn show_evt(e: &Evt) -> String {
    match e {
        TopicHandshakeEvent::Initiate(t) => format!("Init:{}", hex(t)),
        TopicHandshakeEvent::Accept => "Accept".to_string(),
        TopicHandshakeEvent::TopicReceived(t) => format!("Recv:{}", hex(t)),
        TopicHandshakeEvent::Done(t) => format!("Done:{}", hex(t)),
    }
}

fn show_err(e: &TopicHandshakeError<T>) -> String {
    match e {
        TopicHandshakeError::UnexpectedMessage(m) => format!("Err:Unexpected:{}", show_msg(m)),
        TopicHandshakeError::UnexpectedStreamClosure => "Err:Closure".to_string(),
        TopicHandshakeError::MessageSink(_) => "Err:Sink".to_string(),
        TopicHandshakeError::MessageStream(_) => "Err:Stream".to_string(),
        TopicHandshakeError::MpscSend(_) => "Err:Mpsc".to_string(),
    }
}

fn show_res(r: &Result<Option<T>, TopicHandshakeError<T>>) -> String {
    match r {
        Ok(None) => "Ok".to_string(),
        Ok(Some(t)) => format!("Ok:{}", hex(t)),
        Err(e) => show_err(e),
    }
}

fn parse_item(s: &str) -> Result<Msg, String> {
    if s == "D" {
        Ok(TopicHandshakeMessage::Done)
    } else if s == "E" {
        Err("decode error".to_string())
    } else if let Some(h) = s.strip_prefix("T:") {
        Ok(TopicHandshakeMessage::Topic(unhex(h)))
    } else {
        panic!("bad item {s}")
    }
}

fn rt() -> tokio::runtime::Runtime {
    tokio::runtime::Builder::new_current_thread().enable_time().build().unwrap()
}

fn join(v: Vec<String>) -> String {
    if v.is_empty() { "-".to_string() } else { v.join(" ") }
}

fn single(tok: &[&str]) -> String {
    let initiator = tok[0] == "I";
    let topic = unhex(tok[1]);
    let ev_open = tok[2] == "1";
    let sink_fail = opt_num(tok[3]);
    let items: Vec<Result<Msg, String>> = tok[4..].iter().map(|s| parse_item(s)).collect();
    rt().block_on(async move {
        let (ev_tx, mut ev_rx) = mpsc::channel::<Evt>(64);
        if !ev_open {
            ev_rx.close();
        }
        let mut sink = ScriptSink::<Msg>::new(sink_fail);
        let mut stream = ScriptStream::new(items, End::Close);
        let fut = async {
            if initiator {
                TopicHandshakeInitiator::new(topic, ev_tx).run(&mut sink, &mut stream).await.map(|_| None)
            } else {
                TopicHandshakeAcceptor::<T, Evt>::new(ev_tx).run(&mut sink, &mut stream).await.map(Some)
            }
        };
        let res = match tokio::time::timeout(Duration::from_secs(3), fut).await {
            Ok(r) => show_res(&r),
            Err(_) => "HANG".to_string(),
        };
        let mut evs = Vec::new();
        if ev_open {
            while let Ok(Some(e)) = ev_rx.try_next() {
                evs.push(show_evt(&e));
            }
        }
        format!(
            "{} | {} | {} | none_polls={}",
            res,
            join(sink.sent.iter().map(show_msg).collect()),
            join(evs),
            stream.none_polls
        )
    })
}

#[derive(Clone)]
enum Mitm {
    None,
    Truncate(usize),
    Subst(usize, Result<Msg, String>),
}

async fn middle(mut from: mpsc::Receiver<Msg>, to: mpsc::Sender<Result<Msg, String>>, m: Mitm) {
    let mut to = Some(to);
    let mut n = 0usize;
    if let Mitm::Truncate(0) = m {
        to = None;
    }
    while let Some(msg) = from.next().await {
        let item = match &m {
            Mitm::Subst(k, x) if *k == n => x.clone(),
            _ => Ok(msg),
        };
        if let Some(tx) = to.as_mut() {
            let _ = tx.send(item).await;
        }
        n += 1;
        if let Mitm::Truncate(k) = m {
            if n >= k {
                to = None;
            }
        }
    }
}

fn pair(tok: &[&str]) -> String {
    let topic = unhex(tok[0]);
    let spec = tok[1];
    let (mut m_ia, mut m_ai) = (Mitm::None, Mitm::None);
    if spec != "-" {
        let kind = &spec[0..1];
        let dir = &spec[1..2];
        let rest = &spec[2..];
        let m = if kind == "T" {
            Mitm::Truncate(rest.parse().unwrap())
        } else {
            let (k, it) = rest.split_once(':').unwrap();
            Mitm::Subst(k.parse().unwrap(), parse_item(it))
        };
        if dir == "i" { m_ia = m } else { m_ai = m }
    }
    rt().block_on(async move {
        let (evi_tx, mut evi_rx) = mpsc::channel::<Evt>(64);
        let (eva_tx, mut eva_rx) = mpsc::channel::<Evt>(64);
        // I --(i_out)--> middle --(a_in)--> A ;  A --(a_out)--> middle --(i_in)--> I
        let (mut i_out_tx, i_out_rx) = mpsc::channel::<Msg>(16);
        let (a_in_tx, mut a_in_rx) = mpsc::channel::<Result<Msg, String>>(16);
        let (mut a_out_tx, a_out_rx) = mpsc::channel::<Msg>(16);
        let (i_in_tx, mut i_in_rx) = mpsc::channel::<Result<Msg, String>>(16);
        let side_i = async move {
            let r = TopicHandshakeInitiator::new(topic, evi_tx).run(&mut i_out_tx, &mut i_in_rx).await.map(|_| None);
            drop(i_out_tx);
            drop(i_in_rx);
            r
        };
        let side_a = async move {
            let r = TopicHandshakeAcceptor::<T, Evt>::new(eva_tx).run(&mut a_out_tx, &mut a_in_rx).await.map(Some);
            drop(a_out_tx);
            drop(a_in_rx);
            r
        };
        let all = async {
            tokio::join!(side_i, side_a, middle(i_out_rx, a_in_tx, m_ia), middle(a_out_rx, i_in_tx, m_ai))
        };
        let (ri, ra) = match tokio::time::timeout(Duration::from_secs(3), all).await {
            Ok((ri, ra, _, _)) => (show_res(&ri), show_res(&ra)),
            Err(_) => ("HANG".to_string(), "HANG".to_string()),
        };
        let mut ei = Vec::new();
        while let Ok(Some(e)) = evi_rx.try_next() {
            ei.push(show_evt(&e));
        }
        let mut ea = Vec::new();
        while let Ok(Some(e)) = eva_rx.try_next() {
            ea.push(show_evt(&e));
        }
        format!("I={} A={} | {} | {}", ri, ra, join(ei), join(ea))
    })
}

pub fn case(payload: &str) -> String {
    let tok: Vec<&str> = payload.split_whitespace().collect();
    match tok[0] {
        "S" => single(&tok[1..]),
        "P" => pair(&tok[1..]),
        other => panic!("bad mode {other}"),
    }
}
