//! A small universe of real operations addressed by numeric ids, shared by C22 and C23.
//!
//! id = 100 * a + seq for the operations of author `a` (authors are numbered in the order of their
//! verifying keys, which is the iteration order of the `BTreeMap`s inside log sync).
use std::collections::HashMap;

use p2panda_core::{Body, Hash, Header, Operation, SigningKey, VerifyingKey};
use p2panda_sync::test_utils::{TestExtensions, create_operation};

pub const LOG_ID: usize = 0;

pub struct Universe {
    pub authors: Vec<SigningKey>,
    pub ops: HashMap<u64, (Header<TestExtensions>, Vec<u8>, Body)>,
    pub by_hash: HashMap<Hash, u64>,
    pub by_bytes: HashMap<Vec<u8>, u64>,
}

impl Universe {
    /// `counts[a]` operations for author `a`.
    pub fn new(counts: &[usize]) -> Self {
        let mut keys: Vec<SigningKey> = (0..counts.len()).map(|i| SigningKey::from_bytes(&[(i + 1) as u8; 32])).collect();
        keys.sort_by_key(|k| k.verifying_key());
        let mut u = Universe { authors: keys, ops: HashMap::new(), by_hash: HashMap::new(), by_bytes: HashMap::new() };
        for (a, n) in counts.iter().enumerate() {
            let mut backlink = None;
            for seq in 0..*n {
                let id = 100 * a as u64 + seq as u64;
                let body = Body::new(format!("operation {id}").as_bytes());
                let (header, bytes) = create_operation(&u.authors[a], &body, seq as u32, backlink, LOG_ID);
                backlink = Some(header.hash());
                u.by_hash.insert(header.hash(), id);
                u.by_bytes.insert(bytes.clone(), id);
                u.ops.insert(id, (header, bytes, body));
            }
        }
        u
    }

    pub fn author(&self, a: usize) -> VerifyingKey {
        self.authors[a].verifying_key()
    }

    pub fn operation(&self, id: u64) -> Operation<TestExtensions> {
        let (header, _, body) = self.ops.get(&id).unwrap_or_else(|| panic!("unknown op {id}"));
        Operation { hash: header.hash(), header: header.clone(), body: Some(body.clone()) }
    }

    pub fn id_of(&self, hash: &Hash) -> String {
        self.by_hash.get(hash).map(|i| i.to_string()).unwrap_or_else(|| "?".to_string())
    }
}
