//! Harness for the sync-protocol properties C25 (topic handshake), C22 (session event lifecycle)
//! and C23 (live-mode forwarding).  Dispatch on argv[1].
mod c22;
mod c23;
mod c25;
mod ops;
mod script;

fn main() {
    let which = std::env::args().nth(1).unwrap_or_default();
    match which.as_str() {
        "c25" => h_common::run_cases(c25::case),
        "c22" => h_common::run_cases(c22::case),
        "c23" => h_common::run_cases(c23::case),
        other => {
            eprintln!("unknown property {other}");
            std::process::exit(2);
        }
    }
}
