//! C23: a real `TopicSyncManager` with several live sessions whose remotes are scripted.
//!
//! Case payload: `<capS|-> <sessions> <store> <extra> <sync> <flow...>`
//!   sessions  `sid:topic:peer,...`                (all live_mode = true)
//!   store     number of local operations (ids 0..; sent to every remote in the sync phase = seed)
//!   extra     number of remote operations (ids 100..)
//!   sync      `sid=op.op,...|-`  operations the remote of `sid` sends during the sync phase
//!   flow      batches separated by `;` of `a<sid>:<op>` (remote of sid sends Live(op)) and
//!             `P<topic>:<op>` (local publication to every session of the topic); after each batch
//!             the system is run until nothing moves any more.
//! Result: the global ordered log `a<sid>:<op>` (session took op from its stream),
//!   `s<sid>:<op>` (session put Live(op) on its sink), `c<sid>:<op>` (manager event stream handed
//!   OperationReceived(op) of session sid to the consumer), then ` | q=<1 if settled>`.
use std::collections::HashMap;
use std::pin::Pin;
use std::sync::{Arc, Mutex};
use std::task::{Context, Poll};
use std::time::Duration;

use futures_channel::mpsc;
use futures_util::{Sink, SinkExt, Stream, StreamExt};
use p2panda_core::{SigningKey, Topic};
use p2panda_store::topics::TopicStore;
use p2panda_store::{SqliteStore, tx_unwrap};
use p2panda_sync::protocols::{LogSyncMessage, TopicLogSyncEvent, TopicLogSyncMessage};
use p2panda_sync::test_utils::TestTopicSyncManager;
use p2panda_sync::traits::{Manager, Protocol};
use p2panda_sync::{SessionConfig, ToSync};

use crate::c22::{Msg, make_store};
use crate::ops::{LOG_ID, Universe};

type Log = Arc<Mutex<Vec<String>>>;

struct LoggedStream {
    rx: mpsc::Receiver<Result<Msg, String>>,
    sid: u64,
    log: Log,
    u: Arc<Universe>,
}

impl Stream for LoggedStream {
    type Item = Result<Msg, String>;

    fn poll_next(mut self: Pin<&mut Self>, cx: &mut Context<'_>) -> Poll<Option<Self::Item>> {
        let r = self.rx.poll_next_unpin(cx);
        if let Poll::Ready(Some(Ok(m))) = &r {
            let id = match m {
                TopicLogSyncMessage::Live(h, _) => Some(self.u.id_of(&h.hash())),
                TopicLogSyncMessage::Sync(LogSyncMessage::Operation(b, _)) => {
                    Some(self.u.by_bytes.get(b).map(|i| i.to_string()).unwrap_or_else(|| "?".to_string()))
                }
                _ => None,
            };
            if let Some(id) = id {
                self.log.lock().unwrap().push(format!("a{}:{}", self.sid, id));
            }
        }
        r
    }
}

struct LoggedSink {
    sid: u64,
    log: Log,
    u: Arc<Universe>,
}

impl Sink<Msg> for LoggedSink {
    type Error = String;

    fn poll_ready(self: Pin<&mut Self>, _cx: &mut Context<'_>) -> Poll<Result<(), String>> {
        Poll::Ready(Ok(()))
    }

    fn start_send(self: Pin<&mut Self>, item: Msg) -> Result<(), String> {
        if let TopicLogSyncMessage::Live(h, _) = &item {
            self.log.lock().unwrap().push(format!("s{}:{}", self.sid, self.u.id_of(&h.hash())));
        }
        Ok(())
    }

    fn poll_flush(self: Pin<&mut Self>, _cx: &mut Context<'_>) -> Poll<Result<(), String>> {
        Poll::Ready(Ok(()))
    }

    fn poll_close(self: Pin<&mut Self>, _cx: &mut Context<'_>) -> Poll<Result<(), String>> {
        Poll::Ready(Ok(()))
    }
}

/// Run the other tasks until the log has not changed for a while.
async fn settle(log: &Log) -> bool {
    let mut last = log.lock().unwrap().len();
    let mut stable = 0;
    for _ in 0..20000 {
        tokio::task::yield_now().await;
        let n = log.lock().unwrap().len();
        if n == last {
            stable += 1;
            if stable >= 64 {
                return true;
            }
        } else {
            stable = 0;
            last = n;
        }
    }
    false
}

pub fn case(payload: &str) -> String {
    let tok: Vec<&str> = payload.split_whitespace().collect();
    let cap: Option<usize> = crate::script::opt_num(tok[0]);
    let sessions: Vec<(u64, u8, u8)> = tok[1]
        .split(',')
        .map(|s| {
            let p: Vec<&str> = s.split(':').collect();
            (p[0].parse().unwrap(), p[1].parse().unwrap(), p[2].parse().unwrap())
        })
        .collect();
    let store_n: usize = tok[2].parse().unwrap();
    let extra: usize = tok[3].parse().unwrap();
    let mut sync: HashMap<u64, Vec<u64>> = HashMap::new();
    if tok[4] != "-" {
        for part in tok[4].split(',') {
            let (sid, ops) = part.split_once('=').unwrap();
            sync.insert(sid.parse().unwrap(), ops.split('.').map(|x| x.parse().unwrap()).collect());
        }
    }
    let flow: Vec<Vec<&str>> = tok[5..].join(" ").split(';').map(|b| b.split_whitespace().collect::<Vec<&str>>()).map(|v| v.into_iter().map(|s| Box::leak(s.to_string().into_boxed_str()) as &str).collect()).collect();

    let u = Arc::new(Universe::new(&[store_n, extra]));
    let rt = tokio::runtime::Builder::new_current_thread().enable_time().build().unwrap();
    let line = rt.block_on(async move {
        let log: Log = Arc::new(Mutex::new(Vec::new()));
        // one store, all topics of the configuration map to the local author's log
        let first_topic = Topic::from([sessions[0].1; 32]);
        let store: SqliteStore = make_store(&u, &first_topic, &[store_n]).await;
        let mut topics: Vec<u8> = sessions.iter().map(|s| s.1).collect();
        topics.sort();
        topics.dedup();
        for t in &topics {
            let topic = Topic::from([*t; 32]);
            tx_unwrap!(&store, {
                store.associate(&topic, &u.author(0), &LOG_ID).await.unwrap();
            });
        }
        let mut manager = TestTopicSyncManager::new(store.clone());
        let mut events = manager.subscribe();
        let live_started = Arc::new(Mutex::new(0usize));
        {
            let log = log.clone();
            let u = u.clone();
            let live_started = live_started.clone();
            tokio::spawn(async move {
                while let Some(ev) = events.next().await {
                    match ev.event() {
                        TopicLogSyncEvent::OperationReceived { operation, .. } => {
                            log.lock().unwrap().push(format!("c{}:{}", ev.session_id(), u.id_of(&operation.hash)));
                        }
                        TopicLogSyncEvent::LiveModeStarted => *live_started.lock().unwrap() += 1,
                        _ => {}
                    }
                }
            });
        }
        let mut inject: HashMap<u64, mpsc::Sender<Result<Msg, String>>> = HashMap::new();
        for (sid, t, p) in &sessions {
            let config = SessionConfig {
                topic: Topic::from([*t; 32]),
                remote: SigningKey::from_bytes(&[*p; 32]).verifying_key(),
                live_mode: true,
            };
            let mut protocol = manager.session(*sid, &config).await;
            if let Some(c) = cap {
                protocol.buffer_capacity = c;
            }
            let (tx, rx) = mpsc::channel::<Result<Msg, String>>(4096);
            inject.insert(*sid, tx);
            let mut stream = LoggedStream { rx, sid: *sid, log: log.clone(), u: u.clone() };
            let mut sink = LoggedSink { sid: *sid, log: log.clone(), u: u.clone() };
            tokio::spawn(async move {
                let _ = protocol.run(&mut sink, &mut stream).await;
            });
        }
        // sync phase of every session
        for (sid, _, _) in &sessions {
            let tx = inject.get_mut(sid).unwrap();
            tx.send(Ok(TopicLogSyncMessage::Sync(LogSyncMessage::Have(Default::default())))).await.unwrap();
            match sync.get(sid) {
                Some(ops) if !ops.is_empty() => {
                    tx.send(Ok(TopicLogSyncMessage::Sync(LogSyncMessage::PreSync { total_operations: ops.len() as u32, total_bytes: 10 })))
                        .await
                        .unwrap();
                    for id in ops {
                        let (_, bytes, body) = u.ops.get(id).expect("op");
                        tx.send(Ok(TopicLogSyncMessage::Sync(LogSyncMessage::Operation(bytes.clone(), Some(body.to_bytes())))))
                            .await
                            .unwrap();
                    }
                    tx.send(Ok(TopicLogSyncMessage::Sync(LogSyncMessage::Done))).await.unwrap();
                }
                _ => tx.send(Ok(TopicLogSyncMessage::Sync(LogSyncMessage::Done))).await.unwrap(),
            }
        }
        // wait (real time: the sync phase talks to the store) until every session is live
        let mut all_live = false;
        for _ in 0..5000 {
            if *live_started.lock().unwrap() >= sessions.len() {
                all_live = true;
                break;
            }
            tokio::time::sleep(Duration::from_millis(2)).await;
        }
        let mut quiet = all_live && settle(&log).await;
        for batch in &flow {
            for t in batch {
                let (a, b) = t[1..].split_once(':').unwrap();
                let op: u64 = b.parse().unwrap();
                match &t[0..1] {
                    "a" => {
                        let sid: u64 = a.parse().unwrap();
                        let (h, _, body) = u.ops.get(&op).expect("op");
                        inject.get_mut(&sid).unwrap().send(Ok(TopicLogSyncMessage::Live(h.clone(), Some(body.clone())))).await.unwrap();
                    }
                    "P" => {
                        let topic: u8 = a.parse().unwrap();
                        for (sid, t2, _) in &sessions {
                            if *t2 == topic {
                                let mut handle = manager.session_handle(*sid).await.unwrap();
                                handle.send(ToSync::Payload(u.operation(op))).await.unwrap();
                            }
                        }
                    }
                    other => panic!("bad flow token {other}"),
                }
            }
            quiet = settle(&log).await && quiet;
        }
        let entries = log.lock().unwrap().clone();
        format!("{} | q={}", crate::c22::join(entries), if quiet { 1 } else { 0 })
    });
    rt.shutdown_background();
    line
}
