//! C22: the real `TopicLogSync::run` against a scripted remote, a scripted live channel and a
//! fault-injecting sink; the session's broadcast events are recorded.
//!
//! Case payload: `<live:0|1> <cap> <store:n0,n1,..|-> <extra> <sinkfail|-> <sticky:0|1> <script...>`
//!   store   operations per author held by the local store (all of them will be sent in the sync
//!           phase because the scripted remote announces that it has nothing); author a's
//!           operations have ids 100a+seq; `extra` more operations (ids 100*A+seq, A = number of
//!           store authors) exist only at the remote.
//!   script  in arrival order — stream items: `H` Have, `P` PreSync, `D` Done, `O<id>` sync
//!           operation, `B` sync operation with an undecodable header, `V<id>` Live(op), `C` Close,
//!           `E` stream error item; live channel: `p<id>` ToSync::Payload, `c` ToSync::Close (pushed
//!           into the live channel when the stream reaches that position). The stream closes after
//!           the script.
//! Result: `<result> | <events> | <sent>`
//!   events  `S` SessionStarted `Y` SyncStarted `O<id>` OperationReceived `F` SyncFinished
//!           `L` LiveModeStarted `X` SessionFinished `E` Failed
//!   sent    `H` `P` `D` `o<id>` `l<id>` `C`
use std::collections::VecDeque;
use std::pin::Pin;
use std::sync::mpsc as std_mpsc;
use std::task::{Context, Poll};
use std::time::Duration;

use futures_channel::mpsc;
use futures_util::Stream;
use p2panda_core::{Operation, Topic};
use p2panda_store::operations::OperationStore;
use p2panda_store::topics::TopicStore;
use p2panda_store::{SqliteStore, tx_unwrap};
use p2panda_sync::ToSync;
use p2panda_sync::protocols::{
    LogSyncError, LogSyncMessage, TopicLogSync, TopicLogSyncChannelError, TopicLogSyncError, TopicLogSyncEvent,
    TopicLogSyncMessage,
};
use p2panda_sync::test_utils::{TestExtensions, TestLogId};
use p2panda_sync::traits::Protocol;
use tokio::sync::broadcast;

use crate::ops::{LOG_ID, Universe};
use crate::script::{ScriptSink, opt_num};

pub type Msg = TopicLogSyncMessage<TestLogId, TestExtensions>;
pub type Evt = TopicLogSyncEvent<TestExtensions>;
pub type Live = ToSync<Operation<TestExtensions>>;

pub enum Elem {
    Item(Result<Msg, String>),
    Push(Live),
}

/// Scripted stream whose script may also feed the session's live channel at exact positions:
/// a `Push` element sends into the live channel, wakes the task and reports `Pending`, so the
/// (biased) live loop handles the pushed message before the next stream item.
pub struct LiveScriptStream {
    pub elems: VecDeque<Elem>,
    pub live_tx: mpsc::Sender<Live>,
    pub none_polls: usize,
}

impl Stream for LiveScriptStream {
    type Item = Result<Msg, String>;

    fn poll_next(mut self: Pin<&mut Self>, cx: &mut Context<'_>) -> Poll<Option<Self::Item>> {
        match self.elems.pop_front() {
            Some(Elem::Item(item)) => Poll::Ready(Some(item)),
            Some(Elem::Push(l)) => {
                let _ = self.live_tx.try_send(l);
                cx.waker().wake_by_ref();
                Poll::Pending
            }
            None => {
                self.none_polls += 1;
                Poll::Ready(None)
            }
        }
    }
}

pub fn show_msg(u: &Universe, m: &Msg) -> String {
    match m {
        TopicLogSyncMessage::Sync(LogSyncMessage::Have(_)) => "H".to_string(),
        TopicLogSyncMessage::Sync(LogSyncMessage::PreSync { .. }) => "P".to_string(),
        TopicLogSyncMessage::Sync(LogSyncMessage::Done) => "D".to_string(),
        TopicLogSyncMessage::Sync(LogSyncMessage::Operation(h, _)) => {
            format!("o{}", u.by_bytes.get(h).map(|i| i.to_string()).unwrap_or_else(|| "?".to_string()))
        }
        TopicLogSyncMessage::Live(h, _) => format!("l{}", u.id_of(&h.hash())),
        TopicLogSyncMessage::Close => "C".to_string(),
    }
}

pub fn show_evt(u: &Universe, e: &Evt) -> String {
    match e {
        TopicLogSyncEvent::SessionStarted => "S".to_string(),
        TopicLogSyncEvent::SyncStarted { .. } => "Y".to_string(),
        TopicLogSyncEvent::OperationReceived { operation, .. } => format!("O{}", u.id_of(&operation.hash)),
        TopicLogSyncEvent::SyncFinished { .. } => "F".to_string(),
        TopicLogSyncEvent::LiveModeStarted => "L".to_string(),
        TopicLogSyncEvent::SessionFinished { .. } => "X".to_string(),
        TopicLogSyncEvent::Failed { .. } => "E".to_string(),
    }
}

pub fn show_err(e: &TopicLogSyncError) -> String {
    let s = match e {
        TopicLogSyncError::Sync(LogSyncError::UnexpectedStreamClosure) => "Sync.Closure",
        TopicLogSyncError::Sync(LogSyncError::MessageStream(_)) => "Sync.Stream",
        TopicLogSyncError::Sync(LogSyncError::MessageSink(_)) => "Sync.Sink",
        TopicLogSyncError::Sync(LogSyncError::UnexpectedMessage(_)) => "Sync.Unexpected",
        TopicLogSyncError::Sync(LogSyncError::Decode(_)) => "Sync.Decode",
        TopicLogSyncError::Sync(LogSyncError::BroadcastSend) => "Sync.Broadcast",
        TopicLogSyncError::Sync(_) => "Sync.Store",
        TopicLogSyncError::TopicStore(_) => "TopicStore",
        TopicLogSyncError::UnexpectedProtocolMessage(_) => "Unexpected",
        TopicLogSyncError::Channel(TopicLogSyncChannelError::MessageSink(_)) => "Chan.Sink",
        TopicLogSyncError::Channel(TopicLogSyncChannelError::MessageStream(_)) => "Chan.Stream",
        TopicLogSyncError::Channel(TopicLogSyncChannelError::EventSend) => "Chan.Event",
        TopicLogSyncError::UnexpectedStreamClosure => "Closure",
        TopicLogSyncError::DecodeMessage(_) => "Decode",
    };
    format!("Err:{s}")
}

fn parse_elem(u: &Universe, tok: &str) -> Elem {
    let id = |s: &str| s.parse::<u64>().expect("op id");
    let sync = |m| Elem::Item(Ok(TopicLogSyncMessage::Sync(m)));
    match &tok[0..1] {
        "H" => sync(LogSyncMessage::Have(Default::default())),
        "P" => sync(LogSyncMessage::PreSync { total_operations: 1, total_bytes: 10 }),
        "D" => sync(LogSyncMessage::Done),
        "O" => {
            let (_, bytes, body) = u.ops.get(&id(&tok[1..])).expect("op");
            sync(LogSyncMessage::Operation(bytes.clone(), Some(body.to_bytes())))
        }
        "B" => sync(LogSyncMessage::Operation(vec![0xff, 0x00, 0x13], None)),
        "V" => {
            let (h, _, body) = u.ops.get(&id(&tok[1..])).expect("op");
            Elem::Item(Ok(TopicLogSyncMessage::Live(h.clone(), Some(body.clone()))))
        }
        "C" => Elem::Item(Ok(TopicLogSyncMessage::Close)),
        "E" => Elem::Item(Err("decode error".to_string())),
        "p" => Elem::Push(ToSync::Payload(u.operation(id(&tok[1..])))),
        "c" => Elem::Push(ToSync::Close),
        _ => panic!("bad script token {tok}"),
    }
}

pub async fn make_store(u: &Universe, topic: &Topic, store_counts: &[usize]) -> SqliteStore {
    let store = SqliteStore::temporary().await;
    for (a, n) in store_counts.iter().enumerate() {
        for seq in 0..*n {
            let op = u.operation(100 * a as u64 + seq as u64);
            tx_unwrap!(&store, {
                store.insert_operation(&op.hash, &op, &LOG_ID).await.unwrap();
            });
        }
        tx_unwrap!(&store, {
            store.associate(topic, &u.author(a), &LOG_ID).await.unwrap();
        });
    }
    store
}

pub fn join(v: Vec<String>) -> String {
    if v.is_empty() { "-".to_string() } else { v.join(" ") }
}

pub fn case(payload: &str) -> String {
    let tok: Vec<String> = payload.split_whitespace().map(|s| s.to_string()).collect();
    let live = tok[0] == "1";
    let cap: usize = tok[1].parse().unwrap();
    let store_counts: Vec<usize> =
        if tok[2] == "-" { vec![] } else { tok[2].split(',').map(|s| s.parse().unwrap()).collect() };
    let extra: usize = tok[3].parse().unwrap();
    let sink_fail = opt_num(&tok[4]);
    let sticky = tok[5] == "1";
    let script: Vec<String> = tok[6..].to_vec();

    let mut counts = store_counts.clone();
    counts.push(extra);
    let universe = std::sync::Arc::new(Universe::new(&counts));

    let (event_tx, mut event_rx) = broadcast::channel::<Evt>(4096);
    let (done_tx, done_rx) = std_mpsc::channel::<String>();
    let u = universe.clone();
    std::thread::spawn(move || {
        let rt = tokio::runtime::Builder::new_current_thread().enable_time().build().unwrap();
        let line = rt.block_on(async move {
            let topic = Topic::from([7u8; 32]);
            let store = make_store(&u, &topic, &store_counts).await;
            let (live_tx, live_rx) = mpsc::channel::<Live>(4096);
            let elems: VecDeque<Elem> = script.iter().map(|t| parse_elem(&u, t)).collect();
            let mut stream = LiveScriptStream { elems, live_tx: live_tx.clone(), none_polls: 0 };
            let mut sink = ScriptSink::<Msg>::new(sink_fail);
            sink.sticky = sticky;
            let session: TopicLogSync<Topic, SqliteStore, TestLogId, TestExtensions> =
                TopicLogSync::new_with_capacity(topic, store, if live { Some(live_rx) } else { None }, event_tx, cap);
            let res = session.run(&mut sink, &mut stream).await;
            let res = match res {
                Ok(()) => "Ok".to_string(),
                Err(e) => show_err(&e),
            };
            drop(live_tx);
            format!("{} | {}", res, join(sink.sent.iter().map(|m| show_msg(&u, m)).collect()))
        });
        let _ = done_tx.send(line);
    });
    let (res, sent) = match done_rx.recv_timeout(Duration::from_secs(8)) {
        Ok(line) => {
            let (a, b) = line.split_once(" | ").unwrap();
            (a.to_string(), b.to_string())
        }
        Err(std_mpsc::RecvTimeoutError::Timeout) => ("HANG".to_string(), "?".to_string()),
        Err(std_mpsc::RecvTimeoutError::Disconnected) => ("PANIC".to_string(), "?".to_string()),
    };
    let mut evs = Vec::new();
    while let Ok(e) = event_rx.try_recv() {
        evs.push(show_evt(&universe, &e));
    }
    format!("{} | {} | {}", res, join(evs), sent)
}
