//! C13: drive the real `Buffer` / `ComposedProcessors` / `ProcessorStream` / `PipelineBuilder`
//! with harness-defined scripted processors and record what the real code did.
//!
//! Case payload (sections separated by `|`):
//!   `<layer> <layer> ... | x1,x2,.. | g1,g2,.. | c1,c2,..`
//!   layer  = `S <p>`  (one processor behind its own Buffer) or `C <p> <p>` (two processors
//!            composed with `PipelineBuilder` / `ComposedProcessors` behind one Buffer)
//!   p      = `tag:grp:nd:perrs:nerrs:pdel` (lists are `.`-separated, `-` = empty)
//!            tag   added to every accepted item; grp <= 1: FIFO, grp = k >= 2: items are held
//!            until k are there and then released in reverse order; nd = number of
//!            `yield_now()` at the start of every `next()`; perrs = inputs on which `process`
//!            returns Err; nerrs = inputs queued as an Err result of `next`; pdel = per-item
//!            number of `yield_now()` inside `process` (index = item mod len).
//!   x..    = input items; g.. = polls of the source before item i is ready; c.. = ticks the
//!            consumer waits after the j-th received output (cyclic).
//!
//! All delays are counted in `tokio::task::yield_now()` so the run does not depend on wall-clock
//! time. What remains free is tokio's own behaviour (`select!` branch order, wake order); that is
//! why the result carries the *observed event trace*, which the Gallina model replays.
//!
//! Result: `<events> | <lost items> | <idle|busy>`; events (k = layer index from the source):
//!   `Pk:<o>` layer k's pump took `o` from its upstream (layer 0: from the source),
//!   `Rk:x` Buffer k received x and called `process(x)`, `Ek:x` that call returned,
//!   `Nk:<r>` the last processor's `next` dequeued r, `Hk:<r>` composed: first.next dequeued r,
//!   `Fk:y` composed: second.process(y) returned, `Dk:y` composed: second.process(y) future was
//!   dropped before completion, `Y:<o>` the consumer received o.
//!   o = `q+N` Ok(N) | `q-N` Err from last next | `fN` Err from first.next (composed) |
//!       `aN` Err from first/only process | `bN` Err from second.process; r = `+N` | `-N`.
use std::cell::{Cell, RefCell};
use std::collections::VecDeque;
use std::pin::Pin;
use std::rc::Rc;
use std::task::{Context, Poll};

use futures_util::{Stream, StreamExt};
use p2panda_stream::{ComposedError, ComposedProcessors, PipelineBuilder, Processor, StreamLayerExt};
use tokio::sync::Notify;
use tokio::task::{LocalSet, yield_now};

#[derive(Default)]
struct Shared {
    events: RefCell<Vec<String>>,
    lost: RefCell<Vec<u64>>,
    activity: Cell<u64>,
    finished: Cell<bool>,
}

impl Shared {
    fn tick(&self) {
        self.activity.set(self.activity.get() + 1);
    }
    fn ev(&self, s: String) {
        if !self.finished.get() {
            self.events.borrow_mut().push(s);
            self.tick();
        }
    }
}

#[derive(Clone, Debug)]
struct PCfg {
    tag: u64,
    grp: usize,
    nd: usize,
    perrs: Vec<u64>,
    nerrs: Vec<u64>,
    pdel: Vec<usize>,
}

#[derive(Clone, Copy, Debug, PartialEq, Eq)]
enum PE {
    Proc(u64),
    Next(u64),
}

type Res = Result<u64, u64>;

fn show_res(r: &Res) -> String {
    match r {
        Ok(y) => format!("+{}", y),
        Err(y) => format!("-{}", y),
    }
}

struct ScriptProc {
    layer: usize,
    second: bool,
    cfg: PCfg,
    held: RefCell<Vec<Res>>,
    queue: RefCell<VecDeque<Res>>,
    notify: Notify,
    sh: Rc<Shared>,
}

impl ScriptProc {
    fn new(layer: usize, second: bool, cfg: PCfg, sh: Rc<Shared>) -> Self {
        ScriptProc { layer, second, cfg, held: RefCell::new(Vec::new()), queue: RefCell::new(VecDeque::new()), notify: Notify::new(), sh }
    }
}

/// Reports a `process` future that is dropped before it completed.
struct InFlight<'a> {
    p: &'a ScriptProc,
    x: u64,
    armed: bool,
}

impl Drop for InFlight<'_> {
    fn drop(&mut self) {
        if self.armed && !self.p.sh.finished.get() {
            self.p.sh.lost.borrow_mut().push(self.x);
            self.p.sh.ev(format!("D{}:{}", self.p.layer, self.x));
        }
    }
}

impl Processor<u64> for ScriptProc {
    type Output = u64;
    type Error = PE;

    async fn process(&self, x: u64) -> Result<(), PE> {
        if !self.second {
            self.sh.ev(format!("R{}:{}", self.layer, x));
        }
        let mut guard = InFlight { p: self, x, armed: true };
        let d = if self.cfg.pdel.is_empty() { 0 } else { self.cfg.pdel[(x % self.cfg.pdel.len() as u64) as usize] };
        for _ in 0..d {
            self.sh.tick();
            yield_now().await;
        }
        guard.armed = false;
        let done = if self.second { 'F' } else { 'E' };
        if self.cfg.perrs.contains(&x) {
            self.sh.ev(format!("{}{}:{}", done, self.layer, x));
            return Err(PE::Proc(x));
        }
        let y = x + self.cfg.tag;
        let r: Res = if self.cfg.nerrs.contains(&x) { Err(y) } else { Ok(y) };
        if self.cfg.grp <= 1 {
            self.queue.borrow_mut().push_back(r);
        } else {
            let mut h = self.held.borrow_mut();
            h.push(r);
            if h.len() == self.cfg.grp {
                let mut q = self.queue.borrow_mut();
                for it in h.drain(..).rev() {
                    q.push_back(it);
                }
            }
        }
        self.sh.ev(format!("{}{}:{}", done, self.layer, x));
        self.notify.notify_one();
        Ok(())
    }

    async fn next(&self) -> Result<u64, PE> {
        for _ in 0..self.cfg.nd {
            self.sh.tick();
            yield_now().await;
        }
        loop {
            let item = self.queue.borrow_mut().pop_front();
            if let Some(r) = item {
                // More items may be waiting: keep the permit for the next call.
                if !self.queue.borrow().is_empty() {
                    self.notify.notify_one();
                }
                let tagc = if self.second { 'N' } else { 'X' };
                self.sh.ev(format!("{}{}:{}", tagc, self.layer, show_res(&r)));
                return r.map_err(PE::Next);
            }
            self.notify.notified().await;
        }
    }
}

/// Input source: item i becomes ready after `gaps[i]` polls.
struct Source {
    items: Vec<u64>,
    gaps: Vec<usize>,
    idx: usize,
    countdown: usize,
    sh: Rc<Shared>,
}

impl Stream for Source {
    type Item = u64;
    fn poll_next(mut self: Pin<&mut Self>, cx: &mut Context<'_>) -> Poll<Option<u64>> {
        if self.idx >= self.items.len() {
            return Poll::Ready(None);
        }
        if self.countdown > 0 {
            self.countdown -= 1;
            self.sh.tick();
            cx.waker().wake_by_ref();
            return Poll::Pending;
        }
        let x = self.items[self.idx];
        self.idx += 1;
        let i = self.idx;
        self.countdown = if i < self.items.len() && !self.gaps.is_empty() { self.gaps[i % self.gaps.len()] } else { 0 };
        self.sh.ev(format!("P0:q+{}", x));
        Poll::Ready(Some(x))
    }
}

enum Layer {
    S(PCfg),
    C(PCfg, PCfg),
}

fn list<T: std::str::FromStr>(s: &str, sep: char) -> Vec<T>
where
    T::Err: std::fmt::Debug,
{
    if s == "-" || s.is_empty() { Vec::new() } else { s.split(sep).map(|t| t.parse::<T>().expect("num")).collect() }
}

fn pcfg(s: &str) -> PCfg {
    let f: Vec<&str> = s.split(':').collect();
    PCfg { tag: f[0].parse().unwrap(), grp: f[1].parse().unwrap(), nd: f[2].parse().unwrap(), perrs: list(f[3], '.'), nerrs: list(f[4], '.'), pdel: list(f[5], '.') }
}

type OutS = Pin<Box<dyn Stream<Item = String>>>;
type ItemS = Pin<Box<dyn Stream<Item = u64>>>;

fn conv_single(r: Result<u64, PE>) -> String {
    match r {
        Ok(y) => format!("q+{}", y),
        Err(PE::Next(y)) => format!("q-{}", y),
        Err(PE::Proc(x)) => format!("a{}", x),
    }
}

fn conv_comp(r: Result<u64, ComposedError<PE, PE>>) -> String {
    match r {
        Ok(y) => format!("q+{}", y),
        Err(ComposedError::Second(PE::Next(y))) => format!("q-{}", y),
        Err(ComposedError::First(PE::Next(y))) => format!("f{}", y),
        Err(ComposedError::First(PE::Proc(x))) => format!("a{}", x),
        Err(ComposedError::Second(PE::Proc(x))) => format!("b{}", x),
    }
}

const IDLE_LIMIT: usize = 64;

async fn run_case(payload: String, sh: Rc<Shared>) -> String {
    let secs: Vec<&str> = payload.split('|').map(|s| s.trim()).collect();
    let toks: Vec<&str> = secs[0].split_whitespace().collect();
    let mut layers = Vec::new();
    let mut i = 0;
    while i < toks.len() {
        match toks[i] {
            "S" => {
                layers.push(Layer::S(pcfg(toks[i + 1])));
                i += 2;
            }
            "C" => {
                layers.push(Layer::C(pcfg(toks[i + 1]), pcfg(toks[i + 2])));
                i += 3;
            }
            t => panic!("bad layer token {}", t),
        }
    }
    let items: Vec<u64> = list(secs[1], ',');
    let gaps: Vec<usize> = list(secs[2], ',');
    let cgaps: Vec<usize> = list(secs[3], ',');
    let first_gap = if gaps.is_empty() { 0 } else { gaps[0] };
    let src = Source { items, gaps, idx: 0, countdown: first_gap, sh: sh.clone() };
    let mut cur: ItemS = Box::pin(src);
    let n = layers.len();
    let mut top: Option<OutS> = None;
    for (k, l) in layers.into_iter().enumerate() {
        let o: OutS = match l {
            Layer::S(p) => Box::pin(cur.layer(ScriptProc::new(k, false, p, sh.clone())).map(conv_single)),
            Layer::C(p1, p2) => {
                let a = ScriptProc::new(k, false, p1, sh.clone());
                let b = ScriptProc::new(k, true, p2, sh.clone());
                if k % 2 == 0 {
                    Box::pin(cur.layer(PipelineBuilder::new().layer(a).layer(b).build()).map(conv_comp))
                } else {
                    Box::pin(cur.layer(ComposedProcessors { first: a, second: b }).map(conv_comp))
                }
            }
        };
        if k + 1 == n {
            top = Some(o);
            cur = Box::pin(futures_util::stream::empty());
        } else {
            let shc = sh.clone();
            // Glue between two layers (as the node pipeline does with `.map`): Ok items go on,
            // everything else leaves the chain here and is recorded.
            cur = Box::pin(o.filter_map(move |s: String| {
                shc.ev(format!("P{}:{}", k + 1, s));
                let r = s.strip_prefix("q+").map(|t| t.parse::<u64>().unwrap());
                std::future::ready(r)
            }));
        }
    }
    let mut top = top.expect("at least one layer");
    // The consumer awaits the outermost stream like any application would (woken only through
    // the wakers the real code registers); the watchdog below only observes activity.
    let shc = sh.clone();
    let consumer = tokio::task::spawn_local(async move {
        let mut got = 0usize;
        while let Some(o) = top.next().await {
            shc.ev(format!("Y:{}", o));
            let c = if cgaps.is_empty() { 0 } else { cgaps[got % cgaps.len()] };
            got += 1;
            for _ in 0..c {
                shc.tick();
                yield_now().await;
            }
        }
    });
    let mut idle = 0usize;
    loop {
        let before = sh.activity.get();
        yield_now().await;
        if sh.activity.get() == before {
            idle += 1;
        } else {
            idle = 0;
        }
        if idle > IDLE_LIMIT {
            break;
        }
    }
    sh.finished.set(true);
    consumer.abort();
    let _ = consumer.await;
    let ev = sh.events.borrow().join(" ");
    let lost = h_common::join(&sh.lost.borrow(), ",");
    format!("{} | {} | idle", ev, lost)
}

fn main() {
    let rt = tokio::runtime::Builder::new_current_thread().enable_all().build().expect("runtime");
    h_common::run_cases(|payload| {
        let sh = Rc::new(Shared::default());
        let local = LocalSet::new();
        let p = payload.to_string();
        rt.block_on(local.run_until(run_case(p, sh)))
    });
}
