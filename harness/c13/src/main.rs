//! C13: drive the real `Buffer` / `ComposedProcessors` / `ProcessorStream` / `PipelineBuilder`
//! with harness-defined scripted processors and record what the real code did.
//!
//! Case payload (sections separated by `|`):
//!   `<layer> <layer> ... | x1,x2,.. | g1,g2,.. | c1,c2,..`
//!   layer  = `S <p>`  (one processor behind its own Buffer) or `C <p> <p>` (two processors
//!            composed with `PipelineBuilder` / `ComposedProcessors` behind one Buffer)
//!   p      = `tag:grp:nd:perrs:nerrs:pdel[:qm:pm]` (lists are `.`-separated, `-` = empty)
//!            tag   added to every accepted item; grp <= 1: FIFO, grp = k >= 2: items are held
//!            until k are there and then released in reverse order (a burst of k outputs
//!            becoming ready at once); nd = number of `yield_now()` at the start of every
//!            `next()`; perrs = inputs on which `process` returns Err; nerrs = inputs queued as
//!            an Err result of `next`; pdel = per-item number of `yield_now()` inside `process`
//!            (index = item mod len).
//!            qm = how `next()` waits for its output queue: 0 = `Notify` + VecDeque (takes no
//!            part in tokio's cooperative budget), 1 = the queue is a `tokio::sync::mpsc`
//!            unbounded channel (`recv` consumes one budget unit per item and returns Pending
//!            when the budget is used up), 2 = VecDeque guarded by a `tokio::sync::Semaphore`
//!            holding one permit per queued item (`acquire` consumes budget alike).
//!            pm = 1: `process` first locks (and releases) a `tokio::sync::Mutex` — one budget
//!            unit per item, Pending only when the task's budget is exhausted.
//!   x..    = input items; g.. = polls of the source before item i is ready; c.. = ticks the
//!            consumer waits after the j-th received output (cyclic).
//!
//! All scripted delays are counted in `tokio::task::yield_now()` so the run does not depend on
//! wall-clock time. What remains free is tokio's own behaviour (`select!` branch order, wake
//! order, the cooperative budget of 128 units per task poll); that is why the result carries the
//! *observed event trace*, which the Gallina model replays.
//!
//! Every item travels as a `Tok`: a value with a destructor that reports when the token is
//! destroyed before a `process` call, the glue or the consumer took the value out of it. So an
//! item that vanishes anywhere in the real code (a cancelled `process` future, a cancelled
//! `next()` future that holds an item across an await point, ...) is OBSERVED at the moment it
//! happens, not only inferred from a missing output.
//!
//! Result: `<events> | <lost items> | <idle|busy>`; events (k = layer index from the source):
//!   `Pk:<o>` layer k's pump took `o` from its upstream (layer 0: from the source),
//!   `Rk:x` Buffer k received x and called `process(x)`, `Ek:x` that call returned,
//!   `Nk:<r>` the last processor's `next` dequeued r, `Xk:<r>` first/only processor's `next`
//!   dequeued r, `Fk:y` composed: second.process(y) returned, `Dk:y` composed: the intermediate
//!   item y (dequeued from first, not yet accepted by second) was destroyed, `Zk:y` any other
//!   token (an input of layer k or an output of its last processor) was destroyed, `Y:<o>` the
//!   consumer received o.
//!   o = `q+N` Ok(N) | `q-N` Err from last next | `fN` Err from first.next (composed) |
//!       `aN` Err from first/only process | `bN` Err from second.process; r = `+N` | `-N`.
use std::cell::{Cell, RefCell};
use std::collections::VecDeque;
use std::pin::Pin;
use std::rc::Rc;
use std::task::{Context, Poll};

use futures_util::{Stream, StreamExt};
use p2panda_stream::{ComposedError, ComposedProcessors, PipelineBuilder, Processor, StreamLayerExt};
use tokio::sync::{Mutex, Notify, Semaphore, mpsc};
use tokio::task::{LocalSet, yield_now};

#[derive(Default)]
struct Shared {
    events: RefCell<Vec<String>>,
    lost: RefCell<Vec<u64>>,
    activity: Cell<u64>,
    finished: Cell<bool>,
}

impl Shared {
    fn tick(&self) {
        self.activity.set(self.activity.get() + 1);
    }
    fn ev(&self, s: String) {
        if !self.finished.get() {
            self.events.borrow_mut().push(s);
            self.tick();
        }
    }
}

/// An item in transit. `mid` = intermediate item of a composed layer (dequeued from the first
/// processor, on its way into the second one).
struct Tok {
    v: u64,
    mid: bool,
    layer: usize,
    armed: bool,
    sh: Rc<Shared>,
}

impl Tok {
    fn new(v: u64, mid: bool, layer: usize, sh: &Rc<Shared>) -> Tok {
        Tok { v, mid, layer, armed: true, sh: sh.clone() }
    }
    /// The value arrived where it was meant to go.
    fn take(mut self) -> u64 {
        self.armed = false;
        self.v
    }
}

impl Drop for Tok {
    fn drop(&mut self) {
        if self.armed && !self.sh.finished.get() {
            if self.mid {
                self.sh.lost.borrow_mut().push(self.v);
                self.sh.ev(format!("D{}:{}", self.layer, self.v));
            } else {
                self.sh.ev(format!("Z{}:{}", self.layer, self.v));
            }
        }
    }
}

#[derive(Clone, Debug)]
struct PCfg {
    tag: u64,
    grp: usize,
    nd: usize,
    perrs: Vec<u64>,
    nerrs: Vec<u64>,
    pdel: Vec<usize>,
    qm: u8,
    pm: u8,
}

#[derive(Clone, Copy, Debug, PartialEq, Eq)]
enum PE {
    Proc(u64),
    Next(u64),
}

#[derive(Clone, Copy, Debug, PartialEq, Eq)]
enum Role {
    Only,
    First,
    Second,
}

type Res = Result<u64, u64>;

fn show_res(r: &Res) -> String {
    match r {
        Ok(y) => format!("+{}", y),
        Err(y) => format!("-{}", y),
    }
}

struct ScriptProc {
    layer: usize,
    role: Role,
    cfg: PCfg,
    held: RefCell<Vec<Res>>,
    // qm = 0 / 2: the output queue; qm = 0 waits on `notify`, qm = 2 on `sem` (permits = length)
    queue: RefCell<VecDeque<Res>>,
    notify: Notify,
    sem: Semaphore,
    // qm = 1: the output queue is a tokio channel
    chan_tx: mpsc::UnboundedSender<Res>,
    chan_rx: RefCell<mpsc::UnboundedReceiver<Res>>,
    // pm = 1
    gate: Mutex<()>,
    sh: Rc<Shared>,
}

impl ScriptProc {
    fn new(layer: usize, role: Role, cfg: PCfg, sh: Rc<Shared>) -> Self {
        let (chan_tx, chan_rx) = mpsc::unbounded_channel();
        ScriptProc {
            layer,
            role,
            cfg,
            held: RefCell::new(Vec::new()),
            queue: RefCell::new(VecDeque::new()),
            notify: Notify::new(),
            sem: Semaphore::new(0),
            chan_tx,
            chan_rx: RefCell::new(chan_rx),
            gate: Mutex::new(()),
            sh,
        }
    }

    fn push(&self, r: Res) {
        match self.cfg.qm {
            1 => {
                let _ = self.chan_tx.send(r);
            }
            2 => {
                self.queue.borrow_mut().push_back(r);
                self.sem.add_permits(1);
            }
            _ => {
                self.queue.borrow_mut().push_back(r);
            }
        }
    }

    /// Wait for the next queued result. Cancel-safe in every mode: nothing is taken out of the
    /// queue before the final, non-suspending step.
    async fn dequeue(&self) -> Res {
        match self.cfg.qm {
            1 => self.chan_rx.borrow_mut().recv().await.expect("sender lives as long as receiver"),
            2 => {
                let permit = self.sem.acquire().await.expect("semaphore never closed");
                permit.forget();
                self.queue.borrow_mut().pop_front().expect("one permit per queued item")
            }
            _ => loop {
                let item = self.queue.borrow_mut().pop_front();
                if let Some(r) = item {
                    // More items may be waiting: keep the permit for the next call.
                    if !self.queue.borrow().is_empty() {
                        self.notify.notify_one();
                    }
                    return r;
                }
                self.notify.notified().await;
            },
        }
    }
}

impl Processor<Tok> for ScriptProc {
    type Output = Tok;
    type Error = PE;

    async fn process(&self, tok: Tok) -> Result<(), PE> {
        // `tok` lives in this future until the value is taken below: if the future is dropped
        // before that, the token's destructor reports it.
        let x = tok.v;
        if self.role != Role::Second {
            self.sh.ev(format!("R{}:{}", self.layer, x));
        }
        if self.cfg.pm == 1 {
            let _g = self.gate.lock().await;
        }
        let d = if self.cfg.pdel.is_empty() { 0 } else { self.cfg.pdel[(x % self.cfg.pdel.len() as u64) as usize] };
        for _ in 0..d {
            self.sh.tick();
            yield_now().await;
        }
        let x = tok.take();
        let done = if self.role == Role::Second { 'F' } else { 'E' };
        if self.cfg.perrs.contains(&x) {
            self.sh.ev(format!("{}{}:{}", done, self.layer, x));
            return Err(PE::Proc(x));
        }
        let y = x + self.cfg.tag;
        let r: Res = if self.cfg.nerrs.contains(&x) { Err(y) } else { Ok(y) };
        if self.cfg.grp <= 1 {
            self.push(r);
        } else {
            let mut h = self.held.borrow_mut();
            h.push(r);
            if h.len() == self.cfg.grp {
                for it in h.drain(..).rev() {
                    self.push(it);
                }
            }
        }
        self.sh.ev(format!("{}{}:{}", done, self.layer, x));
        self.notify.notify_one();
        Ok(())
    }

    async fn next(&self) -> Result<Tok, PE> {
        for _ in 0..self.cfg.nd {
            self.sh.tick();
            yield_now().await;
        }
        let r = self.dequeue().await;
        let tagc = if self.role == Role::Second { 'N' } else { 'X' };
        self.sh.ev(format!("{}{}:{}", tagc, self.layer, show_res(&r)));
        match r {
            Ok(y) => Ok(Tok::new(y, self.role == Role::First, self.layer, &self.sh)),
            Err(y) => Err(PE::Next(y)),
        }
    }
}

/// Input source: item i becomes ready after `gaps[i]` polls.
struct Source {
    items: Vec<u64>,
    gaps: Vec<usize>,
    idx: usize,
    countdown: usize,
    sh: Rc<Shared>,
}

impl Stream for Source {
    type Item = Tok;
    fn poll_next(mut self: Pin<&mut Self>, cx: &mut Context<'_>) -> Poll<Option<Tok>> {
        if self.idx >= self.items.len() {
            return Poll::Ready(None);
        }
        if self.countdown > 0 {
            self.countdown -= 1;
            self.sh.tick();
            cx.waker().wake_by_ref();
            return Poll::Pending;
        }
        let x = self.items[self.idx];
        self.idx += 1;
        let i = self.idx;
        self.countdown = if i < self.items.len() && !self.gaps.is_empty() { self.gaps[i % self.gaps.len()] } else { 0 };
        self.sh.ev(format!("P0:q+{}", x));
        Poll::Ready(Some(Tok::new(x, false, 0, &self.sh)))
    }
}

enum Layer {
    S(PCfg),
    C(PCfg, PCfg),
}

fn list<T: std::str::FromStr>(s: &str, sep: char) -> Vec<T>
where
    T::Err: std::fmt::Debug,
{
    if s == "-" || s.is_empty() { Vec::new() } else { s.split(sep).map(|t| t.parse::<T>().expect("num")).collect() }
}

fn pcfg(s: &str) -> PCfg {
    let f: Vec<&str> = s.split(':').collect();
    PCfg {
        tag: f[0].parse().unwrap(),
        grp: f[1].parse().unwrap(),
        nd: f[2].parse().unwrap(),
        perrs: list(f[3], '.'),
        nerrs: list(f[4], '.'),
        pdel: list(f[5], '.'),
        qm: f.get(6).map(|t| t.parse().unwrap()).unwrap_or(0),
        pm: f.get(7).map(|t| t.parse().unwrap()).unwrap_or(0),
    }
}

type OutS = Pin<Box<dyn Stream<Item = String>>>;
type ItemS = Pin<Box<dyn Stream<Item = Tok>>>;

fn conv_single(r: Result<Tok, PE>) -> String {
    match r {
        Ok(y) => format!("q+{}", y.take()),
        Err(PE::Next(y)) => format!("q-{}", y),
        Err(PE::Proc(x)) => format!("a{}", x),
    }
}

fn conv_comp(r: Result<Tok, ComposedError<PE, PE>>) -> String {
    match r {
        Ok(y) => format!("q+{}", y.take()),
        Err(ComposedError::Second(PE::Next(y))) => format!("q-{}", y),
        Err(ComposedError::First(PE::Next(y))) => format!("f{}", y),
        Err(ComposedError::First(PE::Proc(x))) => format!("a{}", x),
        Err(ComposedError::Second(PE::Proc(x))) => format!("b{}", x),
    }
}

const IDLE_LIMIT: usize = 64;

async fn run_case(payload: String, sh: Rc<Shared>) -> String {
    let secs: Vec<&str> = payload.split('|').map(|s| s.trim()).collect();
    let toks: Vec<&str> = secs[0].split_whitespace().collect();
    let mut layers = Vec::new();
    let mut i = 0;
    while i < toks.len() {
        match toks[i] {
            "S" => {
                layers.push(Layer::S(pcfg(toks[i + 1])));
                i += 2;
            }
            "C" => {
                layers.push(Layer::C(pcfg(toks[i + 1]), pcfg(toks[i + 2])));
                i += 3;
            }
            t => panic!("bad layer token {}", t),
        }
    }
    let items: Vec<u64> = list(secs[1], ',');
    let gaps: Vec<usize> = list(secs[2], ',');
    let cgaps: Vec<usize> = list(secs[3], ',');
    let first_gap = if gaps.is_empty() { 0 } else { gaps[0] };
    let src = Source { items, gaps, idx: 0, countdown: first_gap, sh: sh.clone() };
    let mut cur: ItemS = Box::pin(src);
    let n = layers.len();
    let mut top: Option<OutS> = None;
    for (k, l) in layers.into_iter().enumerate() {
        let o: OutS = match l {
            Layer::S(p) => Box::pin(cur.layer(ScriptProc::new(k, Role::Only, p, sh.clone())).map(conv_single)),
            Layer::C(p1, p2) => {
                let a = ScriptProc::new(k, Role::First, p1, sh.clone());
                let b = ScriptProc::new(k, Role::Second, p2, sh.clone());
                if k % 2 == 0 {
                    Box::pin(cur.layer(PipelineBuilder::new().layer(a).layer(b).build()).map(conv_comp))
                } else {
                    Box::pin(cur.layer(ComposedProcessors { first: a, second: b }).map(conv_comp))
                }
            }
        };
        if k + 1 == n {
            top = Some(o);
            cur = Box::pin(futures_util::stream::empty());
        } else {
            let shc = sh.clone();
            // Glue between two layers (as the node pipeline does with `.map`): Ok items go on,
            // everything else leaves the chain here and is recorded.
            cur = Box::pin(o.filter_map(move |s: String| {
                shc.ev(format!("P{}:{}", k + 1, s));
                let r = s.strip_prefix("q+").map(|t| Tok::new(t.parse::<u64>().unwrap(), false, k + 1, &shc));
                std::future::ready(r)
            }));
        }
    }
    let mut top = top.expect("at least one layer");
    // The consumer awaits the outermost stream like any application would (woken only through
    // the wakers the real code registers); the watchdog below only observes activity.
    let shc = sh.clone();
    let consumer = tokio::task::spawn_local(async move {
        let mut got = 0usize;
        while let Some(o) = top.next().await {
            shc.ev(format!("Y:{}", o));
            let c = if cgaps.is_empty() { 0 } else { cgaps[got % cgaps.len()] };
            got += 1;
            for _ in 0..c {
                shc.tick();
                yield_now().await;
            }
        }
    });
    let mut idle = 0usize;
    loop {
        let before = sh.activity.get();
        yield_now().await;
        if sh.activity.get() == before {
            idle += 1;
        } else {
            idle = 0;
        }
        if idle > IDLE_LIMIT {
            break;
        }
    }
    sh.finished.set(true);
    consumer.abort();
    let _ = consumer.await;
    let ev = sh.events.borrow().join(" ");
    let lost = h_common::join(&sh.lost.borrow(), ",");
    format!("{} | {} | idle", ev, lost)
}

fn main() {
    let rt = tokio::runtime::Builder::new_current_thread().enable_all().build().expect("runtime");
    h_common::run_cases(|payload| {
        let sh = Rc::new(Shared::default());
        let local = LocalSet::new();
        let p = payload.to_string();
        rt.block_on(local.run_until(run_case(p, sh)))
    });
}
