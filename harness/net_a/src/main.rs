//! Harness for the p2panda-net properties C26 (wire framing) and C28 (discovery backoff).
mod c26;
mod c28;

fn main() {
    let mode = std::env::args().nth(1).unwrap_or_default();
    match mode.as_str() {
        "c26" => c26::main(),
        "c26ser" => c26::main_ser(),
        "c28" => c28::main(),
        other => panic!("unknown mode {other}"),
    }
}
