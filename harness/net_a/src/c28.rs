use p2panda_net::discovery::verif_c28::Backoff;
use std::time::Duration;
pub fn main() {
    h_common::run_cases(|_payload| {
        let mut b = Backoff::verif_new(None, [1; 32]);
        let mut s = String::new();
        for _ in 0..20 {
            b.increment();
            s.push_str(&format!("{} ", b.verif_value().as_millis()));
        }
        b.verif_shift_clock(Duration::from_secs(200));
        b.increment();
        s.push_str(&format!("| {} {}", b.verif_value().as_millis(), b.verif_reset_after().as_millis()));
        s
    });
}
