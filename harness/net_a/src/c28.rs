//! C28: drive the real discovery `Backoff` (cfg hook: constructor from explicit config + seed,
//! accessors, clock shift).
//!
//! Case payload: `<cfg> <seed> <ops>`
//!   cfg   `default` (`Config::default()`) or `init,min_inc,max_inc,max,min_reset,max_reset` in ms
//!   seed  64 hex digits, the ChaCha20 seed
//!   ops   comma separated, `-` for none:
//!         `I` increment, `R` reset, `A<ms>` let `ms` milliseconds pass,
//!         `D<delta>` let time pass until `delta` ms after (negative: before) the moment the
//!         reset interval is over (no-op if that moment is already behind)
//!
//! Result: `cfg=<the six config values in ms> init=<value>:<reset_after> ops=<value>:<reset_after>;...`
//! (value and reset_after in ms after each op; `-` for no ops), or `PANIC` if the constructor
//! panicked.
//!
//! Time: `Backoff` reads `std::time::Instant`; the hook moves `last_reset_at` back, so the
//! elapsed time the code sees is the nominal one plus the few microseconds the case really takes.
use std::panic::{AssertUnwindSafe, catch_unwind};
use std::time::Duration;

use p2panda_net::discovery::verif_c28::Backoff;

fn snap(b: &Backoff) -> String {
    format!("{}:{}", b.verif_value().as_millis(), b.verif_reset_after().as_millis())
}

pub fn main() {
    h_common::run_cases(|payload| {
        let t: Vec<&str> = payload.split_whitespace().collect();
        let cfg: Option<[u64; 6]> = if t[0] == "default" {
            None
        } else {
            let v: Vec<u64> = t[0].split(',').map(|x| x.parse().expect("cfg")).collect();
            Some([v[0], v[1], v[2], v[3], v[4], v[5]])
        };
        let seed: [u8; 32] = hex::decode(t[1]).expect("seed hex").try_into().expect("32 bytes");
        let ops: Vec<&str> = if t[2] == "-" { vec![] } else { t[2].split(',').collect() };

        let Ok(mut b) = catch_unwind(AssertUnwindSafe(|| Backoff::verif_new(cfg, seed))) else {
            return "PANIC".to_string();
        };
        let c = b.verif_config_ms();
        let init = snap(&b);
        let mut out = Vec::new();
        for op in ops {
            let (k, arg) = op.split_at(1);
            match k {
                "I" => {
                    if catch_unwind(AssertUnwindSafe(|| b.increment())).is_err() {
                        out.push("PANIC".to_string());
                        break;
                    }
                }
                "R" => b.reset(),
                "A" => b.verif_shift_clock(Duration::from_millis(arg.parse().expect("ms"))),
                "D" => {
                    let delta: i64 = arg.parse().expect("delta");
                    let target = b.verif_reset_after().as_millis() as i64 + delta;
                    let cur = b.verif_elapsed().as_millis() as i64;
                    if target > cur {
                        b.verif_shift_clock(Duration::from_millis((target - cur) as u64));
                    }
                }
                other => panic!("unknown op {other}"),
            }
            out.push(snap(&b));
        }
        format!(
            "cfg={} init={} ops={}",
            h_common::join(&c, ","),
            init,
            if out.is_empty() { "-".to_string() } else { out.join(";") }
        )
    });
}
