//! C26: drive the real `p2panda_net::codec::Codec` (tokio-util `Encoder`/`Decoder`) and the real
//! `FramedRead` over it.
//!
//! Case payload: `<kind> <max> <msgs> <stream> <cuts>`
//!   kind   raw | picky | op | tls | ths | huge
//!   max    `max_frame_len` (decimal), or `default` for `Codec::new()` untouched
//!   msgs   comma separated `x<hex>` postcard payloads of the messages to encode, `-` for none
//!          (kind huge: the number n of 65539-byte elements of the one message)
//!   stream `-`: decode what was encoded; `x<hex>`: decode these bytes instead
//!   cuts   comma separated chunk sizes (the remainder is the last chunk), `-` for one chunk
//!
//! Result: `E=<per message: ok | TooLarge:len:max | PANIC> S=<hex of the encode buffer>
//!          D=<items of the manual decode loop> R=<bytes left in the buffer | X after an error>
//!          F=<items the FramedRead stream yields until it ends>`
//! items: `ok:<hex of the decoded message, re-serialised>` | `err:TooLarge:len:max` |
//! `err:Postcard` | `err:Io`, `;` separated, `-` for none.
use std::collections::{BTreeMap, VecDeque};
use std::panic::{AssertUnwindSafe, catch_unwind};
use std::pin::Pin;
use std::task::{Context, Poll};

use futures_util::Stream;
use p2panda_core::{Body, Hash, Header, SigningKey, Topic};
use p2panda_net::codec::{Codec, CodecError};
use p2panda_sync::protocols::{LogSyncMessage, TopicHandshakeMessage, TopicLogSyncMessage};
use serde::de::{DeserializeOwned, SeqAccess, Visitor};
use serde::ser::SerializeTuple;
use serde::{Deserialize, Deserializer, Serialize, Serializer};
use tokio::io::{AsyncRead, ReadBuf};
use tokio_util::bytes::BytesMut;
use tokio_util::codec::{Decoder, Encoder, FramedRead};

/// Transparent message: its postcard serialisation is exactly its bytes (a tuple of u8 without a
/// length), and any payload deserialises (the tuple visitor reads until the input ends). With
/// `PICKY` a payload starting with 0xFF is refused by `Deserialize` (a postcard error).
#[derive(Clone, Debug, PartialEq)]
struct Raw<const PICKY: bool>(Vec<u8>);

impl<const PICKY: bool> Serialize for Raw<PICKY> {
    fn serialize<S: Serializer>(&self, s: S) -> Result<S::Ok, S::Error> {
        let mut t = s.serialize_tuple(self.0.len())?;
        for b in &self.0 {
            t.serialize_element(b)?;
        }
        t.end()
    }
}

impl<'de, const PICKY: bool> Deserialize<'de> for Raw<PICKY> {
    fn deserialize<D: Deserializer<'de>>(d: D) -> Result<Self, D::Error> {
        struct V;
        impl<'de> Visitor<'de> for V {
            type Value = Vec<u8>;
            fn expecting(&self, f: &mut std::fmt::Formatter) -> std::fmt::Result {
                f.write_str("bytes until the end of the input")
            }
            fn visit_seq<A: SeqAccess<'de>>(self, mut seq: A) -> Result<Vec<u8>, A::Error> {
                let mut v = Vec::new();
                while let Ok(Some(b)) = seq.next_element::<u8>() {
                    v.push(b);
                }
                Ok(v)
            }
        }
        let v = d.deserialize_tuple(usize::MAX, V)?;
        if PICKY && v.first() == Some(&0xFF) {
            return Err(serde::de::Error::custom("picky"));
        }
        Ok(Raw(v))
    }
}

/// A message whose serialisation is `n * 65539` bytes without ever allocating them: a tuple of
/// `n` byte strings of 65536 zero bytes (3 bytes varint length each).
struct Huge(u64);

static ZEROS: [u8; 65536] = [0u8; 65536];

impl Serialize for Huge {
    fn serialize<S: Serializer>(&self, s: S) -> Result<S::Ok, S::Error> {
        struct Chunk;
        impl Serialize for Chunk {
            fn serialize<S: Serializer>(&self, s: S) -> Result<S::Ok, S::Error> {
                s.serialize_bytes(&ZEROS)
            }
        }
        let mut t = s.serialize_tuple(self.0 as usize)?;
        for _ in 0..self.0 {
            t.serialize_element(&Chunk)?;
        }
        t.end()
    }
}

/// How a message of the case is built from its postcard payload.
trait FromPayload: Sized {
    fn from_payload(p: &[u8]) -> Option<Self>;
}

impl<const PICKY: bool> FromPayload for Raw<PICKY> {
    fn from_payload(p: &[u8]) -> Option<Self> {
        Some(Raw(p.to_vec()))
    }
}

type Op = (Header<u64>, Option<Body>);
type Tls = TopicLogSyncMessage<u64, u64>;
type Ths = TopicHandshakeMessage<Topic>;

macro_rules! real_from_payload {
    ($t:ty) => {
        impl FromPayload for $t {
            fn from_payload(p: &[u8]) -> Option<Self> {
                let m: $t = postcard::from_bytes(p).ok()?;
                // the payload must be this message's own serialisation
                if postcard::to_allocvec(&m).ok()?.as_slice() != p {
                    return None;
                }
                Some(m)
            }
        }
    };
}
real_from_payload!(Op);
real_from_payload!(Tls);
real_from_payload!(Ths);

fn show_err(e: &CodecError) -> String {
    match e {
        CodecError::TooLargeMessage(l, m) => format!("TooLarge:{l}:{m}"),
        CodecError::Postcard(_) => "Postcard".to_string(),
        CodecError::Io(_) => "Io".to_string(),
    }
}

fn show_items(v: &[String]) -> String {
    if v.is_empty() { "-".to_string() } else { v.join(";") }
}

fn item<M: Serialize>(r: Result<M, CodecError>) -> String {
    match r {
        Ok(m) => format!("ok:{}", hex::encode(postcard::to_allocvec(&m).expect("serialisable"))),
        Err(e) => format!("err:{}", show_err(&e)),
    }
}

/// A reader that hands out the given chunks, one per read (split further only if the caller's
/// buffer is smaller than the chunk), then end of input.
struct ChunkReader {
    chunks: VecDeque<Vec<u8>>,
}

impl AsyncRead for ChunkReader {
    fn poll_read(mut self: Pin<&mut Self>, _cx: &mut Context<'_>, buf: &mut ReadBuf<'_>) -> Poll<std::io::Result<()>> {
        while let Some(front) = self.chunks.front_mut() {
            if front.is_empty() {
                self.chunks.pop_front();
                continue;
            }
            let n = front.len().min(buf.remaining());
            buf.put_slice(&front[..n]);
            front.drain(..n);
            if front.is_empty() {
                self.chunks.pop_front();
            }
            return Poll::Ready(Ok(()));
        }
        Poll::Ready(Ok(()))
    }
}

fn new_codec<M>(max: Option<usize>) -> Codec<M> {
    match max {
        Some(m) => Codec::<M>::new().max_frame_len(m),
        None => Codec::<M>::new(),
    }
}

fn split(stream: &[u8], cuts: &[usize]) -> Vec<Vec<u8>> {
    let mut out = Vec::new();
    let mut rest = stream;
    for c in cuts {
        let n = (*c).min(rest.len());
        out.push(rest[..n].to_vec());
        rest = &rest[n..];
    }
    out.push(rest.to_vec());
    out
}

fn run<M>(max: Option<usize>, payloads: &[Vec<u8>], stream: Option<Vec<u8>>, cuts: &[usize]) -> String
where
    M: Serialize + DeserializeOwned + FromPayload + Unpin,
{
    // encode
    let mut codec = new_codec::<M>(max);
    let mut buf = BytesMut::new();
    let mut enc = Vec::new();
    for p in payloads {
        let Some(m) = M::from_payload(p) else {
            return "BADPAYLOAD".to_string();
        };
        let before = buf.len();
        let r = catch_unwind(AssertUnwindSafe(|| codec.encode(m, &mut buf)));
        enc.push(match r {
            Ok(Ok(())) => "ok".to_string(),
            Ok(Err(e)) => {
                if buf.len() != before {
                    return "ENCODE-ERROR-WROTE-BYTES".to_string();
                }
                show_err(&e)
            }
            Err(_) => "PANIC".to_string(),
        });
    }
    let encoded = buf.to_vec();
    let stream = stream.unwrap_or_else(|| encoded.clone());
    let chunks = split(&stream, cuts);

    // decode: the loop every `Decoder` user runs (decode until `None`, then wait for more bytes)
    let mut codec = new_codec::<M>(max);
    let mut buf = BytesMut::new();
    let mut items = Vec::new();
    let mut errored = false;
    'outer: for c in &chunks {
        buf.extend_from_slice(c);
        loop {
            let before = buf.len();
            match codec.decode(&mut buf) {
                Ok(Some(m)) => {
                    items.push(item(Ok(m)));
                    // every frame consumes at least its prefix; more items than bytes means the
                    // decoder does not advance
                    if items.len() > stream.len() + 8 {
                        items.push("RUNAWAY".to_string());
                        errored = true;
                        break 'outer;
                    }
                }
                Ok(None) => {
                    if buf.len() != before {
                        return "DECODE-NONE-CONSUMED-BYTES".to_string();
                    }
                    break;
                }
                Err(e) => {
                    items.push(item::<M>(Err(e)));
                    errored = true;
                    break 'outer;
                }
            }
        }
    }
    let resid = if errored { "X".to_string() } else { buf.len().to_string() };

    // decode: the real FramedRead over a reader delivering the same chunks
    let reader = ChunkReader { chunks: chunks.iter().cloned().collect() };
    let mut framed = FramedRead::new(reader, new_codec::<M>(max));
    let waker = futures_util::task::noop_waker();
    let mut cx = Context::from_waker(&waker);
    let mut fitems = Vec::new();
    loop {
        match Pin::new(&mut framed).poll_next(&mut cx) {
            Poll::Ready(Some(r)) => fitems.push(item(r)),
            Poll::Ready(None) => break,
            Poll::Pending => {
                fitems.push("PENDING".to_string());
                break;
            }
        }
        if fitems.len() > stream.len() + 8 {
            fitems.push("RUNAWAY".to_string());
            break;
        }
    }

    format!(
        "E={} S={} D={} R={} F={}",
        show_items(&enc),
        hex::encode(&encoded),
        show_items(&items),
        resid,
        show_items(&fitems)
    )
}

fn run_huge(max: Option<usize>, n: u64) -> String {
    // never let an accepted 4 GiB message be written for real
    if n * 65539 <= u32::MAX as u64 {
        return "REFUSED-BY-HARNESS".to_string();
    }
    let mut codec = new_codec::<Huge>(max);
    let mut buf = BytesMut::new();
    let r = catch_unwind(AssertUnwindSafe(|| codec.encode(Huge(n), &mut buf)));
    let e = match r {
        Ok(Ok(())) => "ok".to_string(),
        Ok(Err(e)) => show_err(&e),
        Err(_) => "PANIC".to_string(),
    };
    format!("E={} L={}", e, buf.len())
}

fn unhex(t: &str) -> Vec<u8> {
    hex::decode(t.strip_prefix('x').expect("x<hex>")).expect("hex")
}

pub fn main() {
    h_common::run_cases(|payload| {
        let t: Vec<&str> = payload.split_whitespace().collect();
        let kind = t[0];
        let max = if t[1] == "default" { None } else { Some(t[1].parse::<usize>().expect("max")) };
        if kind == "huge" {
            return run_huge(max, t[2].parse().expect("n"));
        }
        let msgs: Vec<Vec<u8>> = if t[2] == "-" { vec![] } else { t[2].split(',').map(unhex).collect() };
        let stream = if t[3] == "-" { None } else { Some(unhex(t[3])) };
        let cuts: Vec<usize> = if t[4] == "-" { vec![] } else { t[4].split(',').map(|c| c.parse().expect("cut")).collect() };
        match kind {
            "raw" => run::<Raw<false>>(max, &msgs, stream, &cuts),
            "picky" => run::<Raw<true>>(max, &msgs, stream, &cuts),
            "op" => run::<Op>(max, &msgs, stream, &cuts),
            "tls" => run::<Tls>(max, &msgs, stream, &cuts),
            "ths" => run::<Ths>(max, &msgs, stream, &cuts),
            other => panic!("unknown kind {other}"),
        }
    });
}

// ------------------------------------------------------------------------------------------------
// `c26ser`: deterministic real messages -> their postcard payloads (used by the case generator;
// postcard itself is outside the property, the payload is opaque to the model).
// Line: `<kind> <seed> <variant> <size>`; result: `x<hex>`.
// ------------------------------------------------------------------------------------------------

fn key(seed: u64) -> SigningKey {
    let mut b = [0u8; 32];
    b[..8].copy_from_slice(&seed.to_le_bytes());
    b[8] = 0x5a;
    SigningKey::from_bytes(&b)
}

fn body(seed: u64, size: usize) -> Vec<u8> {
    (0..size).map(|i| (seed as usize).wrapping_mul(31).wrapping_add(i * 7) as u8).collect()
}

fn operation(seed: u64, variant: u64, size: usize) -> Op {
    let sk = key(seed);
    let b = Body::new(&body(seed, size));
    let mut header = Header::<u64> {
        version: 1,
        verifying_key: sk.verifying_key(),
        signature: None,
        payload_size: b.size(),
        payload_hash: if size == 0 { None } else { Some(b.hash()) },
        seq_num: variant as u32,
        backlink: if variant == 0 { None } else { Some(Hash::digest(seed.to_le_bytes())) },
        extensions: seed.wrapping_mul(0x9e37_79b9_7f4a_7c15),
    };
    header.sign(&sk);
    (header, if size == 0 { None } else { Some(b) })
}

fn tls(seed: u64, variant: u64, size: usize) -> Tls {
    match variant % 6 {
        0 => {
            let mut have = BTreeMap::new();
            for a in 0..(size % 5) as u64 {
                let mut logs = BTreeMap::new();
                for l in 0..=(a % 3) {
                    logs.insert(seed.wrapping_add(l), (seed as u32).wrapping_mul(l as u32 + 1));
                }
                have.insert(key(seed.wrapping_add(a)).verifying_key(), logs);
            }
            TopicLogSyncMessage::Sync(LogSyncMessage::Have(have))
        }
        1 => TopicLogSyncMessage::Sync(LogSyncMessage::PreSync {
            total_operations: size as u32,
            total_bytes: (seed as u32).wrapping_mul(977),
        }),
        2 => {
            let (h, b) = operation(seed, variant, size);
            TopicLogSyncMessage::Sync(LogSyncMessage::Operation(h.to_bytes(), b.map(|b| b.to_bytes())))
        }
        3 => TopicLogSyncMessage::Sync(LogSyncMessage::Done),
        4 => {
            let (h, b) = operation(seed, variant, size);
            TopicLogSyncMessage::Live(h, b)
        }
        _ => TopicLogSyncMessage::Close,
    }
}

fn ths(seed: u64, variant: u64) -> Ths {
    if variant % 2 == 0 {
        let mut t = [0u8; 32];
        for (i, x) in t.iter_mut().enumerate() {
            *x = (seed as u8).wrapping_mul(13).wrapping_add(i as u8);
        }
        TopicHandshakeMessage::Topic(Topic::from(t))
    } else {
        TopicHandshakeMessage::Done
    }
}

pub fn main_ser() {
    h_common::run_cases(|payload| {
        let t: Vec<&str> = payload.split_whitespace().collect();
        let seed: u64 = t[1].parse().expect("seed");
        let variant: u64 = t[2].parse().expect("variant");
        let size: usize = t[3].parse().expect("size");
        let bytes = match t[0] {
            "op" => postcard::to_allocvec(&operation(seed, variant, size)),
            "tls" => postcard::to_allocvec(&tls(seed, variant, size)),
            "ths" => postcard::to_allocvec(&ths(seed, variant)),
            other => panic!("unknown kind {other}"),
        }
        .expect("serialisable");
        format!("x{}", hex::encode(bytes))
    });
}
