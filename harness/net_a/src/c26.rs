pub fn main() {
    use p2panda_net::codec::Codec;
    use tokio_util::bytes::BytesMut;
    use tokio_util::codec::{Decoder, Encoder};
    h_common::run_cases(|payload| {
        let mut c = Codec::<Vec<u8>>::new().max_frame_len(8);
        let mut b = BytesMut::new();
        let r = c.encode(payload.as_bytes().to_vec(), &mut b);
        let d = c.decode(&mut b);
        format!("{:?} {:?} {:?}", r, b, d)
    });
}
pub fn main_ser() {}
