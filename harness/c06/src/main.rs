//! C06: drive the real `p2panda_core::logs::compare` and `Cursor::compare`.
//!
//! Case payload: `<L entries> | <R entries>` where an entry is `a/l=h` (author index, log id,
//! height) or `a/` (author present with an empty inner map).
//! Result: `<diff of logs::compare(&L,&R)> | <diff of Cursor::new("c", R).compare(&L)>`, a diff
//! being `a/l=from,until` per range (`-` for None) in ascending (author index, log id) order and
//! `a/` for an author whose inner map is empty.
//!
//! Authors are real `VerifyingKey`s (deterministically derived from the index) so that the key
//! type's own `Ord`/`Eq` is what the BTreeMaps use; the output maps them back to their index.
use std::collections::{BTreeMap, HashMap};

use p2panda_core::logs::{LogHeights, LogRanges, compare};
use p2panda_core::{Cursor, SigningKey, VerifyingKey};

struct Keys {
    by_idx: Vec<VerifyingKey>,
    idx_of: HashMap<VerifyingKey, u64>,
}

impl Keys {
    fn new() -> Self {
        Keys { by_idx: Vec::new(), idx_of: HashMap::new() }
    }

    fn get(&mut self, i: u64) -> VerifyingKey {
        while (self.by_idx.len() as u64) <= i {
            let n = self.by_idx.len() as u64;
            let mut seed = [0u8; 32];
            seed[..8].copy_from_slice(&n.to_le_bytes());
            seed[31] = 0x5a;
            let vk = SigningKey::from_bytes(&seed).verifying_key();
            self.idx_of.insert(vk, n);
            self.by_idx.push(vk);
        }
        self.by_idx[i as usize]
    }
}

fn parse_heights(keys: &mut Keys, s: &str) -> LogHeights<VerifyingKey, u64> {
    let mut m: LogHeights<VerifyingKey, u64> = BTreeMap::new();
    for tok in s.split_whitespace() {
        let (a, rest) = tok.split_once('/').expect("a/..");
        let a: u64 = a.parse().expect("author");
        let inner = m.entry(keys.get(a)).or_default();
        if rest.is_empty() {
            continue;
        }
        let (l, h) = rest.split_once('=').expect("l=h");
        let dup = inner.insert(l.parse().expect("log"), h.parse().expect("height"));
        assert!(dup.is_none(), "duplicate key in scenario");
    }
    m
}

fn opt(v: &Option<u32>) -> String {
    match v {
        Some(x) => x.to_string(),
        None => "-".to_string(),
    }
}

fn show(keys: &Keys, d: &LogRanges<VerifyingKey, u64>) -> String {
    let mut by_idx: Vec<(u64, &BTreeMap<u64, (Option<u32>, Option<u32>)>)> =
        d.iter().map(|(k, v)| (keys.idx_of[k], v)).collect();
    by_idx.sort_by_key(|(i, _)| *i);
    let mut out: Vec<String> = Vec::new();
    for (a, inner) in by_idx {
        if inner.is_empty() {
            out.push(format!("{}/", a));
        }
        for (l, (f, u)) in inner {
            out.push(format!("{}/{}={},{}", a, l, opt(f), opt(u)));
        }
    }
    out.join(" ")
}

fn main() {
    let mut keys = Keys::new();
    h_common::run_cases(|payload| {
        let (ls, rs) = payload.split_once('|').expect("L | R");
        let local = parse_heights(&mut keys, ls);
        let remote = parse_heights(&mut keys, rs);
        let d = compare(&local, &remote);
        let cursor = Cursor::new("c", remote.clone());
        let dc = cursor.compare(&local);
        format!("{} | {}", show(&keys, &d), show(&keys, &dc))
    });
}
