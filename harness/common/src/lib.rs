//! Shared glue for the verification harness binaries: line protocol and small helpers.
//!
//! Protocol: stdin carries one case per line, `<idx> <payload>`; for each the binary prints
//! `<idx> <canonical result>` on stdout. A panic inside a case is caught and reported as
//! `<idx> PANIC <message>` so that "never panics" properties see it as an observation.
use std::io::{BufRead, Write};
use std::panic::{AssertUnwindSafe, catch_unwind};

pub fn run_cases<F: FnMut(&str) -> String>(mut f: F) {
    std::panic::set_hook(Box::new(|_| {}));
    let stdin = std::io::stdin();
    let stdout = std::io::stdout();
    let mut out = stdout.lock();
    for line in stdin.lock().lines() {
        let line = line.expect("stdin");
        let line = line.trim();
        if line.is_empty() {
            continue;
        }
        let (idx, payload) = match line.split_once(' ') {
            Some((a, b)) => (a, b),
            None => (line, ""),
        };
        let res = match catch_unwind(AssertUnwindSafe(|| f(payload))) {
            Ok(s) => s,
            Err(e) => {
                let msg = if let Some(s) = e.downcast_ref::<&str>() {
                    s.to_string()
                } else if let Some(s) = e.downcast_ref::<String>() {
                    s.clone()
                } else {
                    "?".to_string()
                };
                format!("PANIC {}", msg.replace('\n', " "))
            }
        };
        writeln!(out, "{} {}", idx, res).unwrap();
        out.flush().unwrap();
    }
}

pub fn nums(s: &str) -> Vec<u64> {
    s.split_whitespace().map(|t| t.parse::<u64>().expect("number")).collect()
}

pub fn join<T: ToString>(v: &[T], sep: &str) -> String {
    v.iter().map(|x| x.to_string()).collect::<Vec<_>>().join(sep)
}
