use tokio::runtime::Runtime;
pub fn case(_rt: &Runtime, _payload: &str) -> String { "TODO".into() }
