//! C09: drive the real `SqliteStore` as `OperationStore`, `TopicStore` and `CursorStore` with one
//! interleaved command list (the three stores share the database).
//!
//! Payload: `O<a>,<s>,<p>,<b>,<signed 0/1> ... | <cmd> ...`  (operation table as in C08, plus a flag
//! whether the header carries a signature).
//!   operations: `I<k>,<l>` insert_operation (id = hash of op k) -> `1`/`0`
//!               `G<k>` get_operation / `g<k>` get_operation_tx  -> `-` | `<k>.<b>` with b = `n` (no
//!                    body) or `y` (body equal to the inserted one); `!` appended on any mismatch
//!                    of id, header or body
//!               `A<k>` has_operation / `a<k>` has_operation_tx -> `1`/`0`
//!               `D<k>` delete_operation -> `1`/`0`;  `X<k>` delete_operation_payload -> `1`/`0`
//!   topics:     `t<T>,<a>,<l>` associate -> `1`/`0`;  `r<T>,<a>,<l>` remove -> `1`/`0`
//!               `R<T>` resolve -> `-` (empty map) | `<a>:<l>.<l>;<a>:<l>` (authors ascending by index,
//!                    each author's logs ascending, duplicates kept visible)
//!   cursors:    `s<n>,<v>` set_cursor -> `u`;  `c<n>` get_cursor -> `-` | `<v>` (`?` if the state read
//!                    back is none of the values written in this case or the name differs)
//!               `d<n>` delete_cursor -> `u`
//!   any `Err` -> `ERR`, a panic inside one call -> `PANIC`.
//! Cursor names: index into [`NAMES`] (includes the empty string, case variants, trailing space,
//! quotes and non-ASCII); cursor value v: a `LogHeights` map derived from v by [`cursor_state`].
use std::collections::BTreeMap;
use std::panic::{AssertUnwindSafe, catch_unwind};

use p2panda_core::logs::LogHeights;
use p2panda_core::{Cursor, Hash, Operation, SigningKey, Topic, VerifyingKey};
use p2panda_store::SqliteStore;
use p2panda_store::Transaction;
use p2panda_store::cursors::CursorStore;
use p2panda_store::operations::OperationStore;
use p2panda_store::topics::TopicStore;
use tokio::runtime::Runtime;

type Op = Operation<()>;

const NAMES: [&str; 7] = ["test", "", "TEST", "test ", "it's \"quoted\"; --", "Ünï-çødé ✓", "test2"];

fn key(a: u64) -> SigningKey {
    let mut b = [7u8; 32];
    b[0] = a as u8;
    SigningKey::from_bytes(&b)
}

fn topic(t: u64) -> Topic {
    let mut b = [0u8; 32];
    b[0] = t as u8;
    b[31] = (t >> 8) as u8;
    Topic::from(b)
}

/// v = 0 is the empty state; otherwise up to three (author, log, height) entries derived from v.
fn cursor_state(v: u64) -> LogHeights<VerifyingKey, u64> {
    let mut m: LogHeights<VerifyingKey, u64> = BTreeMap::new();
    if v == 0 {
        return m;
    }
    for i in 0..(1 + v % 3) {
        m.entry(key((v + i) % 3).verifying_key())
            .or_default()
            .insert((v / 3 + i) % 4, (v.wrapping_mul(2654435761) >> (i * 8)) as u32);
    }
    m
}

fn guarded<T, E>(rt: &Runtime, fut: impl Future<Output = Result<T, E>>, show: impl FnOnce(T) -> String) -> String {
    match catch_unwind(AssertUnwindSafe(|| rt.block_on(fut))) {
        Ok(Ok(v)) => show(v),
        Ok(Err(_)) => "ERR".to_string(),
        Err(_) => "PANIC".to_string(),
    }
}

fn b01(b: bool) -> String {
    if b { "1".into() } else { "0".into() }
}

macro_rules! in_tx {
    ($store:expr, $call:expr) => {
        async {
            let permit = $store.begin().await?;
            let r = $call.await;
            $store.commit(permit).await?;
            r
        }
    };
}

pub fn case(rt: &Runtime, payload: &str) -> String {
    let (optab, cmds) = payload.split_once('|').expect("payload");
    let mut ops: Vec<Op> = Vec::new();
    for (k, t) in optab.split_whitespace().enumerate() {
        let f: Vec<&str> = t[1..].split(',').collect();
        let body = if f[3] == "-" { None } else { Some(f[3].parse().unwrap()) };
        let mut op = crate::c08::build_op(k, f[0].parse().unwrap(), f[1].parse().unwrap(), f[2].parse().unwrap(), body);
        if f[4] == "0" {
            // an unsigned header (its hash differs from the signed one's)
            op.header.signature = None;
            op.hash = op.header.hash();
        }
        ops.push(op);
    }
    let mut index: BTreeMap<Hash, usize> = BTreeMap::new();
    for (k, o) in ops.iter().enumerate() {
        assert!(index.insert(o.hash, k).is_none(), "op table has two identical operations");
    }
    let authors: BTreeMap<VerifyingKey, u64> = (0..8u64).map(|a| (key(a).verifying_key(), a)).collect();
    let mut written: Vec<u64> = Vec::new();
    let store = rt.block_on(SqliteStore::temporary());
    let st = &store;

    let show_op = |k: usize, r: Option<Op>| -> String {
        match r {
            None => "-".to_string(),
            Some(o) => {
                let same_id = o.hash == ops[k].hash;
                let same_header = o.header == ops[k].header && o.header.to_bytes() == ops[k].header.to_bytes();
                let (b, same_body) = match (&o.body, &ops[k].body) {
                    (None, _) => ("n", true),
                    (Some(x), Some(y)) => ("y", x == y),
                    (Some(_), None) => ("y", false),
                };
                let kk = index.get(&o.hash).copied().unwrap_or(usize::MAX);
                format!("{}.{}{}", if kk == usize::MAX { "?".to_string() } else { kk.to_string() }, b,
                        if same_id && same_header && same_body { "" } else { "!" })
            }
        }
    };

    let mut out: Vec<String> = Vec::new();
    for it in cmds.split_whitespace() {
        let (c, rest) = it.split_at(1);
        let f: Vec<u64> = rest.split(',').filter(|t| !t.is_empty()).map(|t| t.parse().expect("num")).collect();
        let r = match c {
            "I" => {
                let op = &ops[f[0] as usize];
                let l = f[1];
                guarded(rt, in_tx!(st, st.insert_operation(&op.hash, op, &l)), b01)
            }
            "G" => {
                let k = f[0] as usize;
                guarded(rt, <SqliteStore as OperationStore<Op, Hash>>::get_operation(st, &ops[k].hash), |r| show_op(k, r))
            }
            "g" => {
                let k = f[0] as usize;
                guarded(rt, in_tx!(st, <SqliteStore as OperationStore<Op, Hash>>::get_operation_tx(st, &ops[k].hash)), |r| show_op(k, r))
            }
            "A" => guarded(rt, <SqliteStore as OperationStore<Op, Hash>>::has_operation(st, &ops[f[0] as usize].hash), b01),
            "a" => guarded(rt, in_tx!(st, <SqliteStore as OperationStore<Op, Hash>>::has_operation_tx(st, &ops[f[0] as usize].hash)), b01),
            "D" => guarded(rt, in_tx!(st, <SqliteStore as OperationStore<Op, Hash>>::delete_operation(st, &ops[f[0] as usize].hash)), b01),
            "X" => guarded(rt, <SqliteStore as OperationStore<Op, Hash>>::delete_operation_payload(st, &ops[f[0] as usize].hash), b01),
            "t" => {
                let (t, a, l) = (topic(f[0]), key(f[1]).verifying_key(), f[2]);
                guarded(rt, in_tx!(st, <SqliteStore as TopicStore<Topic, VerifyingKey, u64>>::associate(st, &t, &a, &l)), b01)
            }
            "r" => {
                let (t, a, l) = (topic(f[0]), key(f[1]).verifying_key(), f[2]);
                guarded(rt, in_tx!(st, <SqliteStore as TopicStore<Topic, VerifyingKey, u64>>::remove(st, &t, &a, &l)), b01)
            }
            "R" => {
                let t = topic(f[0]);
                guarded(rt, <SqliteStore as TopicStore<Topic, VerifyingKey, u64>>::resolve(st, &t), |m: BTreeMap<VerifyingKey, Vec<u64>>| {
                    if m.is_empty() {
                        return "-".to_string();
                    }
                    let mut v: Vec<(u64, Vec<u64>)> = m
                        .into_iter()
                        .map(|(k, mut ls)| {
                            ls.sort();
                            (authors.get(&k).copied().unwrap_or(99), ls)
                        })
                        .collect();
                    v.sort();
                    v.iter().map(|(a, ls)| format!("{}:{}", a, h_common::join(ls, "."))).collect::<Vec<_>>().join(";")
                })
            }
            "s" => {
                let cur = Cursor::<VerifyingKey, u64>::new(NAMES[f[0] as usize], cursor_state(f[1]));
                written.push(f[1]);
                guarded(rt, in_tx!(st, st.set_cursor(&cur)), |_| "u".to_string())
            }
            "c" => {
                let name = NAMES[f[0] as usize];
                guarded(rt, <SqliteStore as CursorStore<VerifyingKey, u64>>::get_cursor(st, name), |r| match r {
                    None => "-".to_string(),
                    Some(cur) => {
                        let v = written.iter().rev().find(|v| &cursor_state(**v) == cur.state());
                        match v {
                            Some(v) if cur.name() == name => v.to_string(),
                            _ => "?".to_string(),
                        }
                    }
                })
            }
            "d" => {
                let name = NAMES[f[0] as usize];
                guarded(rt, in_tx!(st, <SqliteStore as CursorStore<VerifyingKey, u64>>::delete_cursor(st, name)), |_| "u".to_string())
            }
            _ => panic!("unknown command {it}"),
        };
        out.push(r);
    }
    rt.block_on(store.pool().close());
    out.join(" ")
}
