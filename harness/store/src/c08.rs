//! C08: drive the real `SqliteStore` as `LogStore` + `OperationStore` with a command/query list.
//!
//! Payload: `O<a>,<s>,<p>,<b> ... | <item> ...`
//!   op table entry k (0-based, in order): author index a, seq_num s, claimed payload_size p,
//!   body `-` (none) or its length.  Headers are signed, `payload_hash` present iff p > 0 (derived
//!   from k, so distinct entries have distinct hashes), `backlink` present iff s > 0.
//!   items:  `I<k>,<l>` insert op k under log l      -> `1`/`0`
//!           `D<k>` delete_operation                 -> `1`/`0`
//!           `X<k>` delete_operation_payload         -> `1`/`0`
//!           `P<a>,<l>,<u>` prune_entries            -> number of rows
//!           `L<a>,<l>` get_latest_entry             -> `-` | `<k>.<seq>.<body 0/1>`
//!           `T<a>,<l>` get_latest_entry_tx          -> same
//!           `H<a>,<l1>.<l2>...` get_log_heights (`H<a>,` = empty list) -> `-` | `<l>:<s>,...`
//!           `E<a>,<l>,<after>,<until>` get_log_entries (`-` = None) -> `-` | `<k>.<body>,...`
//!           `S<a>,<l>,<after>,<until>` get_log_size -> `-` | `<count>:<bytes>`
//!   any `Err` -> `ERR`, a panic inside one call -> `PANIC`.
//! Result line: `h=<header byte size of every op, comma separated> | <one token per item>`.
//! Entries with equal seq_num (forks; SQL leaves their order open) are listed by ascending k.
use std::collections::BTreeMap;
use std::panic::{AssertUnwindSafe, catch_unwind};

use p2panda_core::{Body, Hash, Header, Operation, SigningKey, VerifyingKey};
use p2panda_store::SqliteStore;
use p2panda_store::Transaction;
use p2panda_store::logs::LogStore;
use p2panda_store::operations::OperationStore;
use tokio::runtime::Runtime;

type Op = Operation<()>;

fn key(a: u64) -> SigningKey {
    let mut b = [7u8; 32];
    b[0] = a as u8;
    SigningKey::from_bytes(&b)
}

fn opt(s: &str) -> Option<u32> {
    if s == "-" { None } else { Some(s.parse().expect("seq")) }
}

fn nums(s: &str, sep: char) -> Vec<u64> {
    s.split(sep).filter(|t| !t.is_empty()).map(|t| t.parse().expect("num")).collect()
}

pub fn build_op(k: usize, a: u64, s: u32, p: u32, body: Option<usize>) -> Op {
    let sk = key(a);
    let mut header = Header::<()> {
        version: 1,
        verifying_key: sk.verifying_key(),
        signature: None,
        payload_size: p,
        payload_hash: if p > 0 { Some(Hash::digest(format!("payload {k}"))) } else { None },
        seq_num: s,
        backlink: if s > 0 { Some(Hash::digest(format!("backlink {a} {s}"))) } else { None },
        extensions: (),
    };
    header.sign(&sk);
    Operation {
        hash: header.hash(),
        header,
        body: body.map(|n| Body::new(&vec![k as u8; n])),
    }
}

/// Run one store call; a panic inside it becomes `PANIC`, an error `ERR`.
fn guarded<T, E>(rt: &Runtime, fut: impl Future<Output = Result<T, E>>, show: impl FnOnce(T) -> String) -> String {
    match catch_unwind(AssertUnwindSafe(|| rt.block_on(fut))) {
        Ok(Ok(v)) => show(v),
        Ok(Err(_)) => "ERR".to_string(),
        Err(_) => "PANIC".to_string(),
    }
}

fn b01(b: bool) -> String {
    if b { "1".into() } else { "0".into() }
}

pub fn case(rt: &Runtime, payload: &str) -> String {
    let (optab, items) = payload.split_once('|').expect("payload");
    let mut ops: Vec<Op> = Vec::new();
    for (k, t) in optab.split_whitespace().enumerate() {
        let f: Vec<&str> = t[1..].split(',').collect();
        let body = if f[3] == "-" { None } else { Some(f[3].parse().unwrap()) };
        ops.push(build_op(k, f[0].parse().unwrap(), f[1].parse().unwrap(), f[2].parse().unwrap(), body));
    }
    let mut index: BTreeMap<Hash, usize> = BTreeMap::new();
    for (k, o) in ops.iter().enumerate() {
        assert!(index.insert(o.hash, k).is_none(), "op table has two identical operations");
    }
    let store = rt.block_on(SqliteStore::temporary());
    let vk = |a: u64| -> VerifyingKey { key(a).verifying_key() };

    // An entry read back must be the inserted one: same id, same header bytes; `!` marks a
    // mismatch (the model never predicts it).
    let show_entry = |o: &Op, raw: Option<&[u8]>| -> (u32, usize, String) {
        let Some(&k) = index.get(&o.hash) else {
            return (o.header.seq_num, usize::MAX, "?".to_string());
        };
        let same = ops[k].header == o.header
            && raw.map(|r| r == ops[k].header.to_bytes().as_slice()).unwrap_or(true)
            && match (&o.body, &ops[k].body) {
                (Some(x), Some(y)) => x == y,
                (Some(_), None) => false,
                (None, _) => true,
            };
        (o.header.seq_num, k, format!("{}{}", k, if same { "" } else { "!" }))
    };

    let mut out: Vec<String> = Vec::new();
    for it in items.split_whitespace() {
        let (c, rest) = it.split_at(1);
        let f: Vec<&str> = rest.split(',').collect();
        let r = match c {
            "I" => {
                let k: usize = f[0].parse().unwrap();
                let l: u64 = f[1].parse().unwrap();
                let op = &ops[k];
                guarded(
                    rt,
                    async {
                        let permit = store.begin().await?;
                        let r = store.insert_operation(&op.hash, op, &l).await;
                        store.commit(permit).await?;
                        r
                    },
                    b01,
                )
            }
            "D" => {
                let k: usize = f[0].parse().unwrap();
                let id = ops[k].hash;
                guarded(
                    rt,
                    async {
                        let permit = store.begin().await?;
                        let r = <SqliteStore as OperationStore<Op, Hash>>::delete_operation(&store, &id).await;
                        store.commit(permit).await?;
                        r
                    },
                    b01,
                )
            }
            "X" => {
                let k: usize = f[0].parse().unwrap();
                let id = ops[k].hash;
                guarded(rt, <SqliteStore as OperationStore<Op, Hash>>::delete_operation_payload(&store, &id), b01)
            }
            "P" => {
                let (a, l, u): (u64, u64, u32) = (f[0].parse().unwrap(), f[1].parse().unwrap(), f[2].parse().unwrap());
                guarded(
                    rt,
                    <SqliteStore as LogStore<Op, VerifyingKey, u64, u32, Hash>>::prune_entries(&store, &vk(a), &l, &u),
                    |n| n.to_string(),
                )
            }
            "L" | "T" => {
                let (a, l): (u64, u64) = (f[0].parse().unwrap(), f[1].parse().unwrap());
                let show = |r: Option<Op>| match r {
                    None => "-".to_string(),
                    Some(o) => {
                        let (s, _, t) = show_entry(&o, None);
                        format!("{}.{}.{}", t, s, b01(o.body.is_some()))
                    }
                };
                if c == "L" {
                    guarded(rt, <SqliteStore as LogStore<Op, VerifyingKey, u64, u32, Hash>>::get_latest_entry(&store, &vk(a), &l), show)
                } else {
                    guarded(
                        rt,
                        async {
                            let permit = store.begin().await?;
                            let r = <SqliteStore as LogStore<Op, VerifyingKey, u64, u32, Hash>>::get_latest_entry_tx(&store, &vk(a), &l).await;
                            store.commit(permit).await?;
                            r
                        },
                        show,
                    )
                }
            }
            "H" => {
                let a: u64 = f[0].parse().unwrap();
                let logs = nums(f.get(1).copied().unwrap_or(""), '.');
                guarded(
                    rt,
                    <SqliteStore as LogStore<Op, VerifyingKey, u64, u32, Hash>>::get_log_heights(&store, &vk(a), &logs),
                    |r| match r {
                        None => "-".to_string(),
                        Some(m) => m.iter().map(|(l, s)| format!("{l}:{s}")).collect::<Vec<_>>().join(","),
                    },
                )
            }
            "E" => {
                let (a, l): (u64, u64) = (f[0].parse().unwrap(), f[1].parse().unwrap());
                guarded(
                    rt,
                    <SqliteStore as LogStore<Op, VerifyingKey, u64, u32, Hash>>::get_log_entries(&store, &vk(a), &l, opt(f[2]), opt(f[3])),
                    |r| match r {
                        None => "-".to_string(),
                        Some(v) => {
                            let mut es: Vec<(u32, usize, String)> = v
                                .iter()
                                .map(|(o, raw)| {
                                    let (s, k, t) = show_entry(o, Some(raw));
                                    (s, k, format!("{}.{}", t, b01(o.body.is_some())))
                                })
                                .collect();
                            // the order by seq_num is the store's; only ties are put in canonical order
                            let sorted = es.windows(2).all(|w| w[0].0 <= w[1].0);
                            if sorted {
                                es.sort_by_key(|e| (e.0, e.1));
                            }
                            let s = es.into_iter().map(|e| e.2).collect::<Vec<_>>().join(",");
                            if sorted { s } else { format!("UNSORTED:{s}") }
                        }
                    },
                )
            }
            "S" => {
                let (a, l): (u64, u64) = (f[0].parse().unwrap(), f[1].parse().unwrap());
                guarded(
                    rt,
                    <SqliteStore as LogStore<Op, VerifyingKey, u64, u32, Hash>>::get_log_size(&store, &vk(a), &l, opt(f[2]), opt(f[3])),
                    |r| match r {
                        None => "-".to_string(),
                        Some((c, b)) => format!("{c}:{b}"),
                    },
                )
            }
            _ => panic!("unknown item {it}"),
        };
        out.push(r);
    }
    rt.block_on(store.pool().close());
    let hs: Vec<usize> = ops.iter().map(|o| o.header.to_bytes().len()).collect();
    format!("h={} | {}", h_common::join(&hs, ","), out.join(" "))
}
