//! Harness for the SQLite stores of p2panda-store: C08 (log store queries) and C09 (operation,
//! topic and cursor stores).  `h_store c08` / `h_store c09`; see the module headers for the line
//! formats.  One tokio current-thread runtime per process, a fresh in-memory store per case.
mod c08;
mod c09;

fn main() {
    let which = std::env::args().nth(1).unwrap_or_default();
    let rt = tokio::runtime::Builder::new_current_thread()
        .enable_all()
        .build()
        .expect("runtime");
    match which.as_str() {
        "c08" => h_common::run_cases(|p| c08::case(&rt, p)),
        "c09" => h_common::run_cases(|p| c09::case(&rt, p)),
        _ => panic!("usage: h_store c08|c09"),
    }
}
