//! C14: replay model schedules on the real `Pipeline::process` / `TaskTracker` / `Task` (via the
//! cfg hooks of `p2panda::verif_c14`), stress the real `Pipeline`, and contend on the result lock
//! of a task from several OS threads.
//!
//! `sched <id0> <id1> ... | <pick> <pick> ...`
//!   n submitters and one completer over ONE real `TaskTracker`. Submitter i is the REAL
//!   `Pipeline::process(event_i)` future (a detached `Pipeline` handle: same struct, same
//!   function, no processing thread; the harness owns the receiving end of the channel). Its
//!   event is an operation chosen by `id_i` (equal ids = the same operation submitted
//!   concurrently) tagged with `i`, and "the result produced for the event of submitter j" is
//!   that event itself. The completer is the pipeline loop: take the next event that was
//!   really sent, `TaskTracker::mark_as_done(event.hash(), event)`.
//!   The futures are polled by hand, one poll per pick (`pick < n`: that submitter, `pick == n`:
//!   the completer). `process` parks at every await it makes, in whatever order it makes them:
//!   at the entry of `TaskTracker::track` and of `Task::ready` and inside `Task::ready` /
//!   `mark_as_done` through the cfg-gated schedule points of tasks.rs, and inside
//!   `pipeline_tx.send(..)` because the harness keeps the (capacity 1) channel of that
//!   submitter full with a permit until the submitter is picked again. So a pick is one step of
//!   the transition system of coq/Model/Tasks.v, and the tokens tell in which order the real
//!   function tracked and sent. After the explicit picks the actors are polled round robin
//!   until a whole round makes no progress.
//!   Result: `<where each submitter parks first> / <tokens of the picks> / <tokens of the drain>
//!   / OK|DEADLOCK` with tokens
//!     Kt parked before `track`, T tracked (was at Kt, now parked in `send`), Q event sent (it
//!     arrived in the channel during this poll; now parked at the entry of `Task::ready`),
//!     E Notified created+enabled, C checked (no result yet), W woken, D<r> returned the event
//!     of submitter r, P1 event taken, P2 entry removed, P3 result set, P0 notified+unlocked,
//!     `-` the picked actor cannot move;
//!   anything else is spelled out (`Ks` parked in `send` without having tracked, `+s` an event
//!   arrived, `Kr` at the entry of `ready` without a send, `?` pending without a known reason).
//!
//! `stress <submissions> <distinct operations> <worker threads>`
//!   the real `Pipeline` (own thread, SQLite in memory) on a multi-thread runtime; submissions
//!   of the same operation run concurrently. Result: `STRESS returned=<k> own=<k>`.
//!
//! `paused <submissions> <pause ms>`
//!   the real `Pipeline` with its own thread; the submitters (all the same operation) are
//!   polled by hand and the harness sleeps `pause ms` at every schedule point a submitter
//!   stops at, which gives the pipeline thread time to finish the operation in every window
//!   between two steps of `process`; the run gives up after 20 s without a submitter moving.
//!   Result: `PAUSED returned=<k> own=<k>`.
//!
//! `mt <mode> <clone ms> <writer delay ms> | <start offset ms of waiter 0> <of waiter 1> ...`
//!   contention on the result mutex of ONE task: k waiters call `Task::ready()` on k OS threads
//!   (own current-thread runtime each), the result type has a slow `Clone` (sleeps `clone ms`
//!   while the waiter holds the mutex). mode 0: the task is completed before the first waiter
//!   starts; mode 1: `TaskTracker::mark_as_done` runs on its own thread after `writer delay`.
//!   Every waiter must return the stored value; the run gives up when nothing has moved (no
//!   clone started or finished, nobody returned) for 5 s. Result: `MT returned=<k> own=<k>`.
use std::cell::RefCell;
use std::collections::VecDeque;
use std::future::Future;
use std::pin::Pin;
use std::rc::Rc;
use std::sync::Arc;
use std::sync::atomic::{AtomicU64, Ordering};
use std::task::{Context, Poll, Waker};
use std::time::{Duration, Instant};

use p2panda::verif_c14 as hook;
use p2panda_core::Topic;
use p2panda_core::test_utils::TestLog;
use p2panda_core::traits::Digest;
use p2panda_store::SqliteStore;
use tokio::sync::mpsc;

type Queue = Rc<RefCell<VecDeque<hook::PipelineEvent>>>;

/// Pending exactly once, without naming a schedule point ("nothing to do right now").
struct Idle(bool);

impl Future for Idle {
    type Output = ();
    fn poll(mut self: Pin<&mut Self>, _cx: &mut Context<'_>) -> Poll<()> {
        if self.0 {
            Poll::Ready(())
        } else {
            self.0 = true;
            Poll::Pending
        }
    }
}

fn tag_topic(i: usize) -> Topic {
    let mut b = [0u8; 32];
    b[0] = 0xC1;
    b[1] = i as u8;
    Topic::from(b)
}

fn tag_of(event: &hook::PipelineEvent) -> u64 {
    let b: [u8; 32] = hook::event_topic(event).into();
    b[1] as u64
}

/// What the pipeline thread does with every processed event.
async fn completer(tracker: hook::PipelineTracker, queue: Queue) {
    loop {
        let next = queue.borrow_mut().pop_front();
        match next {
            None => Idle(false).await,
            Some(event) => {
                hook::yield_point("h_popped").await;
                tracker.mark_as_done(event.hash(), event).await;
                hook::yield_point("h_marked").await;
            }
        }
    }
}

/// Where a hand-polled future is parked.
#[derive(Clone, Copy, PartialEq, Debug)]
enum Stop {
    /// not polled yet
    Fresh,
    /// at a named schedule point
    Point(&'static str),
    /// inside `pipeline_tx.send` (the harness holds the only slot of the channel)
    Send,
    /// pending without a schedule point: waiting for the ready signal (or for a lock)
    Wait,
}

const KT: &str = "tracker_track_enter";
const KR: &str = "task_ready_enter";
const PE: &str = "task_ready_between_enable_and_check";
const PC: &str = "task_ready_between_check_and_wait";
const PW: &str = "task_ready_after_wait";

struct Sub {
    fut: Pin<Box<dyn Future<Output = hook::PipelineEvent>>>,
    rx: mpsc::Receiver<hook::PipelineEvent>,
    /// the permit that keeps this submitter's channel full
    gate: Option<mpsc::OwnedPermit<hook::PipelineEvent>>,
    stop: Stop,
    sent: bool,
    done: bool,
}

struct World {
    tracker: hook::PipelineTracker,
    queue: Queue,
    subs: Vec<Sub>,
    pipe: Pin<Box<dyn Future<Output = ()>>>,
}

impl World {
    fn new(ids: &[u64]) -> Self {
        let tracker = hook::PipelineTracker::new();
        let queue: Queue = Rc::new(RefCell::new(VecDeque::new()));
        let log = TestLog::new();
        let mut ops: Vec<(u64, p2panda_core::Operation<()>)> = Vec::new();
        let mut subs = Vec::new();
        for (i, id) in ids.iter().enumerate() {
            let op = match ops.iter().find(|(k, _)| k == id) {
                Some((_, op)) => op.clone(),
                None => {
                    let op = log.operation(format!("operation {id}").as_bytes(), ());
                    ops.push((*id, op.clone()));
                    op
                }
            };
            let event = hook::new_event(op, tag_topic(i));
            let (pipeline, tx, rx) = hook::detached_pipeline(1, tracker.clone());
            let gate = tx.try_reserve_owned().ok();
            subs.push(Sub {
                fut: Box::pin(async move { pipeline.process(event).await }),
                rx,
                gate,
                stop: Stop::Fresh,
                sent: false,
                done: false,
            });
        }
        let pipe = Box::pin(completer(tracker.clone(), queue.clone()));
        World {
            tracker,
            queue,
            subs,
            pipe,
        }
    }

    /// Polls submitter `a` once; returns `Some(result)` when it returned, and whether its event
    /// arrived in the channel during this poll.
    fn poll_sub(&mut self, a: usize) -> (Option<hook::PipelineEvent>, bool) {
        let sub = &mut self.subs[a];
        let _ = hook::take_last_point();
        let mut cx = Context::from_waker(Waker::noop());
        let res = sub.fut.as_mut().poll(&mut cx);
        let mut arrived = false;
        while let Ok(event) = sub.rx.try_recv() {
            arrived = true;
            sub.sent = true;
            self.queue.borrow_mut().push_back(event);
        }
        match res {
            Poll::Ready(event) => {
                sub.done = true;
                (Some(event), arrived)
            }
            Poll::Pending => {
                sub.stop = match hook::take_last_point() {
                    Some(label) => Stop::Point(label),
                    None if !sub.sent && sub.gate.is_some() => Stop::Send,
                    None => Stop::Wait,
                };
                (None, arrived)
            }
        }
    }

    /// Runs every submitter up to its first stop (nothing of `process` has happened yet).
    fn park(&mut self) -> Vec<String> {
        (0..self.subs.len())
            .map(|a| {
                let (res, arrived) = self.poll_sub(a);
                match res {
                    Some(event) => format!("D{}", tag_of(&event)),
                    None => stop_name(self.subs[a].stop, arrived),
                }
            })
            .collect()
    }

    fn pick(&mut self, a: usize) -> String {
        let n = self.subs.len();
        if a > n {
            return "-".into();
        }
        if a == n {
            let _ = hook::take_last_point();
            let mut cx = Context::from_waker(Waker::noop());
            let _ = self.pipe.as_mut().poll(&mut cx);
            return match hook::take_last_point() {
                Some("h_popped") => "P1".into(),
                Some("tracker_mark_as_done_after_remove") => "P2".into(),
                Some("task_mark_as_done_between_set_and_notify") => "P3".into(),
                Some("h_marked") => "P0".into(),
                Some(_) => "?".into(),
                None => "-".into(),
            };
        }
        if self.subs[a].done {
            return "-".into();
        }
        let before = self.subs[a].stop;
        // A submitter about to take the tracker lock while the completer holds it would queue
        // on the lock; the model treats it as "cannot move", so it is not polled.
        if before == Stop::Point(KT) && self.tracker.verif_is_locked() {
            return "-".into();
        }
        if before == Stop::Send {
            // let the send go through
            self.subs[a].gate = None;
        }
        let (res, arrived) = self.poll_sub(a);
        if let Some(event) = res {
            let plus = if arrived { "+s" } else { "" };
            return format!("D{}{}", tag_of(&event), plus);
        }
        let after = self.subs[a].stop;
        match (before, arrived, after) {
            (Stop::Point(KT), false, Stop::Send) => "T".into(),
            (Stop::Send, true, Stop::Point(KR)) => "Q".into(),
            (Stop::Point(KR), false, Stop::Point(PE)) => "E".into(),
            (Stop::Point(PE), false, Stop::Point(PC)) => "C".into(),
            (Stop::Point(PC) | Stop::Wait, false, Stop::Point(PW)) => "W".into(),
            (Stop::Point(PC) | Stop::Wait, false, Stop::Wait) => "-".into(),
            _ => stop_name(after, arrived),
        }
    }

    fn all_returned(&self) -> bool {
        self.subs.iter().all(|s| s.done)
    }
}

/// Literal name of a stop (used where the run is not one of the model's steps).
fn stop_name(stop: Stop, arrived: bool) -> String {
    let name = match stop {
        Stop::Fresh => "K0",
        Stop::Point(KT) => "Kt",
        Stop::Point(KR) => "Kr",
        Stop::Point(PE) => "Ke",
        Stop::Point(PC) => "Kc",
        Stop::Point(PW) => "Kw",
        Stop::Point(_) => "K?",
        Stop::Send => "Ks",
        Stop::Wait => "?",
    };
    if arrived {
        format!("{name}+s")
    } else {
        name.to_string()
    }
}

fn sched(payload: &str) -> String {
    let (ids_s, picks_s) = payload.split_once('|').unwrap_or((payload, ""));
    let ids = h_common::nums(ids_s);
    let picks = h_common::nums(picks_s);
    hook::enable_schedule_points(true);
    let mut w = World::new(&ids);
    let parked = w.park();
    let first: Vec<String> = picks.iter().map(|p| w.pick(*p as usize)).collect();
    let mut drain: Vec<String> = Vec::new();
    for _ in 0..(40 * (ids.len() + 1) + 10) {
        let round: Vec<String> = (0..=ids.len()).map(|a| w.pick(a)).collect();
        let stuck = round.iter().all(|t| t == "-");
        drain.extend(round);
        if stuck {
            break;
        }
    }
    let verdict = if w.all_returned() { "OK" } else { "DEADLOCK" };
    hook::enable_schedule_points(false);
    format!(
        "{} / {} / {} / {}",
        parked.join(" "),
        first.join(" "),
        drain.join(" "),
        verdict
    )
}

fn stress(payload: &str) -> String {
    let v = h_common::nums(payload);
    let (subs, distinct, workers) = (v[0] as usize, (v[1] as usize).max(1), (v[2] as usize).max(1));
    hook::enable_schedule_points(false);
    let log = TestLog::new();
    let topic = Topic::random();
    let ops: Vec<_> = (0..distinct)
        .map(|i| log.operation(format!("op {i}").as_bytes(), ()))
        .collect();
    let rt = tokio::runtime::Builder::new_multi_thread()
        .worker_threads(workers)
        .enable_all()
        .build()
        .expect("runtime");
    let (returned, own) = rt.block_on(async move {
        let store = SqliteStore::temporary().await;
        let pipeline = hook::new_pipeline(store);
        let mut handles = Vec::new();
        for k in 0..subs {
            let op = ops[k % distinct].clone();
            let pipeline = pipeline.clone();
            handles.push(tokio::spawn(async move {
                let hash = op.hash;
                let event = hook::new_event(op, topic);
                match tokio::time::timeout(Duration::from_secs(20), pipeline.process(event)).await {
                    Ok(result) => (1u64, (result.hash() == hash) as u64),
                    Err(_) => (0, 0),
                }
            }));
        }
        let mut returned = 0;
        let mut own = 0;
        for h in handles {
            if let Ok((r, o)) = h.await {
                returned += r;
                own += o;
            }
        }
        (returned, own)
    });
    rt.shutdown_background();
    format!("STRESS returned={returned} own={own}")
}

/// The real pipeline thread against hand-polled submitters which pause at every schedule point.
fn paused(payload: &str) -> String {
    let v = h_common::nums(payload);
    let (subs, pause) = (v[0] as usize, Duration::from_millis(v[1]));
    let log = TestLog::new();
    let topic = Topic::random();
    let op = log.operation(b"paused", ());
    let hash = op.hash;
    let rt = tokio::runtime::Builder::new_current_thread()
        .enable_all()
        .build()
        .expect("runtime");
    let (returned, own) = rt.block_on(async move {
        let store = SqliteStore::temporary().await;
        let pipeline = hook::new_pipeline(store);
        hook::enable_schedule_points(true);
        let mut futs: Vec<Option<Pin<Box<dyn Future<Output = hook::PipelineEvent>>>>> = (0..subs)
            .map(|_| {
                let pipeline = pipeline.clone();
                let event = hook::new_event(op.clone(), topic);
                let f: Pin<Box<dyn Future<Output = hook::PipelineEvent>>> =
                    Box::pin(async move { pipeline.process(event).await });
                Some(f)
            })
            .collect();
        let (mut returned, mut own) = (0u64, 0u64);
        let mut last_progress = Instant::now();
        let mut cx = Context::from_waker(Waker::noop());
        while returned < subs as u64 && last_progress.elapsed() < Duration::from_secs(20) {
            for slot in futs.iter_mut() {
                let Some(fut) = slot.as_mut() else { continue };
                let _ = hook::take_last_point();
                match fut.as_mut().poll(&mut cx) {
                    Poll::Ready(result) => {
                        returned += 1;
                        own += (result.hash() == hash) as u64;
                        *slot = None;
                        last_progress = Instant::now();
                    }
                    Poll::Pending => {
                        if hook::take_last_point().is_some() {
                            // a window between two steps of `process`: let the pipeline thread run
                            last_progress = Instant::now();
                            tokio::time::sleep(pause).await;
                        }
                    }
                }
            }
            tokio::time::sleep(Duration::from_millis(1)).await;
        }
        hook::enable_schedule_points(false);
        (returned, own)
    });
    rt.shutdown_background();
    format!("PAUSED returned={returned} own={own}")
}

/// A task result whose `Clone` is slow (the waiter holds the result mutex meanwhile).
struct Slow {
    value: u64,
    clone_ms: u64,
    progress: Arc<AtomicU64>,
}

impl Clone for Slow {
    fn clone(&self) -> Self {
        self.progress.fetch_add(1, Ordering::SeqCst);
        std::thread::sleep(Duration::from_millis(self.clone_ms));
        self.progress.fetch_add(1, Ordering::SeqCst);
        Slow {
            value: self.value,
            clone_ms: self.clone_ms,
            progress: self.progress.clone(),
        }
    }
}

fn mt(payload: &str) -> String {
    let (head, offs) = payload.split_once('|').unwrap_or((payload, ""));
    let head = h_common::nums(head);
    let (mode, clone_ms, writer_delay) = (head[0], head[1], head[2]);
    let offsets = h_common::nums(offs);
    let k = offsets.len();
    const VALUE: u64 = 7;
    const ID: u64 = 1;
    hook::enable_schedule_points(false);
    let progress = Arc::new(AtomicU64::new(0));
    let tracker = hook::TaskTracker::<Slow, u64>::new();
    let rt = tokio::runtime::Builder::new_current_thread()
        .enable_all()
        .build()
        .expect("runtime");
    // every waiter observes the same task instance
    let tasks: Vec<_> = rt.block_on(async {
        let mut tasks = Vec::new();
        for _ in 0..k {
            tasks.push(tracker.track(ID).await);
        }
        tasks
    });
    let result = Slow {
        value: VALUE,
        clone_ms,
        progress: progress.clone(),
    };
    let mut writer = None;
    if mode == 0 {
        rt.block_on(tracker.mark_as_done(ID, result));
    } else {
        let tracker = tracker.clone();
        writer = Some(std::thread::spawn(move || {
            std::thread::sleep(Duration::from_millis(writer_delay));
            let rt = tokio::runtime::Builder::new_current_thread()
                .enable_all()
                .build()
                .expect("runtime");
            rt.block_on(tracker.mark_as_done(ID, result));
        }));
    }
    let (tx, rx) = std::sync::mpsc::channel::<u64>();
    for (task, off) in tasks.into_iter().zip(offsets.iter().copied()) {
        let tx = tx.clone();
        let progress = progress.clone();
        // a waiter that never returns stays behind on its (detached) thread
        std::thread::spawn(move || {
            std::thread::sleep(Duration::from_millis(off));
            let rt = tokio::runtime::Builder::new_current_thread()
                .enable_all()
                .build()
                .expect("runtime");
            let got = rt.block_on(task.ready());
            progress.fetch_add(1, Ordering::SeqCst);
            let _ = tx.send(got.value);
        });
    }
    drop(tx);
    let (mut returned, mut own) = (0u64, 0u64);
    let mut seen = progress.load(Ordering::SeqCst);
    let mut last_progress = Instant::now();
    while returned < k as u64 {
        match rx.recv_timeout(Duration::from_millis(20)) {
            Ok(value) => {
                returned += 1;
                own += (value == VALUE) as u64;
                last_progress = Instant::now();
            }
            Err(std::sync::mpsc::RecvTimeoutError::Timeout) => {
                let now = progress.load(Ordering::SeqCst);
                if now != seen {
                    seen = now;
                    last_progress = Instant::now();
                } else if last_progress.elapsed() > Duration::from_secs(5) {
                    break;
                }
            }
            Err(std::sync::mpsc::RecvTimeoutError::Disconnected) => break,
        }
    }
    if let Some(w) = writer {
        let _ = w.join();
    }
    format!("MT returned={returned} own={own}")
}

pub fn main() {
    h_common::run_cases(|payload| {
        let (kind, rest) = payload.split_once(' ').unwrap_or((payload, ""));
        match kind {
            "sched" => sched(rest),
            "stress" => stress(rest),
            "paused" => paused(rest),
            "mt" => mt(rest),
            other => format!("UNKNOWN {other}"),
        }
    });
}
