pub fn main() {}
