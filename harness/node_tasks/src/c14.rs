//! C14: replay model schedules on the real `TaskTracker`/`Task` (via the cfg hooks of
//! `p2panda::verif_c14`) and stress the real `Pipeline::process`.
//!
//! `sched <id0> <id1> ... | <pick> <pick> ...`
//!   n submitters (submitter i submits task id `id_i` and its event produces the result `i`) and
//!   one completer (the pipeline loop: pop an event, `mark_as_done(id, result)`). The futures are
//!   polled by hand, one poll per pick (`pick < n`: that submitter, `pick == n`: the completer);
//!   the cfg-gated schedule points inside tasks.rs make every poll stop at the next point, so a
//!   pick is one step of the transition system of coq/Model/Tasks.v. After the explicit picks the
//!   actors are polled round robin until a whole round makes no progress.
//!   Result: `<tokens of the picks> / <tokens of the drain> / OK|DEADLOCK` with tokens
//!   T tracked, Q queued, E Notified created+enabled, C checked (no result yet), W woken,
//!   D<r> returned r, P1 event popped, P2 entry removed, P3 result set, P0 notified+unlocked,
//!   `-` the picked actor cannot move.
//!
//! `stress <submissions> <distinct operations> <worker threads>`
//!   the real `Pipeline` (own thread, SQLite in memory) on a multi-thread runtime; submissions
//!   of the same operation run concurrently. Result: `STRESS returned=<k> own=<k>`.
use std::cell::RefCell;
use std::collections::VecDeque;
use std::future::Future;
use std::pin::Pin;
use std::rc::Rc;
use std::task::{Context, Poll, Waker};
use std::time::Duration;

use p2panda::verif_c14 as hook;
use p2panda_core::Topic;
use p2panda_core::test_utils::TestLog;
use p2panda_core::traits::Digest;
use p2panda_store::SqliteStore;

type Tracker = hook::TaskTracker<u64, u64>;
type Queue = Rc<RefCell<VecDeque<(u64, u64)>>>;

/// Pending exactly once, without naming a schedule point ("nothing to do right now").
struct Idle(bool);

impl Future for Idle {
    type Output = ();
    fn poll(mut self: Pin<&mut Self>, _cx: &mut Context<'_>) -> Poll<()> {
        if self.0 {
            Poll::Ready(())
        } else {
            self.0 = true;
            Poll::Pending
        }
    }
}

/// What `Pipeline::process` does: track, send, wait until ready.
async fn submitter(tracker: Tracker, queue: Queue, id: u64, me: u64) -> u64 {
    let task = tracker.track(id).await;
    hook::yield_point("h_tracked").await;
    queue.borrow_mut().push_back((id, me));
    hook::yield_point("h_sent").await;
    task.ready().await
}

/// What the pipeline thread does with every processed event.
async fn completer(tracker: Tracker, queue: Queue) -> u64 {
    loop {
        let next = queue.borrow_mut().pop_front();
        match next {
            None => Idle(false).await,
            Some((id, result)) => {
                hook::yield_point("h_popped").await;
                tracker.mark_as_done(id, result).await;
                hook::yield_point("h_marked").await;
            }
        }
    }
}

fn token(label: &str) -> &'static str {
    match label {
        "h_tracked" => "T",
        "h_sent" => "Q",
        "task_ready_between_enable_and_check" => "E",
        "task_ready_between_check_and_wait" => "C",
        "task_ready_after_wait" => "W",
        "h_popped" => "P1",
        "tracker_mark_as_done_after_remove" => "P2",
        "task_mark_as_done_between_set_and_notify" => "P3",
        "h_marked" => "P0",
        _ => "?",
    }
}

struct Actor {
    fut: Pin<Box<dyn Future<Output = u64>>>,
    started: bool,
    done: bool,
}

struct World {
    tracker: Tracker,
    actors: Vec<Actor>,
    n: usize,
}

impl World {
    fn new(ids: &[u64]) -> Self {
        let tracker = Tracker::new();
        let queue: Queue = Rc::new(RefCell::new(VecDeque::new()));
        let mut actors = Vec::new();
        for (i, id) in ids.iter().enumerate() {
            actors.push(Actor {
                fut: Box::pin(submitter(tracker.clone(), queue.clone(), *id, i as u64)),
                started: false,
                done: false,
            });
        }
        actors.push(Actor {
            fut: Box::pin(completer(tracker.clone(), queue.clone())),
            started: true,
            done: false,
        });
        World {
            tracker,
            actors,
            n: ids.len(),
        }
    }

    /// One pick: returns the token and whether the actor moved.
    fn pick(&mut self, a: usize) -> String {
        if a > self.n {
            return "-".into();
        }
        let locked = self.tracker.verif_is_locked();
        let actor = &mut self.actors[a];
        if actor.done {
            return "-".into();
        }
        // A submitter about to call `track` while the completer holds the tracker lock would
        // queue on the lock; the model treats it as "cannot move", so it is not polled.
        if a < self.n && !actor.started && locked {
            return "-".into();
        }
        actor.started = true;
        let _ = hook::take_last_point();
        let mut cx = Context::from_waker(Waker::noop());
        match actor.fut.as_mut().poll(&mut cx) {
            Poll::Ready(r) => {
                actor.done = true;
                format!("D{r}")
            }
            Poll::Pending => match hook::take_last_point() {
                Some(label) => token(label).to_string(),
                None => "-".into(),
            },
        }
    }

    fn all_returned(&self) -> bool {
        self.actors[..self.n].iter().all(|a| a.done)
    }
}

fn sched(payload: &str) -> String {
    let (ids_s, picks_s) = payload.split_once('|').unwrap_or((payload, ""));
    let ids = h_common::nums(ids_s);
    let picks = h_common::nums(picks_s);
    hook::enable_schedule_points(true);
    let mut w = World::new(&ids);
    let first: Vec<String> = picks.iter().map(|p| w.pick(*p as usize)).collect();
    let mut drain: Vec<String> = Vec::new();
    for _ in 0..(40 * (ids.len() + 1) + 10) {
        let round: Vec<String> = (0..=ids.len()).map(|a| w.pick(a)).collect();
        let stuck = round.iter().all(|t| t == "-");
        drain.extend(round);
        if stuck {
            break;
        }
    }
    let verdict = if w.all_returned() { "OK" } else { "DEADLOCK" };
    hook::enable_schedule_points(false);
    format!("{} / {} / {}", first.join(" "), drain.join(" "), verdict)
}

fn stress(payload: &str) -> String {
    let v = h_common::nums(payload);
    let (subs, distinct, workers) = (v[0] as usize, (v[1] as usize).max(1), (v[2] as usize).max(1));
    hook::enable_schedule_points(false);
    let log = TestLog::new();
    let topic = Topic::random();
    let ops: Vec<_> = (0..distinct)
        .map(|i| log.operation(format!("op {i}").as_bytes(), ()))
        .collect();
    let rt = tokio::runtime::Builder::new_multi_thread()
        .worker_threads(workers)
        .enable_all()
        .build()
        .expect("runtime");
    let (returned, own) = rt.block_on(async move {
        let store = SqliteStore::temporary().await;
        let pipeline = hook::new_pipeline(store);
        let mut handles = Vec::new();
        for k in 0..subs {
            let op = ops[k % distinct].clone();
            let pipeline = pipeline.clone();
            handles.push(tokio::spawn(async move {
                let hash = op.hash;
                let event = hook::new_event(op, topic);
                match tokio::time::timeout(Duration::from_secs(20), pipeline.process(event)).await {
                    Ok(result) => (1u64, (result.hash() == hash) as u64),
                    Err(_) => (0, 0),
                }
            }));
        }
        let mut returned = 0;
        let mut own = 0;
        for h in handles {
            if let Ok((r, o)) = h.await {
                returned += r;
                own += o;
            }
        }
        (returned, own)
    });
    rt.shutdown_background();
    format!("STRESS returned={returned} own={own}")
}

pub fn main() {
    h_common::run_cases(|payload| {
        let (kind, rest) = payload.split_once(' ').unwrap_or((payload, ""));
        match kind {
            "sched" => sched(rest),
            "stress" => stress(rest),
            other => format!("UNKNOWN {other}"),
        }
    });
}
