//! C40: drive the real `Aggregator` (via the cfg hook `p2panda::verif_c40::AggregatorProbe`).
//!
//! Case payload: events separated by `;`, each `<sid> <kind> [12 metric numbers]` with kinds
//! 0 SessionStarted, 1 SyncStarted, 2 OperationReceived, 3 SyncFinished, 4 SessionFinished,
//! 5 Failed, 6 LiveModeStarted. Metric order: outbound_sync_bytes outbound_sync_operations
//! inbound_sync_bytes inbound_sync_operations sent_sync_bytes sent_sync_operations
//! received_sync_bytes received_sync_operations sent_live_bytes sent_live_operations
//! received_live_bytes received_live_operations.
//!
//! Result: one entry per event joined by `|`: `<running>,<total_sent>,<total_received>,<out>` with
//! `<out>` = `-` | `S:<in_ops>,<out_ops>,<in_bytes>,<out_bytes>,<topic_sessions>` |
//! `E:<sent_ops>,<recv_ops>,<sent_bytes>,<recv_bytes>,<sent_total>,<recv_total>,<failed 0/1>` |
//! `O:<sent_ops>,<recv_ops>,<sent_bytes>,<recv_bytes>,<sent_total>,<recv_total>,<live 0/1>`.
//! A panic (u32 overflow in the debug-profile build) ends the line with the entry `PANIC`.
use std::panic::{AssertUnwindSafe, catch_unwind};

use p2panda::verif_c40::{AggregatorProbe, Observed};
use p2panda_core::test_utils::TestLog;
use p2panda_sync::protocols::{Metrics, TopicLogSyncEvent};

fn metrics(v: &[u64]) -> Metrics {
    let g = |i: usize| v[i] as u32;
    Metrics {
        outbound_sync_bytes: g(0),
        outbound_sync_operations: g(1),
        inbound_sync_bytes: g(2),
        inbound_sync_operations: g(3),
        sent_sync_bytes: g(4),
        sent_sync_operations: g(5),
        received_sync_bytes: g(6),
        received_sync_operations: g(7),
        sent_live_bytes: g(8),
        sent_live_operations: g(9),
        received_live_bytes: g(10),
        received_live_operations: g(11),
    }
}

pub fn main() {
    let log = TestLog::new();
    let operation = log.operation(b"x", ());
    h_common::run_cases(|payload| {
        let mut agg = AggregatorProbe::new();
        let mut out: Vec<String> = Vec::new();
        for part in payload.split(';') {
            let v = h_common::nums(part);
            if v.len() < 2 {
                continue;
            }
            let sid = v[0];
            let event: TopicLogSyncEvent<()> = match v[1] {
                0 => TopicLogSyncEvent::SessionStarted,
                1 => TopicLogSyncEvent::SyncStarted {
                    metrics: metrics(&v[2..]),
                },
                2 => TopicLogSyncEvent::OperationReceived {
                    operation: Box::new(operation.clone()),
                    metrics: metrics(&v[2..]),
                },
                3 => TopicLogSyncEvent::SyncFinished {
                    metrics: metrics(&v[2..]),
                },
                4 => TopicLogSyncEvent::SessionFinished {
                    metrics: metrics(&v[2..]),
                },
                5 => TopicLogSyncEvent::Failed {
                    error: "failed".to_string(),
                },
                6 => TopicLogSyncEvent::LiveModeStarted,
                k => panic!("unknown event kind {k}"),
            };
            let obs = match catch_unwind(AssertUnwindSafe(|| agg.process(sid, event))) {
                Ok(o) => o,
                Err(_) => {
                    out.push("PANIC".to_string());
                    break;
                }
            };
            let o = match obs {
                Observed::Nothing => "-".to_string(),
                Observed::SyncStarted {
                    incoming_operations,
                    outgoing_operations,
                    incoming_bytes,
                    outgoing_bytes,
                    topic_sessions,
                } => format!(
                    "S:{incoming_operations},{outgoing_operations},{incoming_bytes},{outgoing_bytes},{topic_sessions}"
                ),
                Observed::SyncEnded {
                    sent_operations,
                    received_operations,
                    sent_bytes,
                    received_bytes,
                    sent_bytes_topic_total,
                    received_bytes_topic_total,
                    failed,
                } => format!(
                    "E:{sent_operations},{received_operations},{sent_bytes},{received_bytes},{sent_bytes_topic_total},{received_bytes_topic_total},{}",
                    failed as u8
                ),
                Observed::OperationReceived {
                    sent_operations,
                    received_operations,
                    sent_bytes,
                    received_bytes,
                    sent_bytes_topic_total,
                    received_bytes_topic_total,
                    live,
                } => format!(
                    "O:{sent_operations},{received_operations},{sent_bytes},{received_bytes},{sent_bytes_topic_total},{received_bytes_topic_total},{}",
                    live as u8
                ),
            };
            out.push(format!(
                "{},{},{},{}",
                agg.running_sessions(),
                agg.total_bytes_sent(),
                agg.total_bytes_received(),
                o
            ));
        }
        out.join("|")
    });
}
