//! Harness for the properties anchored in the `p2panda` node crate's task tracker / pipeline and
//! topic sync metrics: `h_node_tasks c40` and `h_node_tasks c14` (one crate so that the heavy node
//! crate is built once).
mod c14;
mod c40;

fn main() {
    let which = std::env::args().nth(1).unwrap_or_default();
    match which.as_str() {
        "c40" => c40::main(),
        "c14" => c14::main(),
        other => {
            eprintln!("unknown property {other:?}");
            std::process::exit(2);
        }
    }
}
