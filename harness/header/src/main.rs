//! Harness for the header/operation properties: `h_header c02` and `h_header c01`.
//! Line formats are documented in coq/Oracle/C02.v and coq/Oracle/C01.v.
mod c01;
mod c02;
mod tok;

fn main() {
    let mode = std::env::args().nth(1).unwrap_or_default();
    match mode.as_str() {
        "c02" => h_common::run_cases(c02::run),
        "c01" => c01::main(),
        other => {
            eprintln!("unknown mode {other:?}");
            std::process::exit(2);
        }
    }
}
