fn main() {
    h_common::run_cases(|p| p.to_string());
}
