//! C01: validate_operation / ingest_operation on real operations, value-level and byte-level
//! tampering.  Line formats: see coq/Oracle/C01.v.
//!
//! header words: `<key> <version> <psize> <phash> <seq> <backlink> <extkind> <ext args>`
//!     phash / backlink: `-` | `x<runs>` (literal 32 bytes) | `H<x-runs>` (BLAKE3 of these bytes)
//!     extkind: unit | basic <log> <ts> <0|1> | causal <log> <ts> <hash>*
//! `val <unit|node> <prune> <twice> | <orig header> | <signer|-> <ok|none|garbage|flip<i>> | <header> | <body|->`
//!     the signature is made by pool key <signer> over <orig header>, put on <header> (after
//!     the sig mode), the operation {header, body} is validated and ingested.
//! `byte <unit|node> <h|b> <sub|del|ins> <pos> <val> | <header> | <body|->`
//!     the valid operation is encoded, one byte of the header (h) or body (b) bytes is
//!     substituted (xor val) / deleted / inserted at pos (mod length), decoded again, validated,
//!     ingested.
//! `resub <unit|node> | <orig header> | <signer|-> <sig mode> | <header> | <body|-> | <orig body|->`
//!     the valid original {orig header signed by its own key, orig body} is ingested, then on the
//!     SAME store the (mutated) operation {header, body} built as in `val` is validated and
//!     ingested; prints the second verdict and whether the store still holds exactly the original.
use std::cell::RefCell;
use std::time::Duration;

use p2panda::operation::Extensions as NodeExt;
use p2panda_core::cbor::decode_cbor;
use p2panda_core::identity::Signature;
use p2panda_core::{Body, Hash, Header, Operation, OperationError, validate_operation};
use p2panda_store::operations::OperationStore;
use p2panda_store::{SqliteStore, SqliteStoreBuilder};
use p2panda_stream::ingest::{IngestError, ingest_operation};

use crate::c02::{ExtShow, node_ext};
use crate::tok::{self, Tok};

type Topic = [u8; 32];
const TOPIC: Topic = [9u8; 32];

pub fn main() {
    let rt = tokio::runtime::Builder::new_current_thread()
        .enable_all()
        .build()
        .expect("runtime");
    h_common::run_cases(|p| {
        rt.block_on(async {
            match tokio::time::timeout(Duration::from_secs(20), run(p)).await {
                Ok(s) => s,
                Err(_) => "TIMEOUT".to_string(),
            }
        })
    });
}

fn err_name(e: &OperationError) -> &'static str {
    match e {
        OperationError::UnsupportedVersion(..) => "UnsupportedVersion",
        OperationError::MissingSignature => "MissingSignature",
        OperationError::SignatureMismatch => "SignatureMismatch",
        OperationError::SeqNumMismatch => "SeqNumMismatch",
        OperationError::InconsistentPayloadInfo => "InconsistentPayloadInfo",
        OperationError::MissingPayloadHash => "MissingPayloadHash",
        OperationError::PayloadMismatch => "PayloadMismatch",
        OperationError::TooManyAuthors => "TooManyAuthors",
        OperationError::SeqNumNonIncremental(..) => "SeqNumNonIncremental",
        OperationError::BacklinkMissing => "BacklinkMissing",
        OperationError::BacklinkMismatch => "BacklinkMismatch",
    }
}

fn hash_word(w: &str) -> Option<Hash> {
    if w == "-" {
        None
    } else if let Some(r) = w.strip_prefix('H') {
        Some(Hash::digest(tok::unrle(r)))
    } else {
        let b = tok::unrle(w);
        Some(Hash::try_from(&b[..]).expect("32 bytes"))
    }
}

struct Fields {
    key: usize,
    version: u16,
    psize: u32,
    phash: Option<Hash>,
    seq: u32,
    backlink: Option<Hash>,
}

fn fields(w: &[&str]) -> Fields {
    Fields {
        key: w[0].parse().expect("key"),
        version: w[1].parse().expect("version"),
        psize: w[2].parse().expect("psize"),
        phash: hash_word(w[3]),
        seq: w[4].parse().expect("seq"),
        backlink: hash_word(w[5]),
    }
}

fn build<E>(f: &Fields, e: E) -> Header<E> {
    Header {
        version: f.version,
        verifying_key: tok::key(f.key).verifying_key(),
        signature: None,
        payload_size: f.psize,
        payload_hash: f.phash,
        seq_num: f.seq,
        backlink: f.backlink,
        extensions: e,
    }
}

fn unit_header(w: &[&str]) -> Header<()> {
    build(&fields(w), ())
}

fn node_header(w: &[&str]) -> Header<NodeExt> {
    let e = node_ext(w[6], &w[7..]).expect("node extensions");
    build(&fields(w), e)
}

fn body_word(w: &str) -> Option<Vec<u8>> {
    if w == "-" { None } else { Some(tok::unrle(w)) }
}

async fn fresh_store() -> SqliteStore {
    let store = SqliteStoreBuilder::memory().build().await.expect("store");
    // one unrelated operation, so that "unchanged" is observed on a non-empty store
    let sk = tok::key(7);
    let mut h = Header::<()> {
        version: 1,
        verifying_key: sk.verifying_key(),
        signature: None,
        payload_size: 0,
        payload_hash: None,
        seq_num: 0,
        backlink: None,
        extensions: (),
    };
    h.sign(&sk);
    let op = Operation { hash: h.hash(), header: h, body: None };
    let r = ingest_operation(&store, &op, &0u64, &TOPIC, false).await;
    assert!(matches!(r, Ok(true)), "unrelated operation must be ingested");
    store
}

async fn rows(store: &SqliteStore) -> String {
    let ops: i64 = sqlx::query_scalar("SELECT COUNT(*) FROM operations_v1")
        .fetch_one(store.pool())
        .await
        .expect("count operations");
    let topics: i64 = sqlx::query_scalar("SELECT COUNT(*) FROM topics_v1")
        .fetch_one(store.pool())
        .await
        .expect("count topics");
    format!("{ops}+{topics}")
}

fn ing_name(r: &Result<bool, IngestError>) -> String {
    match r {
        Ok(true) => "NEW".into(),
        Ok(false) => "DUP".into(),
        Err(IngestError::InvalidOperation(e)) => err_name(e).into(),
        Err(IngestError::StoreError(s)) => format!("STORE:{}", s.replace(' ', "_")),
    }
}

/// validate + ingest on a store holding one unrelated operation
async fn judge<E: ExtShow>(op: &Operation<E>, prune: bool, twice: bool) -> String
where
    SqliteStore: OperationStore<Operation<E>, Hash>,
{
    let val = match validate_operation(op) {
        Ok(()) => "OK".to_string(),
        Err(e) => err_name(&e).to_string(),
    };
    let store = fresh_store().await;
    let before = rows(&store).await;
    let r = ingest_operation(&store, op, &1u64, &TOPIC, prune).await;
    let after = rows(&store).await;
    let has = <SqliteStore as OperationStore<Operation<E>, Hash>>::has_operation(&store, &op.hash)
        .await
        .expect("has_operation");
    let mut s = format!(
        "val={} ing={} has={} rows={}/{}",
        val,
        ing_name(&r),
        has as u8,
        before,
        after
    );
    if twice {
        let r2 = ingest_operation(&store, op, &1u64, &TOPIC, prune).await;
        s.push_str(&format!(" ing2={} rows2={}", ing_name(&r2), rows(&store).await));
    }
    s
}

async fn val_case<E: ExtShow>(
    mut orig: Header<E>,
    signer: &str,
    sigmode: &str,
    mut header: Header<E>,
    body: Option<Vec<u8>>,
    prune: bool,
    twice: bool,
) -> String
where
    SqliteStore: OperationStore<Operation<E>, Hash>,
{
    if signer != "-" {
        orig.sign(&tok::key(signer.parse().expect("signer")));
    }
    header.signature = match sigmode {
        "ok" => orig.signature,
        "none" => None,
        "garbage" => Some(Signature::from_bytes(&[251u8; 64])),
        m => {
            let i: usize = m.strip_prefix("flip").expect("sig mode").parse().expect("flip index");
            let mut b = orig.signature.expect("signed").to_bytes();
            b[i % 64] ^= 1;
            Some(Signature::from_bytes(&b))
        }
    };
    let op = Operation { hash: header.hash(), header, body: body.map(Body::from) };
    judge(&op, prune, twice).await
}

/// re-submission: the valid original is already stored, then a (tampered) copy arrives
async fn resub_case<E: ExtShow>(
    mut orig: Header<E>,
    orig_key: usize,
    orig_body: Option<Vec<u8>>,
    signer: &str,
    sigmode: &str,
    mut header: Header<E>,
    body: Option<Vec<u8>>,
) -> String
where
    SqliteStore: OperationStore<Operation<E>, Hash>,
{
    let mut first = orig.clone();
    first.sign(&tok::key(orig_key));
    let first_op = Operation { hash: first.hash(), header: first, body: orig_body.clone().map(Body::from) };
    if signer != "-" {
        orig.sign(&tok::key(signer.parse().expect("signer")));
    }
    header.signature = match sigmode {
        "ok" => orig.signature,
        "none" => None,
        "garbage" => Some(Signature::from_bytes(&[251u8; 64])),
        m => {
            let i: usize = m.strip_prefix("flip").expect("sig mode").parse().expect("flip index");
            let mut b = orig.signature.expect("signed").to_bytes();
            b[i % 64] ^= 1;
            Some(Signature::from_bytes(&b))
        }
    };
    let op = Operation { hash: header.hash(), header, body: body.map(Body::from) };
    let store = fresh_store().await;
    let before = rows(&store).await;
    let r1 = ingest_operation(&store, &first_op, &1u64, &TOPIC, true).await;
    let mid = rows(&store).await;
    let val = match validate_operation(&op) {
        Ok(()) => "OK".to_string(),
        Err(e) => err_name(&e).to_string(),
    };
    let r2 = ingest_operation(&store, &op, &1u64, &TOPIC, true).await;
    let after = rows(&store).await;
    let has = <SqliteStore as OperationStore<Operation<E>, Hash>>::has_operation(&store, &op.hash)
        .await
        .expect("has_operation");
    let got = <SqliteStore as OperationStore<Operation<E>, Hash>>::get_operation(&store, &first_op.hash)
        .await
        .expect("get_operation");
    let stored = match &got {
        Some(o) => {
            o.header.to_bytes() == first_op.header.to_bytes()
                && o.body.as_ref().map(|b| b.to_bytes()) == orig_body
                && o.hash == first_op.hash
        }
        None => false,
    };
    format!(
        "first={} rows={}/{} | val={} ing={} has={} hasorig={} rows={} samehash={} stored={}",
        ing_name(&r1),
        before,
        mid,
        val,
        ing_name(&r2),
        has as u8,
        got.is_some() as u8,
        after,
        (op.hash == first_op.hash) as u8,
        stored as u8
    )
}

/// Names for byte strings seen in a decoded (tampered) header: pool keys, the original
/// signature (`S`), the hash of the original body (`H`), literal short run-length values, and
/// numbered placeholders for anything else (only its length and its being different matter).
struct Sym {
    sig: Vec<u8>,
    body_hash: Option<Vec<u8>>,
    fresh: RefCell<Vec<Vec<u8>>>,
}

impl Sym {
    fn canon_bytes(&self, b: &[u8]) -> Vec<u8> {
        if b.len() == 32 {
            for k in 0..tok::POOL {
                if tok::key(k).verifying_key().as_bytes() == b {
                    return vec![k as u8; 32];
                }
            }
        }
        let runs = tok::rle(b).matches('*').count();
        if runs <= 3 {
            return b.to_vec();
        }
        let mut fresh = self.fresh.borrow_mut();
        let i = match fresh.iter().position(|x| x.as_slice() == b) {
            Some(i) => i,
            None => {
                fresh.push(b.to_vec());
                fresh.len() - 1
            }
        };
        let mut out = vec![250u8];
        out.extend(std::iter::repeat(i as u8).take(b.len() - 1));
        out
    }

    fn name(&self, b: &[u8]) -> String {
        if b == self.sig.as_slice() {
            return "S".into();
        }
        if b.len() == 64 {
            return "X".into();
        }
        if let Some(h) = &self.body_hash {
            if h.as_slice() == b {
                return "H".into();
            }
        }
        tok::rle(&self.canon_bytes(b))
    }

    fn ext<E: ExtShow>(&self, e: &E) -> String {
        let bytes = p2panda_core::cbor::encode_cbor(e).expect("encode ext");
        if std::mem::size_of::<E>() == 0 {
            return "unit".into();
        }
        let toks = tok::parse_bytes(&bytes).unwrap_or_default();
        match toks.as_slice() {
            [Tok::Seq(5), Tok::UInt(1), Tok::UInt(0), Tok::Bytes(l), Tok::UInt(t), Tok::Bool(p)] => {
                format!("basic:{}:{}:{}", self.name(l), t, if *p { "T" } else { "F" })
            }
            [Tok::Seq(5), Tok::UInt(1), Tok::UInt(1), Tok::Bytes(l), Tok::UInt(t), Tok::Seq(_), rest @ ..] => {
                let hs: Vec<String> = rest
                    .iter()
                    .map(|t| match t {
                        Tok::Bytes(b) => self.name(b),
                        _ => "?".into(),
                    })
                    .collect();
                format!("causal:{}:{}:{}", self.name(l), t, hs.join(","))
            }
            _ => "?".into(),
        }
    }

    fn header<E: ExtShow>(&self, h: &Header<E>) -> String {
        let opt = |o: &Option<Hash>| o.map(|x| self.name(x.as_bytes())).unwrap_or("-".into());
        format!(
            "v={} pk={} sig={} ps={} ph={} sq={} bl={} ext={}",
            h.version,
            self.name(h.verifying_key.as_bytes()),
            h.signature.map(|s| self.name(&s.to_bytes())).unwrap_or("-".into()),
            h.payload_size,
            opt(&h.payload_hash),
            h.seq_num,
            opt(&h.backlink),
            self.ext(&h.extensions)
        )
    }
}

fn mutate(bytes: &[u8], mop: &str, pos: usize, val: u8) -> Vec<u8> {
    let mut out = bytes.to_vec();
    match mop {
        "sub" => {
            if !out.is_empty() {
                let i = pos % out.len();
                out[i] ^= if val == 0 { 1 } else { val };
            }
        }
        "del" => {
            if !out.is_empty() {
                out.remove(pos % out.len());
            }
        }
        _ => {
            let i = pos % (out.len() + 1);
            out.insert(i, val);
        }
    }
    out
}

async fn byte_case<E: ExtShow>(
    mut header: Header<E>,
    key: usize,
    body: Option<Vec<u8>>,
    part: &str,
    mop: &str,
    pos: usize,
    val: u8,
) -> String
where
    SqliteStore: OperationStore<Operation<E>, Hash>,
{
    header.sign(&tok::key(key));
    let hb = header.to_bytes();
    let base_op = Operation {
        hash: header.hash(),
        header: header.clone(),
        body: body.clone().map(Body::from),
    };
    let base = {
        let store = fresh_store().await;
        ing_name(&ingest_operation(&store, &base_op, &1u64, &TOPIC, true).await)
    };
    let (hb2, body2) = if part == "h" {
        (mutate(&hb, mop, pos, val), body.clone())
    } else {
        (hb.clone(), body.as_ref().map(|b| mutate(b, mop, pos, val)))
    };
    let dec: Header<E> = match decode_cbor(&hb2[..]) {
        Ok(h) => h,
        Err(_) => return format!("base={base} | NODEC"),
    };
    let sym = Sym {
        sig: header.signature.expect("signed").to_bytes().to_vec(),
        body_hash: body.as_ref().map(|b| Hash::digest(b).as_bytes().to_vec()),
        fresh: RefCell::new(Vec::new()),
    };
    let same = dec.to_bytes() == hb && body2 == body;
    let op = Operation { hash: dec.hash(), header: dec, body: body2.clone().map(Body::from) };
    let shown = sym.header(&op.header);
    let verdict = judge(&op, true, false).await;
    format!(
        "base={} | DEC {} body={} | {} same={}",
        base,
        shown,
        body2.map(|b| tok::rle(&b)).unwrap_or("-".into()),
        verdict,
        same as u8
    )
}

async fn run(payload: &str) -> String {
    let secs: Vec<Vec<&str>> = payload.split(" | ").map(|s| s.split_whitespace().collect()).collect();
    let head = &secs[0];
    match head[0] {
        "val" => {
            let prune = head[2] == "1";
            let twice = head[3] == "1";
            let signer = secs[2][0];
            let sigmode = secs[2][1];
            let body = body_word(secs[4][0]);
            if head[1] == "unit" {
                val_case(unit_header(&secs[1]), signer, sigmode, unit_header(&secs[3]), body, prune, twice).await
            } else {
                val_case(node_header(&secs[1]), signer, sigmode, node_header(&secs[3]), body, prune, twice).await
            }
        }
        "resub" => {
            let signer = secs[2][0];
            let sigmode = secs[2][1];
            let body = body_word(secs[4][0]);
            let body0 = body_word(secs[5][0]);
            let key: usize = secs[1][0].parse().expect("key");
            if head[1] == "unit" {
                resub_case(unit_header(&secs[1]), key, body0, signer, sigmode, unit_header(&secs[3]), body).await
            } else {
                resub_case(node_header(&secs[1]), key, body0, signer, sigmode, node_header(&secs[3]), body).await
            }
        }
        "byte" => {
            let part = head[2];
            let mop = head[3];
            let pos: usize = head[4].parse().expect("pos");
            let val: u8 = head[5].parse().expect("val");
            let key: usize = secs[1][0].parse().expect("key");
            let body = body_word(secs[2][0]);
            if head[1] == "unit" {
                byte_case(unit_header(&secs[1]), key, body, part, mop, pos, val).await
            } else {
                byte_case(node_header(&secs[1]), key, body, part, mop, pos, val).await
            }
        }
        "len" => {
            // helper for the generator: length of the encoded header of a byte case
            let key: usize = secs[1][0].parse().expect("key");
            if head[1] == "unit" {
                let mut h = unit_header(&secs[1]);
                h.sign(&tok::key(key));
                format!("{}", h.to_bytes().len())
            } else {
                let mut h = node_header(&secs[1]);
                h.sign(&tok::key(key));
                format!("{}", h.to_bytes().len())
            }
        }
        _ => "BADCASE".into(),
    }
}
