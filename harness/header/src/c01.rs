pub fn main() {
    h_common::run_cases(|_p| "TODO".to_string());
}
