//! C02: header CBOR encoding round trip / determinism, on the real `Header<E>` serializers.
//!
//! `hdr <ext> <k> <version> <psize> <phash|-> <seq> <backlink|-> <ext args>`
//!     ext args: unit: none | u64: n | basic: <log bytes> <ts> <0|1> | causal: <log bytes> <ts> <hash bytes>*
//!     -> `<tokens of to_bytes()> | rt=<b> ver=<b> nenc=<n> nhash=<n> nver=<n>`
//!     (rt: decode(bytes) == header; ver: the decoded header verifies; then the same bytes are
//!     decoded 20 times: number of distinct re-encodings (incl. the original bytes), distinct
//!     hashes (incl. the original), number of decodes that verify)
//! `tok <unit|u64|node> <token>*`
//!     -> `OK <decoded header> | <tokens of its re-encoding>` or `ERR`
use std::collections::{BTreeSet, HashSet};

use p2panda::operation::Extensions as NodeExt;
use p2panda_core::cbor::{decode_cbor, encode_cbor};
use p2panda_core::{Extensions, Hash, Header, Timestamp};

use crate::tok::{self, Canon, Tok};

pub trait ExtShow: Extensions + PartialEq {
    fn show(&self, c: &Canon) -> String;
}

impl ExtShow for () {
    fn show(&self, _c: &Canon) -> String {
        "unit".into()
    }
}

impl ExtShow for u64 {
    fn show(&self, _c: &Canon) -> String {
        format!("u64:{self}")
    }
}

impl ExtShow for NodeExt {
    /// The variant of a Node extension is private; the value is observed through its own
    /// serialisation (elements of `previous` sorted, as a set).
    fn show(&self, c: &Canon) -> String {
        let bytes = encode_cbor(self).expect("encode ext");
        let toks = tok::parse_bytes(&bytes).unwrap_or_default();
        match toks.as_slice() {
            [Tok::Seq(5), Tok::UInt(1), Tok::UInt(0), Tok::Bytes(l), Tok::UInt(t), Tok::Bool(p)] => {
                format!("basic:{}:{}:{}", c.hex(l), t, if *p { "T" } else { "F" })
            }
            [Tok::Seq(5), Tok::UInt(1), Tok::UInt(1), Tok::Bytes(l), Tok::UInt(t), Tok::Seq(n), rest @ ..]
                if rest.len() as u64 == *n =>
            {
                // ascending order of the (canonical) bytes, as the model prints the set
                let mut bs: Vec<Vec<u8>> = rest
                    .iter()
                    .map(|t| match t {
                        Tok::Bytes(b) => c.bytes(b),
                        _ => vec![],
                    })
                    .collect();
                bs.sort();
                let hs: Vec<String> = bs.iter().map(|b| tok::rle(b)).collect();
                format!("causal:{}:{}:{}", c.hex(l), t, hs.join(","))
            }
            _ => format!("?{}", c.render(&toks)),
        }
    }
}

pub fn show_header<E: ExtShow>(h: &Header<E>, c: &Canon) -> String {
    let opt = |o: &Option<Hash>| o.map(|x| c.hex(x.as_bytes())).unwrap_or("-".into());
    format!(
        "v={} pk={} sig={} ps={} ph={} sq={} bl={} ext={}",
        h.version,
        c.hex(h.verifying_key.as_bytes()),
        h.signature.map(|s| c.hex(&s.to_bytes())).unwrap_or("-".into()),
        h.payload_size,
        opt(&h.payload_hash),
        h.seq_num,
        opt(&h.backlink),
        h.extensions.show(c)
    )
}

pub fn hash_of(hexs: &str) -> Hash {
    let b = tok::unrle(hexs);
    Hash::try_from(&b[..]).expect("hash of 32 bytes")
}

pub fn opt_hash(w: &str) -> Option<Hash> {
    if w == "-" { None } else { Some(hash_of(w)) }
}

/// Build a Node extensions value the way a remote peer's bytes would: decode hand-assembled CBOR.
pub fn node_ext(kind: &str, args: &[&str]) -> Result<NodeExt, String> {
    let log = tok::unrle(args[0]);
    let ts: u64 = args[1].parse().expect("ts");
    let mut toks = vec![
        Tok::Seq(5),
        Tok::UInt(1),
        Tok::UInt(if kind == "basic" { 0 } else { 1 }),
        Tok::Bytes(log),
        Tok::UInt(ts),
    ];
    if kind == "basic" {
        toks.push(Tok::Bool(args[2] == "1"));
    } else {
        let hs = &args[2..];
        toks.push(Tok::Seq(hs.len() as u64));
        for h in hs {
            toks.push(Tok::Bytes(tok::unrle(h)));
        }
    }
    decode_cbor::<NodeExt, _>(&tok::emit(&toks)[..]).map_err(|e| format!("{e:?}"))
}

/// Build a causal Node extensions value locally, the way its author would (repo hook
/// `Extensions::verif_causal`): the hashes are inserted into a fresh `HashSet` in the order given.
pub fn causal_ext_local(args: &[&str]) -> NodeExt {
    let log = hash_of(args[0]);
    let ts: u64 = args[1].parse().expect("ts");
    let mut previous: HashSet<Hash> = HashSet::new();
    for h in &args[2..] {
        previous.insert(hash_of(h));
    }
    NodeExt::verif_causal(log, Timestamp::new(ts), previous)
}

fn observe<E: ExtShow>(header: Header<E>, k: usize) -> String {
    observe_with(header, k, true)
}

/// `wire_ok`: the extensions value was also obtained by decoding a peer's bytes and is equal
/// to the locally built one (part of `rt`).
fn observe_with<E: ExtShow>(mut header: Header<E>, k: usize, wire_ok: bool) -> String {
    header.sign(&tok::key(k));
    let canon = Canon { sig: header.signature.map(|s| s.to_bytes().to_vec()) };
    let bytes = header.to_bytes();
    // the same value encodes to the same bytes when asked twice
    let stable = header.to_bytes() == bytes && header.clone().to_bytes() == bytes;
    let toks = match tok::parse_bytes(&bytes) {
        Some(t) => canon.render(&t),
        None => "UNPARSABLE".into(),
    };
    let first: Result<Header<E>, _> = decode_cbor(&bytes[..]);
    let (rt, ver) = match &first {
        Ok(d) => (*d == header && stable && wire_ok, d.verify()),
        Err(_) => (false, false),
    };
    let (mut nenc, mut nhash, mut nver) = (0, 0, 0);
    if first.is_ok() {
        let mut encs: BTreeSet<Vec<u8>> = BTreeSet::new();
        let mut hashes: BTreeSet<Hash> = BTreeSet::new();
        encs.insert(bytes.clone());
        hashes.insert(header.hash());
        for _ in 0..20 {
            if let Ok(d) = decode_cbor::<Header<E>, _>(&bytes[..]) {
                encs.insert(d.to_bytes());
                hashes.insert(d.hash());
                if d.verify() {
                    nver += 1;
                }
            }
        }
        nenc = encs.len();
        nhash = hashes.len();
    }
    format!(
        "{} | rt={} ver={} nenc={} nhash={} nver={}",
        toks, rt as u8, ver as u8, nenc, nhash, nver
    )
}

fn hdr(w: &[&str]) -> String {
    let ext = w[0];
    let k: usize = w[1].parse().expect("key");
    let version: u16 = w[2].parse().expect("version");
    let payload_size: u32 = w[3].parse().expect("psize");
    let payload_hash = opt_hash(w[4]);
    let seq_num: u32 = w[5].parse().expect("seq");
    let backlink = opt_hash(w[6]);
    let verifying_key = tok::key(k).verifying_key();
    macro_rules! build {
        ($e:expr) => {
            Header {
                version,
                verifying_key,
                signature: None,
                payload_size,
                payload_hash,
                seq_num,
                backlink,
                extensions: $e,
            }
        };
    }
    match ext {
        "unit" => observe(build!(()), k),
        "u64" => observe(build!(w[7].parse::<u64>().expect("u64")), k),
        "basic" => match node_ext(ext, &w[7..]) {
            Ok(e) => observe(build!(e), k),
            Err(e) => format!("EXTERR {e}"),
        },
        "causal" => {
            // built locally by the author (any number of `previous` hashes) and, independently,
            // received as a remote peer's bytes (elements in the order of the case line): both
            // must be the same value
            let local = causal_ext_local(&w[7..]);
            let wire_ok = matches!(node_ext(ext, &w[7..]), Ok(e) if e == local);
            observe_with(build!(local), k, wire_ok)
        }
        _ => "BADCASE".into(),
    }
}

fn tok_case<E: ExtShow>(toks: &[Tok]) -> String {
    let bytes = tok::emit(toks);
    match decode_cbor::<Header<E>, _>(&bytes[..]) {
        Ok(h) => {
            let canon = Canon { sig: None };
            let re = h.to_bytes();
            let re_toks = match tok::parse_bytes(&re) {
                Some(t) => canon.render(&t),
                None => "UNPARSABLE".into(),
            };
            format!("OK {} | {}", show_header(&h, &canon), re_toks)
        }
        Err(_) => "ERR".into(),
    }
}

pub fn run(payload: &str) -> String {
    let w: Vec<&str> = payload.split_whitespace().collect();
    match w[0] {
        "hdr" => hdr(&w[1..]),
        "tok" => {
            let toks = tok::parse_text(&w[2..]);
            match w[1] {
                "unit" => tok_case::<()>(&toks),
                "u64" => tok_case::<u64>(&toks),
                "node" => tok_case::<NodeExt>(&toks),
                _ => "BADCASE".into(),
            }
        }
        _ => "BADCASE".into(),
    }
}
