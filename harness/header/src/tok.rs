//! CBOR at the token level: one token = one CBOR head (plus the payload of a byte string).
//! Emission is hand-written (definite lengths, shortest heads — what ciborium emits); parsing of
//! bytes produced by the implementation goes through `ciborium::Value`.
use ciborium::Value;
use p2panda_core::SigningKey;

#[derive(Clone, Debug, PartialEq, Eq)]
pub enum Tok {
    Seq(u64),
    UInt(u64),
    Bytes(Vec<u8>),
    Bool(bool),
    /// anything the token model does not have (text, map, float, negative, tag ...)
    Other(String),
}

/// Key pool: index k -> signing key with seed bytes [k+1; 32].
pub fn key(k: usize) -> SigningKey {
    SigningKey::from_bytes(&[(k as u8).wrapping_add(1); 32])
}

pub const POOL: usize = 8;

fn head(major: u8, n: u64, out: &mut Vec<u8>) {
    let m = major << 5;
    if n < 24 {
        out.push(m | n as u8);
    } else if n < 1 << 8 {
        out.push(m | 24);
        out.push(n as u8);
    } else if n < 1 << 16 {
        out.push(m | 25);
        out.extend_from_slice(&(n as u16).to_be_bytes());
    } else if n < 1 << 32 {
        out.push(m | 26);
        out.extend_from_slice(&(n as u32).to_be_bytes());
    } else {
        out.push(m | 27);
        out.extend_from_slice(&n.to_be_bytes());
    }
}

pub fn emit(toks: &[Tok]) -> Vec<u8> {
    let mut out = Vec::new();
    for t in toks {
        match t {
            Tok::Seq(n) => head(4, *n, &mut out),
            Tok::UInt(n) => head(0, *n, &mut out),
            Tok::Bytes(b) => {
                head(2, b.len() as u64, &mut out);
                out.extend_from_slice(b);
            }
            Tok::Bool(b) => out.push(if *b { 0xf5 } else { 0xf4 }),
            Tok::Other(_) => out.push(0xf6),
        }
    }
    out
}

fn flatten(v: &Value, out: &mut Vec<Tok>) {
    match v {
        Value::Integer(i) => {
            let i: i128 = (*i).into();
            if i >= 0 && i <= u64::MAX as i128 {
                out.push(Tok::UInt(i as u64))
            } else {
                out.push(Tok::Other("int".into()))
            }
        }
        Value::Bytes(b) => out.push(Tok::Bytes(b.clone())),
        Value::Bool(b) => out.push(Tok::Bool(*b)),
        Value::Array(a) => {
            out.push(Tok::Seq(a.len() as u64));
            for x in a {
                flatten(x, out);
            }
        }
        Value::Text(_) => out.push(Tok::Other("text".into())),
        Value::Map(_) => out.push(Tok::Other("map".into())),
        Value::Null => out.push(Tok::Other("null".into())),
        Value::Float(_) => out.push(Tok::Other("float".into())),
        Value::Tag(..) => out.push(Tok::Other("tag".into())),
        _ => out.push(Tok::Other("other".into())),
    }
}

/// Parse bytes (one top-level item) into tokens; `None` if ciborium cannot parse them or bytes
/// are left over.
pub fn parse_bytes(bytes: &[u8]) -> Option<Vec<Tok>> {
    let mut rd = bytes;
    let v: Value = ciborium::de::from_reader(&mut rd).ok()?;
    if !rd.is_empty() {
        return None;
    }
    let mut out = Vec::new();
    flatten(&v, &mut out);
    // the model's encoder is only comparable if re-emitting the tokens gives the same bytes
    if emit(&out) != bytes {
        out.push(Tok::Other("noncanonical".into()));
    }
    Some(out)
}

/// Canonical names: public keys of the pool -> 32 x index, `sig` (if given) -> 64 x 0.
pub struct Canon {
    pub sig: Option<Vec<u8>>,
}

impl Canon {
    pub fn bytes(&self, b: &[u8]) -> Vec<u8> {
        if b.len() == 32 {
            for k in 0..POOL {
                if key(k).verifying_key().as_bytes() == b {
                    return vec![k as u8; 32];
                }
            }
        }
        if let Some(s) = &self.sig {
            if s.as_slice() == b {
                return vec![0u8; 64];
            }
        }
        b.to_vec()
    }

    /// canonical bytes in run-length form `x<count>*<byte>_...`
    pub fn hex(&self, b: &[u8]) -> String {
        rle(&self.bytes(b))
    }

    pub fn render(&self, toks: &[Tok]) -> String {
        toks.iter()
            .map(|t| match t {
                Tok::Seq(n) => format!("[{n}]"),
                Tok::UInt(n) => format!("{n}"),
                Tok::Bytes(b) => self.hex(b),
                Tok::Bool(true) => "T".into(),
                Tok::Bool(false) => "F".into(),
                Tok::Other(s) => format!("?{s}"),
            })
            .collect::<Vec<_>>()
            .join(" ")
    }
}

/// Run-length rendering of a byte string: `x5*2_27*9` = five 2s then twenty-seven 9s.
pub fn rle(b: &[u8]) -> String {
    let mut runs: Vec<(usize, u8)> = Vec::new();
    for x in b {
        match runs.last_mut() {
            Some((c, v)) if v == x => *c += 1,
            _ => runs.push((1, *x)),
        }
    }
    format!(
        "x{}",
        runs.iter().map(|(c, v)| format!("{c}*{v}")).collect::<Vec<_>>().join("_")
    )
}

pub fn unrle(w: &str) -> Vec<u8> {
    let r = w.strip_prefix('x').expect("bytes start with x");
    let mut out = Vec::new();
    if r.is_empty() {
        return out;
    }
    for run in r.split('_') {
        let (c, v) = run.split_once('*').expect("run");
        let c: usize = c.parse().expect("run count");
        let v: u8 = v.parse().expect("run byte");
        out.extend(std::iter::repeat(v).take(c));
    }
    out
}

/// Parse the textual token form used in case lines: `[n]`, decimal, `x<runs>`, `K<k>`, `T`, `F`.
pub fn parse_text(words: &[&str]) -> Vec<Tok> {
    words
        .iter()
        .map(|w| {
            if let Some(r) = w.strip_prefix('[') {
                Tok::Seq(r.trim_end_matches(']').parse().expect("seq"))
            } else if w.starts_with('x') {
                Tok::Bytes(unrle(w))
            } else if let Some(r) = w.strip_prefix('K') {
                let k: usize = r.parse().expect("key index");
                Tok::Bytes(key(k).verifying_key().as_bytes().to_vec())
            } else if *w == "T" {
                Tok::Bool(true)
            } else if *w == "F" {
                Tok::Bool(false)
            } else {
                Tok::UInt(w.parse().expect("uint"))
            }
        })
        .collect()
}
