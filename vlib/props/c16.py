"""C16 — Ephemeral messages are authentic and unique per publish."""

ID = "C16"
HARNESS_PKG = "h_eph"
HARNESS_ARGS = ["c16"]
COQ_IMPORTS = "From PV Require Import Model.Timestamp Model.Ephemeral Oracle.C16."
TECHNIQUE = ("Coq proof over a symbolic model of the wrapped message (ideal signature scheme and injective encodings as explicit premises) "
             "and of the publisher (hybrid timestamp of C18) + differential correspondence with the real EphemeralStreamSubscription / "
             "EphemeralStreamPublisher over local channels (real Ed25519 keys, real CBOR, mock clock)")
LEVEL_TEXT = ("Proved in Coq for every signature scheme/encoding satisfying the stated premises: C16_yielded_authentic, C16_accept_iff (a "
              "signature by key k over fields f1 arriving with fields f2 is yielded iff f1 = f2, k is the claimed author's key and the version "
              "is supported), C16_tamper_rejected, C16_forged_rejected, C16_timestamps_strictly_increase (any clock script: all publishes "
              "succeed, timestamps strictly increase, messages are yielded by subscribers), C16_no_two_equal_messages, "
              "C16_premises_satisfiable, C16_oracle_pub_sound, C16_sequence_yields_authentic_only (a subscription run over any sequence of "
              "incoming items yields exactly the authentic ones in order, whatever precedes an item), C16_tampered_copy_after_original_rejected, "
              "C16_oracle_seq_sound. Tied to p2panda/src/streams/ephemeral_stream.rs on every run through the real "
              "decode/verify path of a subscription built with the crate's own constructor: honest, field-tampered (every field), re-signed "
              "(other key, same claimed author), damaged-signature, foreign-signature messages, really published messages with one field changed, sequences of all of these on one subscription (bad copy directly after / after a duplicate of / before its original); byte-level tampering of honest messages at "
              "every byte position, every truncation, trailing bytes; the real publisher under a scripted mock clock (forwards, equal, "
              "backwards) with its bytes decoded, compared and fed back into a subscription.")
LEVEL_NOTE = ("Trusted (premises of the theorems, not verified): Ed25519 verify accepts exactly the key owner's signature and signatures do "
              "not collide (ideal EUF-CMA as an equation); the CBOR encoding of the signed tuple and of the wire tuple is injective; "
              "byte-level decoding is not modelled (a tampered byte string is taken to be undecodable or to decode to different fields; "
              "trailing bytes ignored) - these are observed by the harness on every run. Coq kernel + vm_compute; harness/python glue. "
              "Correspondence is differential testing.")
ASSUMPTIONS = ["ideal signatures: verify pk m s = true <-> s = sign (sk_of pk) m; sign k m = sign k' m' -> k = k' /\\ m = m' (Ed25519 not verified)",
               "CBOR encoding of the signed tuple / wire tuple injective (ciborium not verified)",
               "number of publishes of one publisher < 2^64 (logical counter overflow boundary of C18)"]
TRUSTED = ["modelled not verified: Ed25519, ciborium encode/decode (byte level), the gossip overlay between publish and subscriptions (replaced by local channels through cfg hooks)"]
RULE = ("quick: ~300 forge cases (honest + each single field of version/author/time/logical/body changed after signing, re-signed by "
        "another key, damaged signature, signature of another message; boundary timestamps; random mixes), byte tampering of 2 honest "
        "messages at every position 0..149 x 3 masks + every truncation + trailing bytes, 120 remix cases (a really published message, one field "
        "changed under the original signature), ~350 seq cases (a sequence of such messages on ONE subscription, drained per message or once: "
        "every tampered field / re-signed / damaged copy directly after its original, after a duplicate of it, after another valid message, "
        "before it; random sequences of 2..10), 192 rseq cases (really published original and its remixed copy on one subscription: O R, "
        "O O R, R O, O R O R), 150 publisher scripts (<= 8 publishes, equal "
        "bodies, clock earlier/equal/later, boundaries); thorough: 2500 forge, 4 messages x 9 masks, 1500 scripts (<= 30 publishes). "
        "non-trivial = a tampered/re-signed/forged message, or a publisher script with >= 2 publishes containing a clock reading not "
        "later than the previous timestamp")

U64 = (1 << 64) - 1
BODIES = ["", "a", "b", "hello", "hello world!", "été", "0"]


def bnum(s):
    return int.from_bytes(b"\x01" + s.encode(), "big")


def bhex(s):
    return s.encode().hex() if s else "-"


def _near(rng, x):
    r = rng.random()
    if r < 0.3:
        return x
    if r < 0.55:
        return max(0, min(U64, x + rng.choice([-1, 1]) * rng.randint(1, 3)))
    if r < 0.75:
        return max(0, min(U64, x + rng.choice([-1, 1]) * rng.randint(1, 1 << rng.randint(1, 62))))
    if r < 0.85:
        return rng.choice([0, 1, U64, U64 - 1, 1 << 63])
    return rng.randint(0, U64)


def _forge(signer, f1, f2, sigmut=0):
    return {"k": "forge", "signer": signer, "f1": list(f1), "f2": list(f2), "sigmut": sigmut}


def gen(tier, rng):
    quick = tier == "quick"
    nforge, nbases, masks, npub, publen = (150, 2, [0x01, 0x80, 0xFF], 150, 8) if quick else \
        (2300, 4, [1, 2, 4, 8, 16, 32, 64, 128, 0xFF], 1500, 30)
    # structured forge cases
    bases = [(1, 1, 1000, 0, "hello"), (1, 2, 0, 0, ""), (1, 3, U64, U64, "hello world!"), (1, 0, 1 << 40, 7, "a")]
    for f in bases:
        ver, pk, t, l, b = f
        yield _forge(pk, f, f)                                   # honest
        yield _forge(pk, f, (2, pk, t, l, b))                    # version changed after signing
        yield _forge(pk, (2, pk, t, l, b), (2, pk, t, l, b))     # honestly signed unsupported version
        yield _forge(pk, (0, pk, t, l, b), (0, pk, t, l, b))
        yield _forge(pk, f, (1, (pk + 1) % 6, t, l, b))          # author replaced
        yield _forge(pk, f, (1, pk, (t + 1) & U64, l, b))        # time
        yield _forge(pk, f, (1, pk, t, (l + 1) & U64, b))        # logical part
        yield _forge(pk, f, (1, pk, t, l, b + "x" if len(b) < 12 else "x"))  # body
        yield _forge((pk + 1) % 6, f, f)                         # re-signed by another key, same claimed author
        yield _forge(pk, f, f, 1)                                # damaged signature
        yield _forge(pk, (1, pk, t ^ 1, l, "other"), f)          # signature of another message of the same author
        yield _forge(pk, f, (1, pk, l, t, b))                    # time and logical swapped
    for _ in range(nforge):
        pk = rng.randrange(6)
        t = _near(rng, rng.choice([0, 1000, 1 << 40, U64]))
        l = rng.choice([0, 1, 2, rng.randint(0, U64)])
        b = rng.choice(BODIES)
        f1 = [1 if rng.random() < 0.85 else rng.choice([0, 2, U64]), pk, t, l, b]
        f2 = list(f1)
        if rng.random() < 0.6:
            for _ in range(rng.randint(1, 2)):
                i = rng.randrange(5)
                f2[i] = [rng.choice([0, 1, 2]), rng.randrange(6), _near(rng, t), _near(rng, l), rng.choice(BODIES)][i]
        signer = f1[1] if rng.random() < 0.7 else rng.randrange(6)
        yield _forge(signer, f1, f2, 1 if rng.random() < 0.1 else 0)
    # byte-level tampering
    bb = [(1, 1000, 0, "hello"), (2, U64, U64, "hello world!"), (3, 0, 5, ""), (4, 1 << 33, 300, "été")][:nbases]
    for pk, t, l, b in bb:
        base = {"k": "bytes", "pk": pk, "t": t, "l": l, "body": b}
        yield dict(base, op="n", a=0, m=0)
        for a in range(4):
            yield dict(base, op="a", a=a, m=rng.randrange(256))
        for pos in range(150):
            for m in masks:
                yield dict(base, op="x", a=pos, m=m)
            yield dict(base, op="c", a=pos, m=0)
    # really published messages, one field changed under the original signature
    for signer in range(2 if quick else 6):
        for t0, now in ((1000, 500), (1000, 1000), (1000, 2000), (0, 0), (U64 - 1, 5)):
            for b in ("", "hello"):
                for field in "nvktlb":
                    yield {"k": "remix", "signer": signer, "t0": t0, "now": now, "body": b, "field": field}
    # sequences on ONE subscription: tampered / re-signed / damaged copies directly after their original, after a duplicate of it,
    # after another valid message, before it
    def H(f):
        return [f[1], list(f), list(f), 0]

    def variants(f):
        ver, pk, t, l, b = f
        return [[pk, list(f), [2, pk, t, l, b], 0], [pk, list(f), [1, (pk + 1) % 6, t, l, b], 0],
                [pk, list(f), [1, pk, (t + 1) & U64, l, b], 0], [pk, list(f), [1, pk, t, (l + 1) & U64, b], 0],
                [pk, list(f), [1, pk, t, l, (b + "x") if len(b) < 12 else "x"], 0],
                [(pk + 1) % 6, list(f), list(f), 0], [pk, list(f), list(f), 1]]

    sbases = [((1, 1, 1000, 0, "hello"), (1, 1, 1001, 0, "a")), ((1, 2, 0, 0, ""), (1, 3, 0, 0, ""))]
    if not quick:
        sbases += [((1, 3, U64, U64, "hello world!"), (1, 3, U64, 0, "b")), ((1, 0, 1 << 40, 7, "a"), (1, 5, 1 << 40, 7, "a"))]
    for f, g in sbases:
        for x in variants(f):
            for pat in ([H(f), x], [H(f), H(f), x], [H(f), H(g), x], [x, H(f)], [H(f), x, H(g)], [H(f), x, H(f), x],
                        [H(g), H(f), x, x, H(f)]):
                for mode in "sb":
                    yield {"k": "seq", "mode": mode, "msgs": pat}
    for _ in range(150 if quick else 1500):
        pool = []
        for _ in range(rng.randint(1, 3)):
            pool.append((1, rng.randrange(6), _near(rng, rng.choice([0, 1000, 1 << 40])), rng.choice([0, 1, 5]), rng.choice(BODIES)))
        msgs, last = [], None
        for _ in range(rng.randint(2, 10)):
            r = rng.random()
            if last is not None and r < 0.45:
                msgs.append(rng.choice(variants(last)))           # a bad copy of the message just delivered
            elif last is not None and r < 0.55:
                msgs.append(H(last))                              # exact duplicate
            elif r < 0.65:
                msgs.append(rng.choice(variants(rng.choice(pool))))
            else:
                last = rng.choice(pool)
                msgs.append(H(last))
        yield {"k": "seq", "mode": rng.choice("sb"), "msgs": msgs}
    for signer in range(2 if quick else 6):
        for t0, now in ((1000, 500), (1000, 2000)) if quick else ((1000, 500), (1000, 1000), (1000, 2000), (0, 0), (U64 - 1, 5)):
            for b in ("", "hello"):
                for field in "nvktlb":
                    for place in "adbm":
                        yield {"k": "rseq", "signer": signer, "t0": t0, "now": now, "body": b, "field": field, "place": place}
    # publisher scripts
    for i in range(npub):
        t0 = _near(rng, rng.choice([0, 1000, 1 << 40, U64 - 3]))
        cur = t0
        script = []
        same = rng.choice(BODIES) if rng.random() < 0.6 else None
        for _ in range(rng.randint(1, publen)):
            now = _near(rng, cur)
            cur = max(cur, now)
            script.append([now, same if same is not None else rng.choice(BODIES)])
        yield {"k": "pub", "signer": rng.randrange(6), "t0": t0, "script": script}


def harness_line(c):
    if c["k"] == "forge":
        f1, f2 = c["f1"], c["f2"]
        return "forge %d %d %d %d %d %s %d %d %d %d %s %d" % (c["signer"], f1[0], f1[1], f1[2], f1[3], bhex(f1[4]),
                                                             f2[0], f2[1], f2[2], f2[3], bhex(f2[4]), c["sigmut"])
    if c["k"] == "bytes":
        return "bytes %d %d %d %s %s %d %d" % (c["pk"], c["t"], c["l"], bhex(c["body"]), c["op"], c["a"], c["m"])
    if c["k"] == "remix":
        return "remix %d %d %d %s %s" % (c["signer"], c["t0"], c["now"], bhex(c["body"]), c["field"])
    if c["k"] == "seq":
        return "seq %s %s" % (c["mode"], " ".join("%d %d %d %d %d %s %d %d %d %d %s %d" % (
            sg, f1[0], f1[1], f1[2], f1[3], bhex(f1[4]), f2[0], f2[1], f2[2], f2[3], bhex(f2[4]), mut) for sg, f1, f2, mut in c["msgs"]))
    if c["k"] == "rseq":
        return "rseq %d %d %d %s %s %s" % (c["signer"], c["t0"], c["now"], bhex(c["body"]), c["field"], c["place"])
    return "pub %d %d %s" % (c["signer"], c["t0"], " ".join("%d %s" % (n, bhex(b)) for n, b in c["script"]))


def _uint_len(n):
    return 1 if n < 24 else 2 if n < 256 else 3 if n < 65536 else 5 if n < (1 << 32) else 9


def wire_len(c):
    """length of the honest wire message of a `bytes` case: array(6) header, version, key (bytes 32), signature (bytes 64),
    time, logical, body (text)"""
    nb = len(c["body"].encode())
    return 1 + 1 + 34 + 66 + _uint_len(c["t"]) + _uint_len(c["l"]) + _uint_len(nb) + nb


def carrier_only(c):
    """Byte edits that change the carrier but not the decoded tuple: none, trailing bytes, and an array header that declares more
    than the six elements or an indefinite length (ciborium's tuple visitor reads six elements and does not look at the rest)."""
    if c["op"] in "na":
        return True
    if c["op"] == "x" and c["a"] % wire_len(c) == 0:
        h = 0x86 ^ c["m"]
        return (h >> 5) == 4 and ((h & 31) in range(6, 24) or (h & 31) == 31)
    return False


def _fields(f):
    return "{| ver := %d%%N; author := %d%%N; time := %d%%N; logical := %d%%N; body := %d%%N |}" % (f[0], f[1], f[2], f[3], bnum(f[4]))


def _script(s):
    return "[" + ";".join("(%d%%N, %d%%N)" % (n, bnum(b)) for n, b in s) + "]"


def _specs(c):
    return "[" + ";".join("(%d%%N, %s, %s, %s)" % (sg, _fields(f1), _fields(f2), "true" if mut else "false")
                          for sg, f1, f2, mut in c["msgs"]) + "]"


def _rseq_args(c):
    return "%d%%N %d%%N %d%%N %d%%N %d%%N %d%%N" % (c["signer"], c["t0"], c["now"], bnum(c["body"]), "nvktlb".index(c["field"]),
                                                 "adbm".index(c["place"]))


def _group(g):
    """`-` or `Yp:t:b,Yp:t:b` -> Gallina list of observations (a foreign key `?` gets an index no scenario key has)"""
    if g == "-":
        return "[]"
    out = []
    for tk in g.split(","):
        if not tk.startswith("Y"):
            raise ValueError("unexpected token " + tk)
        p, t, b = tk[1:].split(":")
        out.append("(%d%%N, %d%%N, %d%%N)" % (999999 if p == "?" else int(p), int(t), int(b)))
    return "[" + ";".join(out) + "]"


def coq_model(c):
    if c["k"] == "seq":
        return "model_line_seq %s %s" % ("true" if c["mode"] == "s" else "false", _specs(c))
    if c["k"] == "rseq":
        return "model_line_rseq " + _rseq_args(c)
    if c["k"] == "forge":
        return "model_line_forge %d%%N %s %s %s" % (c["signer"], _fields(c["f1"]), _fields(c["f2"]), "true" if c["sigmut"] else "false")
    if c["k"] == "bytes":
        return "model_line_bytes %d%%N %d%%N %d%%N %d%%N %s" % (c["pk"], c["t"], c["l"], bnum(c["body"]),
                                                            "false" if carrier_only(c) else "true")
    if c["k"] == "remix":
        return "model_line_remix %d%%N %d%%N %d%%N %d%%N %d%%N" % (c["signer"], c["t0"], c["now"], bnum(c["body"]), "nvktlb".index(c["field"]))
    return "model_line_pub %d%%N %d%%N %s" % (c["signer"], c["t0"], _script(c["script"]))


def _obs(impl):
    s = impl.strip()
    if s == "-":
        return "None"
    toks = s.split()
    if len(toks) != 1 or not toks[0].startswith("Y"):
        raise ValueError("more than one yield")
    p, t, b = toks[0][1:].split(":")
    return "(Some (%d%%N, %d%%N, %d%%N))" % (int(p), int(t), int(b))


def coq_oracle(c, impl):
    if c["k"] == "seq":
        groups = impl.split()
        if c["mode"] == "s":
            return "check_step %s [%s]" % (_specs(c), ";".join(_group(g) for g in groups))
        if len(groups) != 1:
            raise ValueError("one group expected")
        return "check_bulk %s %s" % (_specs(c), _group(groups[0]))
    if c["k"] == "rseq":
        groups = impl.split()
        if len(groups) != 1:
            raise ValueError("one group expected")
        return "check_rseq %s %s" % (_rseq_args(c), _group(groups[0]))
    if c["k"] == "forge":
        return "check_forge %d%%N %s %s %s %s" % (c["signer"], _fields(c["f1"]), _fields(c["f2"]),
                                                  "true" if c["sigmut"] else "false", _obs(impl))
    if c["k"] == "bytes":
        return "check_bytes %s %s" % (_fields([1, c["pk"], c["t"], c["l"], c["body"]]), _obs(impl))
    if c["k"] == "remix":
        return "check_remix %d%%N %s" % ("nvktlb".index(c["field"]), _obs(impl))
    toks = impl.split()
    uniq = toks[-1] == "uniq=1"
    toks = toks[:-1]
    complete = not (toks and toks[-1] in ("PANIC", "ERR"))
    if not complete:
        toks = toks[:-1]
    outs = []
    for tk in toks:
        ts, b, ok = tk.split(":")
        t, l = ts.split("/")
        outs.append("((%d%%N, %d%%N), %d%%N, %s)" % (int(t), int(l), int(b), "true" if ok == "1" else "false"))
    return "check_pub %d%%N %s [%s] %s %s" % (c["t0"], _script(c["script"]), ";".join(outs),
                                             "true" if uniq else "false", "true" if complete else "false")


def _tampered(c):
    return c["f1"] != c["f2"] or c["signer"] != c["f2"][1] or c["sigmut"] == 1 or c["f2"][0] != 1


def _spec_bad(m):
    sg, f1, f2, mut = m
    return f1 != f2 or sg != f2[1] or mut == 1 or f2[0] != 1


def nontrivial(c, impl):
    if c["k"] == "seq":
        bad = [_spec_bad(m) for m in c["msgs"]]
        return any(bad) and not all(bad)
    if c["k"] == "rseq":
        return c["field"] != "n"
    if c["k"] == "forge":
        return _tampered(c)
    if c["k"] == "bytes":
        return not carrier_only(c)
    if c["k"] == "remix":
        return c["field"] != "n"
    cur, back = c["t0"], False
    for n, _ in c["script"]:
        if n <= cur:
            back = True
        cur = max(cur, n)
    return back and len(c["script"]) >= 2


def shrink(c):
    if c["k"] == "pub":
        s = c["script"]
        for i in range(len(s)):
            if len(s) > 1:
                yield dict(c, script=s[:i] + s[i + 1:])
        if c["t0"] > 1000:
            yield dict(c, t0=1000)
        for i, (n, b) in enumerate(s):
            for v in (0, 500, n // 2):
                if v < n:
                    yield dict(c, script=s[:i] + [[v, b]] + s[i + 1:])
    elif c["k"] == "seq":
        ms = c["msgs"]
        for i in range(len(ms)):
            if len(ms) > 1:
                yield dict(c, msgs=ms[:i] + ms[i + 1:])
        for i, (sg, f1, f2, mut) in enumerate(ms):
            for j in range(5):
                if f2[j] != f1[j]:
                    g2 = list(f2)
                    g2[j] = f1[j]
                    yield dict(c, msgs=ms[:i] + [[sg, f1, g2, mut]] + ms[i + 1:])
    elif c["k"] == "forge":
        for i in range(5):
            if c["f2"][i] != c["f1"][i]:
                f2 = list(c["f2"])
                f2[i] = c["f1"][i]
                yield dict(c, f2=f2)
        if c["sigmut"]:
            yield dict(c, sigmut=0)


def distribution(cases, impl):
    kinds, yielded, honest, tampered = {}, 0, 0, 0
    seq_bad_after_original, seq_msgs = 0, 0
    for i, c in enumerate(cases):
        kinds[c["k"]] = kinds.get(c["k"], 0) + 1
        if c["k"] == "seq":
            ms = c["msgs"]
            seq_msgs += len(ms)
            for a, b in zip(ms, ms[1:]):
                if not _spec_bad(a) and _spec_bad(b) and b[1] == a[1] and b[3] == 0:
                    seq_bad_after_original += 1
            continue
        if c["k"] == "rseq":
            continue
        if c["k"] == "forge":
            if _tampered(c):
                tampered += 1
            else:
                honest += 1
        if c["k"] not in ("pub",) and (impl.get(i) or "-").startswith("Y"):
            yielded += 1
    return {"kinds": kinds, "forge_honest": honest, "forge_tampered": tampered, "messages_yielded_by_subscription": yielded,
            "seq_messages": seq_msgs, "seq_bad_copy_directly_after_its_authentic_original": seq_bad_after_original}
