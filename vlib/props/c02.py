"""C02 — Header encoding round-trips and is a deterministic function of the header."""
import copy

ID = "C02"
HARNESS_PKG = "h_header"
HARNESS_ARGS = ["c02"]
COQ_IMPORTS = "From PV Require Import Model.Header Oracle.C02."
COQ_SHARD = 70
TECHNIQUE = ("Coq proof over a token-level model of the Header<E> / Node-extensions (de)serializers (round trip, injectivity, "
             "independence of the HashSet iteration order via 'sorting is a function of the multiset') + differential "
             "correspondence with the real serde implementations through ciborium")
LEVEL_TEXT = ("Proved in Coq for every header value, every extension kind ((), one-element type, Node Basic, Node Causal with any set "
              "of previous hashes) and every pair of HashSet iteration orders (arbitrary permutations): C02_dec_enc (decode(encode h) = h), "
              "C02_enc_deterministic, C02_enc_inj, C02_hash_fn_of_value, C02_verify_fn_of_value, C02_verify_after_roundtrip. "
              "C02_unsorted_refuted / C02_unsorted_outside_known record that the serializer before the repair (previous in iteration "
              "order) was not a function of the value exactly for causal extensions with >= 2 previous hashes. The model is tied to "
              "p2panda-core/src/serde.rs and p2panda/src/operation.rs on every run: real headers are encoded, the bytes parsed back "
              "to tokens and compared with the model's encoder; the same bytes are decoded 20 times and re-encodings / hashes / "
              "verify() compared; token-level mutants are fed to the real decoder and to the model's decoder.")
LEVEL_NOTE = ("Modelled, not verified: token<->byte (ciborium, shortest definite-length heads; non-canonical forms ciborium/serde_bytes also "
              "accept are outside the token model), which 32-byte strings are Ed25519 points (parameter key_ok), HashSet iteration = "
              "arbitrary permutation, Ed25519/BLAKE3 as arbitrary functions of the encoding. Correspondence is differential testing.")
ASSUMPTIONS = ["the iteration order of a Rust HashSet is some permutation of its elements (nothing else assumed)",
               "ciborium emits/accepts the canonical token forms the model uses (checked on every generated case by re-emitting the parsed tokens)",
               "header values are compared with Rust's == (HashSet equality for `previous`), modelled by a strictly sorted list"]
TRUSTED = ["modelled not verified: ciborium token<->byte layer, Ed25519 point validity (key_ok), signature/hash primitives",
           "fix commit in the repo worktree: 'fix: serialise causal `previous` hashes in sorted order' (p2panda/src/operation.rs)"]
RULE = ("hdr cases: all presence combinations (payload size/hash x seq/backlink, consistent and inconsistent) x extension kinds "
        "((), u64, Node Basic, Node Causal with 0..3 previous) plus random headers with boundary integers and 0..6 previous hashes in "
        "random wire order; each is signed with a pool key, encoded, parsed back to tokens, decoded 20 times. tok cases: valid token "
        "streams with one token-level mutation (drop/duplicate/retype a token, array count +-1, out-of-range integer, wrong-length "
        "byte string, extension version/variant, excess extension fields, duplicate previous, trailing tokens) decoded by the real "
        "decoder and the model. Boundary cases: every integer field (payload_size, seq_num, version, timestamp, u64 extension) at the "
        "CBOR head-width boundaries 0/1/23/24/255/256/65535/65536/2^32-1/2^32/2^63/2^64-1 (clamped to the field's type); `previous` "
        "sets of 7,16,23,24,25,64,100,101,128,255,256,257,300,1000 hashes (thorough: up to 2000) built locally by the author (repo "
        "hook Extensions::verif_causal, random insertion order) and also decoded from a peer's bytes in that wire order; set members "
        "sharing their first 8/16/30/31 bytes; token streams with 24/101/256 previous hashes, also with a duplicate. "
        "non-trivial = hdr case with a non-unit extension or an optional field present, or any tok case")
NONTRIVIAL_FLOOR = 50

U16, U32, U64 = 2 ** 16, 2 ** 32, 2 ** 64


# A byte string is a list of runs [[count, byte], ...] (run-length form, normalised: no empty run, no two
# adjacent runs with the same byte).  Long literals are slow to parse in coqtop, so the generated
# hashes are short in this form; shared prefixes of several lengths exercise the lexicographic order.

def _norm(runs):
    out = []
    for c, v in runs:
        if c <= 0:
            continue
        if out and out[-1][1] == v:
            out[-1][0] += c
        else:
            out.append([c, v])
    return out


def _expand(runs):
    return tuple(v for c, v in runs for _ in range(c))


def _hexb(rng, n):
    """n bytes with at most three runs"""
    vals = [0, 1, 2, 127, 128, 254, 255, rng.randrange(256)]
    r = rng.random()
    if r < 0.3 or n < 2:
        return _norm([[n, rng.choice(vals)]])
    p = rng.choice([1, 2, n // 2, n - 1])
    if r < 0.8 or n < 3:
        return _norm([[p, rng.choice(vals)], [n - p, rng.choice(vals)]])
    q = rng.randrange(1, n - p) if n - p > 1 else 0
    return _norm([[p, rng.choice(vals)], [q, rng.choice(vals)], [n - p - q, rng.choice(vals)]])


def _bw(runs):
    return "x" + "_".join("%d*%d" % (c, v) for c, v in runs)


def _unbw(w):
    return [[int(a), int(b)] for a, b in (r.split("*") for r in w[1:].split("_") if r)]


def _pick_int(rng, bound, small=0.5):
    edge = [1, 2, 23, 24, 255, 256, 65535, 65536, 2 ** 32 - 1, 2 ** 32, 2 ** 63, 2 ** 64 - 1]
    edge = [e for e in edge if e < bound]
    r = rng.random()
    if r < small:
        return rng.randrange(1, min(bound, 30))
    if r < 0.85:
        return rng.choice(edge)
    return rng.randrange(1, bound)


def _mk_ext(rng, kind, nprev=None):
    if kind == "unit":
        return {"kind": "unit"}
    if kind == "u64":
        return {"kind": "u64", "n": rng.choice([0, 1, 24, 2 ** 64 - 1, rng.randrange(U64)])}
    ts = rng.choice([0, 1, 1700000000000000, 2 ** 64 - 1, rng.randrange(U64)])
    if kind == "basic":
        return {"kind": "basic", "log": _hexb(rng, 32), "ts": ts, "prune": rng.random() < 0.5}
    if nprev is None:
        nprev = rng.choice([0, 1, 2, 2, 3, 3, 4, 5, 6])
    prev = []
    while len(prev) < nprev:
        h = _hexb(rng, 32)
        if all(_expand(h) != _expand(x) for x in prev):
            prev.append(h)
    return {"kind": "causal", "log": _hexb(rng, 32), "ts": ts, "prev": prev}


def _mk_hdr(rng, kind, ps_mode, sq_mode, nprev=None, version=1):
    """ps_mode/sq_mode: (value_nonzero, hash_present)"""
    ps = _pick_int(rng, U32) if ps_mode[0] else 0
    sq = _pick_int(rng, U32) if sq_mode[0] else 0
    return {"kind": "hdr", "key": rng.randrange(8), "version": version, "psize": ps,
            "phash": _hexb(rng, 32) if ps_mode[1] else None, "seq": sq,
            "backlink": _hexb(rng, 32) if sq_mode[1] else None, "ext": _mk_ext(rng, kind, nprev)}


# ---- python copy of the encoder, only used to build starting points for token mutants ----------

def _enc_ext(e):
    k = e["kind"]
    if k == "unit":
        return []
    if k == "u64":
        return [["U", e["n"]]]
    if k == "basic":
        return [["S", 5], ["U", 1], ["U", 0], ["B", e["log"]], ["U", e["ts"]], ["T" if e["prune"] else "F"]]
    return [["S", 5], ["U", 1], ["U", 1], ["B", e["log"]], ["U", e["ts"]], ["S", len(e["prev"])]] + [["B", h] for h in e["prev"]]


def _enc(h, sig):
    t = [["U", h["version"]], ["K", h["key"]], ["B", sig], ["U", h["psize"]]]
    if h["phash"]:
        t.append(["B", h["phash"]])
    t.append(["U", h["seq"]])
    if h["backlink"]:
        t.append(["B", h["backlink"]])
    n = len(t) + (0 if h["ext"]["kind"] == "unit" else 1)
    return [["S", n]] + t + _enc_ext(h["ext"])


def _mutate(rng, toks, kind):
    toks = copy.deepcopy(toks)
    idx = rng.randrange(len(toks))
    m = rng.choice(["drop", "dup", "retype", "cnt+", "cnt-", "range", "len", "extver", "variant", "extexcess", "duprev",
                    "trail", "outer+", "none", "zero"])
    t = toks[idx]
    if m == "drop":
        del toks[idx]
    elif m == "dup":
        toks.insert(idx, copy.deepcopy(t))
    elif m == "retype":
        toks[idx] = rng.choice([["U", rng.randrange(40)], ["B", _hexb(rng, rng.choice([0, 1, 33, 64]))], ["T"], ["F"], ["S", rng.randrange(3)]])
    elif m in ("cnt+", "cnt-"):
        ss = [i for i, x in enumerate(toks) if x[0] == "S"]
        i = rng.choice(ss)
        toks[i][1] = max(0, toks[i][1] + (1 if m == "cnt+" else -1))
    elif m == "range":
        us = [i for i, x in enumerate(toks) if x[0] == "U"]
        i = rng.choice(us)
        toks[i][1] = rng.choice([U16 - 1, U16, U32 - 1, U32, U64 - 1, 0, 1])
    elif m == "len":
        bs = [i for i, x in enumerate(toks) if x[0] in ("B", "K")]
        i = rng.choice(bs)
        toks[i] = ["B", _hexb(rng, rng.choice([0, 31, 33, 63, 65]))]
    elif m == "zero":
        # payload size / seq number set to 0 or made non-zero without touching the hash that follows
        us = [i for i, x in enumerate(toks) if x[0] == "U"]
        i = rng.choice(us)
        toks[i][1] = 0 if toks[i][1] else 7
    elif kind == "node" and m in ("extver", "variant", "extexcess", "duprev"):
        ss = [i for i, x in enumerate(toks) if x[0] == "S"]
        if len(ss) >= 2:
            e = ss[1]
            if m == "extver":
                toks[e + 1][1] = rng.choice([0, 2, 65535])
            elif m == "variant":
                toks[e + 2][1] = rng.choice([0, 1, 2, 65535])
            elif m == "extexcess":
                toks[e][1] += 1
                if rng.random() < 0.7:
                    toks.append(rng.choice([["U", 9], ["B", _hexb(rng, 4)], ["T"]]))
            elif m == "duprev" and len(ss) >= 3 and toks[ss[2]][1] >= 1:
                p = ss[2]
                toks.insert(p + 1, copy.deepcopy(toks[p + 1]))
                toks[p][1] += 1
    elif m == "trail":
        toks.append(rng.choice([["U", 3], ["B", _hexb(rng, 32)], ["F"]]))
    elif m == "outer+":
        toks[0][1] += 1
        toks.append(rng.choice([["U", 3], ["B", _hexb(rng, 32)], ["F"]]))
    return toks


def _tok_case(rng):
    kind = rng.choice(["unit", "u64", "basic", "causal", "causal"])
    h = _mk_hdr(rng, kind, rng.choice([(0, 0), (1, 1)]), rng.choice([(0, 0), (1, 1)]))
    toks = _enc(h, _hexb(rng, 64))
    ek = {"unit": "unit", "u64": "u64", "basic": "node", "causal": "node"}[kind]
    if rng.random() < 0.08:
        ek = rng.choice(["unit", "u64", "node"])  # decode with another extension type
    return {"kind": "tok", "ek": ek, "toks": _mutate(rng, toks, ek)}


# ---- large / boundary `previous` sets, CBOR head-width boundaries ---------------------------------
# CBOR heads change width at 24, 256, 65536, 2^32 (array lengths as well as integers).  The theorem
# C02_dec_enc holds for every size; these cases make the correspondence run probe the widths and the
# sizes the small random sets never reach (a decoder-only limit on the number of `previous` hashes
# is invisible below it).

PREV_SIZES_QUICK = [7, 16, 23, 24, 25, 64, 100, 101, 128, 255, 256, 257, 300, 1000]
PREV_SIZES_THOROUGH = PREV_SIZES_QUICK + [2, 3, 99, 100, 101, 102, 127, 129, 200, 254, 255, 256, 257, 258, 500, 512, 1000, 1023,
                                          1024, 1025, 2000]
INT_EDGES = [0, 1, 23, 24, 255, 256, 65535, 65536, 2 ** 32 - 1, 2 ** 32, 2 ** 63, 2 ** 64 - 1]


def _family(rng, n, p):
    """n distinct 32-byte hashes sharing their first p bytes (p <= 30): the two bytes after the common
    prefix hold a distinct 16-bit value, the tail is one run.  In random (insertion / wire) order."""
    a, b = rng.choice([0, 1, 7, 127, 128, 255]), rng.choice([0, 1, 9, 254, 255])
    if rng.random() < 0.5:
        vals = rng.sample(range(65536), n)
    else:  # dense: neighbours differ in the last of the two bytes only (prefix p + 1 shared)
        base = rng.randrange(65536 - n)
        vals = [base + i for i in range(n)]
        rng.shuffle(vals)
    return [_norm([[p, a], [1, v >> 8], [1, v & 255], [30 - p, b]]) for v in vals]


def _family31(rng, n):
    """n <= 256 distinct hashes whose first 31 bytes are equal"""
    a = rng.choice([0, 1, 7, 127, 128, 255])
    return [_norm([[31, a], [1, v]]) for v in rng.sample(range(256), n)]


def _big_prev(rng, n, p=None):
    """a `previous` set of n hashes: one family, or several families with common prefixes of
    different lengths mixed, in random order"""
    if p is None:
        p = rng.choice([0, 1, 8, 8, 16, 16, 30, 31, "mix"])
    if p == 31 and n > 256:
        p = 30
    if p == 31:
        return _family31(rng, n)
    if p != "mix" or n < 4:
        return _family(rng, n, 8 if p == "mix" else p)
    out, seen = [], set()
    parts = [n // 3, n // 3, n - 2 * (n // 3)]
    for q, m in zip(rng.sample([0, 8, 16, 30], 3), parts):
        for h in _family(rng, m, q):
            if _expand(h) not in seen:
                seen.add(_expand(h))
                out.append(h)
    while len(out) < n:
        h = _hexb(rng, 32)
        if _expand(h) not in seen:
            seen.add(_expand(h))
            out.append(h)
    rng.shuffle(out)
    return out


def _causal_hdr(rng, prev, ps=None, sq=None, ts=None, version=1):
    ps = rng.choice([0, 0, 23, 24, 255, 256, 65535, 65536, 2 ** 32 - 1]) if ps is None else ps
    sq = rng.choice([0, 0, 23, 24, 255, 256, 65535, 65536, 2 ** 32 - 1]) if sq is None else sq
    ts = rng.choice(INT_EDGES) if ts is None else ts
    return {"kind": "hdr", "key": rng.randrange(8), "version": version, "psize": ps, "phash": _hexb(rng, 32) if ps else None,
            "seq": sq, "backlink": _hexb(rng, 32) if sq else None,
            "ext": {"kind": "causal", "log": _hexb(rng, 32), "ts": ts, "prev": prev}}


def _boundary_cases(tier, rng):
    """hdr cases at the CBOR head-width boundaries; returns (ordinary cases, expensive cases)"""
    small, big = [], []
    # every integer field at every width boundary it can hold (payload_size, seq_num: u32; version: u16;
    # timestamp and the u64 extension: u64)
    for v in INT_EDGES:
        w32, w16 = min(v, U32 - 1), min(v, U16 - 1)
        for kind in ("unit", "u64", "basic", "causal"):
            h = _mk_hdr(rng, kind, (1, 1), (1, 1), 2 if kind == "causal" else None, w16)
            h["psize"], h["seq"] = w32, w32
            if w32 == 0:
                h["phash"] = h["backlink"] = None
            if kind == "u64":
                h["ext"]["n"] = v
            elif kind != "unit":
                h["ext"]["ts"] = v
            small.append(h)
    # small sets whose members agree on a long prefix (first 8, 16, 30, 31 bytes)
    for p in (8, 16, 30, 31):
        for n in ((2, 3, 5) if tier == "quick" else (2, 2, 3, 3, 4, 5, 6, 8)):
            small.append(_causal_hdr(rng, _big_prev(rng, n, p)))
    # sizes around the array-length head widths and well beyond any small constant
    sizes = PREV_SIZES_QUICK if tier == "quick" else PREV_SIZES_THOROUGH
    for n in sizes:
        c = _causal_hdr(rng, _big_prev(rng, n))
        (big if n > 64 else small).append(c)
    return small, big


def _big_tok_cases(tier, rng):
    """a remote peer's bytes with many `previous` hashes (unsorted wire order), unmutated and with
    one duplicated element"""
    out = []
    for n in ((24, 101, 256) if tier == "quick" else (23, 24, 25, 100, 101, 255, 256, 257, 600)):
        h = _causal_hdr(rng, _big_prev(rng, n))
        toks = _enc(h, _hexb(rng, 64))
        out.append({"kind": "tok", "ek": "node", "toks": toks})
        if n <= 101:
            d = copy.deepcopy(toks)
            ss = [i for i, x in enumerate(d) if x[0] == "S"]
            d.insert(ss[2] + 1, copy.deepcopy(d[ss[2] + 1 + rng.randrange(n)]))
            d[ss[2]][1] += 1
            out.append({"kind": "tok", "ek": "node", "toks": d})
    return out


def _gen_small(tier, rng):
    modes = [(0, 0), (1, 1), (0, 1), (1, 0)]
    kinds = [("unit", None), ("u64", None), ("basic", None), ("causal", 0), ("causal", 1), ("causal", 2), ("causal", 3)]
    for k, n in kinds:
        for pm in modes:
            for sm in modes:
                yield _mk_hdr(rng, k, pm, sm, n)
    nh, nt = (300, 350) if tier == "quick" else (6000, 6000)
    for i in range(nh):
        kind = rng.choice(["unit", "u64", "basic", "causal", "causal", "causal"])
        valid = rng.random() < 0.9
        pm = rng.choice(modes[:2] if valid else modes)
        sm = rng.choice(modes[:2] if valid else modes)
        version = 1 if rng.random() < 0.8 else rng.choice([0, 2, 255, 256, 65535])
        yield _mk_hdr(rng, kind, pm, sm, None, version)
    for i in range(nt):
        yield _tok_case(rng)


def gen(tier, rng):
    small, big = _boundary_cases(tier, rng)
    big += _big_tok_cases(tier, rng)
    rest = small + list(_gen_small(tier, rng))
    # the expensive cases are spread evenly, so that they do not end up in one coqtop shard
    step = max(1, len(rest) // (len(big) + 1))
    for i, c in enumerate(rest):
        yield c
        if (i + 1) % step == 0 and big:
            yield big.pop(0)
    for c in big:
        yield c


# ---- rendering -----------------------------------------------------------------------------------

def _ext_words(e):
    k = e["kind"]
    if k == "unit":
        return []
    if k == "u64":
        return [str(e["n"])]
    if k == "basic":
        return [_bw(e["log"]), str(e["ts"]), "1" if e["prune"] else "0"]
    return [_bw(e["log"]), str(e["ts"])] + [_bw(h) for h in e["prev"]]


def _tok_word(t):
    if t[0] == "S":
        return "[%d]" % t[1]
    if t[0] == "U":
        return str(t[1])
    if t[0] == "B":
        return _bw(t[1])
    if t[0] == "K":
        return "K%d" % t[1]
    return t[0]


def harness_line(case):
    if case["kind"] == "hdr":
        return " ".join(["hdr", case["ext"]["kind"], str(case["key"]), str(case["version"]), str(case["psize"]),
                         _bw(case["phash"]) if case["phash"] else "-", str(case["seq"]),
                         _bw(case["backlink"]) if case["backlink"] else "-"] + _ext_words(case["ext"]))
    return " ".join(["tok", case["ek"]] + [_tok_word(t) for t in case["toks"]])


def _n(x):
    """big decimal literals are slow to parse in coqtop: split at 2^32 (w32 is defined in Oracle/C02.v)"""
    return str(x) if x < 2 ** 32 else "(%d * w32 + %d)%%N" % (x >> 32, x & (2 ** 32 - 1))


def _hx(runs):
    # counts and bytes as N literals: nat literals are ~6x slower to parse in coqtop
    return "(rl [%s]%%N)" % ";".join("(%d,%d)" % (c, v) for c, v in runs)


def _opt(s):
    return "(Some %s)" % _hx(s) if s else "None"


def _coq_ext(e):
    k = e["kind"]
    if k == "unit":
        return "EUnit"
    if k == "u64":
        return "(EU64 %s)" % _n(e["n"])
    if k == "basic":
        return "(EBasic %s %s %s)" % (_hx(e["log"]), _n(e["ts"]), "true" if e["prune"] else "false")
    return "(ECausal %s %s [%s])" % (_hx(e["log"]), _n(e["ts"]), ";".join(_hx(h) for h in e["prev"]))


def _coq_hdr(case):
    return "(mkHeader %d %s (Some %s) %d %s %s %s %s)" % (
        case["version"], _hx([[32, case["key"]]]), _hx([[64, 0]]), case["psize"], _opt(case["phash"]), _n(case["seq"]),
        _opt(case["backlink"]), _coq_ext(case["ext"]))


def _coq_tok(t):
    if t[0] == "S":
        return "TSeq %d" % t[1]
    if t[0] == "U":
        return "TUInt %s" % _n(t[1])
    if t[0] == "B":
        return "TBytes %s" % _hx(t[1])
    if t[0] == "K":
        return "TBytes %s" % _hx([[32, t[1]]])
    return "TBool %s" % ("true" if t[0] == "T" else "false")


def _coq_toks(toks):
    return "[" + "; ".join(_coq_tok(t) for t in toks) + "]"


_EK = {"unit": "KUnit", "u64": "KU64", "node": "KNode"}


def coq_model(case):
    if case["kind"] == "hdr":
        return "model_hdr %s" % _coq_hdr(case)
    return "model_tok %s %s" % (_EK[case["ek"]], _coq_toks(case["toks"]))


def _parse_words(words):
    """rendered tokens -> python token list; raises on '?...' tokens"""
    out = []
    for w in words:
        if w.startswith("["):
            out.append(["S", int(w[1:-1])])
        elif w.startswith("x"):
            out.append(["B", _unbw(w)])
        elif w in ("T", "F"):
            out.append([w])
        else:
            out.append(["U", int(w)])
    return out


def _parse_header(s):
    f = dict(p.split("=", 1) for p in s.split())
    e = f["ext"].split(":")
    if e[0] == "unit":
        ext = "EUnit"
    elif e[0] == "u64":
        ext = "(EU64 %s)" % _n(int(e[1]))
    elif e[0] == "basic":
        ext = "(EBasic %s %s %s)" % (_hx(_unbw(e[1])), _n(int(e[2])), "true" if e[3] == "T" else "false")
    elif e[0] == "causal":
        ext = "(ECausal %s %s [%s])" % (_hx(_unbw(e[1])), _n(int(e[2])), ";".join(_hx(_unbw(h)) for h in e[3].split(",") if h))
    else:
        raise ValueError("ext")
    o = lambda v: "None" if v == "-" else "(Some %s)" % _hx(_unbw(v))
    return "(mkHeader %d %s %s %s %s %s %s %s)" % (int(f["v"]), _hx(_unbw(f["pk"])), o(f["sig"]), _n(int(f["ps"])), o(f["ph"]),
                                                   _n(int(f["sq"])), o(f["bl"]), ext)


def coq_oracle(case, impl):
    if case["kind"] == "hdr":
        toks, _, flags = impl.partition(" | ")
        f = dict(p.split("=") for p in flags.split())
        return "check_hdr %s %s %s %s %d%%N %d%%N %d%%N" % (
            _coq_hdr(case), _coq_toks(_parse_words(toks.split())), "true" if f["rt"] == "1" else "false",
            "true" if f["ver"] == "1" else "false", int(f["nenc"]), int(f["nhash"]), int(f["nver"]))
    if impl == "ERR":
        return "check_tok %s None" % _EK[case["ek"]]
    if not impl.startswith("OK "):
        return "false"
    hd, _, toks = impl[3:].partition(" | ")
    return "check_tok %s (Some (%s, %s))" % (_EK[case["ek"]], _parse_header(hd), _coq_toks(_parse_words(toks.split())))


def nontrivial(case, impl):
    if case["kind"] == "tok":
        return True
    return case["ext"]["kind"] != "unit" or bool(case["phash"]) or bool(case["backlink"])


def shrink(case):
    if case["kind"] == "hdr":
        e = case["ext"]
        if e["kind"] == "causal":
            n = len(e["prev"])
            # large sets: drop blocks first (halves, quarters, ...), single elements last
            k = n // 2
            while k >= 2 and k >= n // (8 if n > 128 else n):
                for a in range(0, n, k):
                    c = copy.deepcopy(case)
                    del c["ext"]["prev"][a:a + k]
                    yield c
                k //= 2
            for i in (range(n) if n <= 48 else list(range(24)) + list(range(n - 24, n))):
                c = copy.deepcopy(case)
                del c["ext"]["prev"][i]
                yield c
        for fld, val in (("phash", None), ("psize", 0), ("backlink", None), ("seq", 0), ("version", 1)):
            if case[fld] != val:
                c = copy.deepcopy(case)
                c[fld] = val
                if fld == "phash":
                    c["psize"] = 0
                if fld == "backlink":
                    c["seq"] = 0
                yield c
    else:
        for i in range(len(case["toks"])):
            c = copy.deepcopy(case)
            del c["toks"][i]
            yield c


def distribution(cases, impl):
    d = {"hdr": 0, "tok": 0, "hdr_ext": {}, "causal_prev_ge2": 0, "hdr_invalid_combination": 0, "tok_accepted": 0, "tok_rejected": 0,
         "hdr_roundtrip_ok": 0, "causal_prev_size": {"0-6": 0, "7-23": 0, "24-100": 0, "101-255": 0, "256-999": 0, "1000+": 0},
         "causal_prev_max": 0, "tok_prev_array_max": 0}
    for i, c in enumerate(cases):
        r = impl.get(i, "")
        if c["kind"] == "hdr":
            d["hdr"] += 1
            k = c["ext"]["kind"]
            d["hdr_ext"][k] = d["hdr_ext"].get(k, 0) + 1
            if k == "causal" and len(c["ext"]["prev"]) >= 2:
                d["causal_prev_ge2"] += 1
            if k == "causal":
                n = len(c["ext"]["prev"])
                b = ("0-6" if n <= 6 else "7-23" if n <= 23 else "24-100" if n <= 100 else "101-255" if n <= 255 else
                     "256-999" if n <= 999 else "1000+")
                d["causal_prev_size"][b] += 1
                d["causal_prev_max"] = max(d["causal_prev_max"], n)
            if bool(c["phash"]) != (c["psize"] != 0) or bool(c["backlink"]) != (c["seq"] != 0):
                d["hdr_invalid_combination"] += 1
            if "rt=1" in r:
                d["hdr_roundtrip_ok"] += 1
        else:
            d["tok"] += 1
            ss = [t[1] for t in c["toks"] if t[0] == "S"]
            if len(ss) >= 3:
                d["tok_prev_array_max"] = max(d["tok_prev_array_max"], ss[2])
            d["tok_accepted" if r.startswith("OK") else "tok_rejected"] += 1
    return d


REGISTERED = True
