"""C23 — Live mode forwards every new operation once to every other session."""

ID = "C23"
HARNESS_PKG = "h_topicsync"
HARNESS_ARGS = ["c23"]
COQ_IMPORTS = "From PV Require Import Model.Dedup Model.Live Oracle.C23."
HARNESS_TIMEOUT = 1800
COQ_SHARD = 24
TECHNIQUE = ("Coq proof over a labelled transition model of the manager event stream + per-session de-duplication (invariants over every "
             "interleaving of arrivals, manager steps, session pumps and publications) + differential correspondence with a real "
             "TopicSyncManager whose 2-4 live sessions have scripted remotes; one configuration recorded as known finding")
LEVEL_TEXT = ("Proved in Coq (closed, no axioms) for every label sequence, i.e. every interleaving and every pattern of duplicates from several "
              "sessions, within the de-duplication window (the operations of the flow fit into the buffers): C23_forward_step / "
              "C23_forward_not_to_origin (a manager step hands the operation to exactly the other sessions of the topic), "
              "C23_forwarded_to_all_others (when nothing is in flight an operation that arrived on one session is known on every session of the "
              "topic), C23_at_most_once_per_session_within_window, C23_never_back_to_origin (per session), "
              "C23_never_back_to_peer_outside_known (per peer, for pairwise different remotes on a topic), C23_consumer_at_most_once; "
              "C23_never_back_to_peer_refuted exhibits the same-peer configuration where the per-peer clause fails (open known finding). "
              "Tied to manager/event_stream.rs, manager/mod.rs, topic_log_sync.rs on every run: a real TopicSyncManager over a real SqliteStore "
              "with 2-4 live sessions, scripted remotes, random flows with duplicates, sync-phase arrivals, local publications, small windows; "
              "the global log of arrivals, sends and consumer events is compared with the model and judged by the oracle.")
LEVEL_NOTE = ("Trusted: Coq kernel + vm_compute; hand-written model (sessions stay alive and live; channels never overflow or lag: flows are far "
              "shorter than the capacities 1028); harness settles the real system by yielding until the log is stable (current-thread runtime). "
              "Flows that exceed a small window are checked by correspondence only (the model uses the exact C24 buffer). Batches that deliver "
              "the same operation to several sessions at once are schedule dependent: oracle only.")
ASSUMPTIONS = ["within the window: the distinct operations of a flow (plus sync seeds) fit into every de-duplication buffer",
               "all sessions of the topic are in live mode and alive; mpsc/broadcast channels do not overflow or lag",
               "all sessions of a manager sync the same local store (identical seeds per topic)"]
TRUSTED = ["modelled not verified: tokio mpsc/broadcast delivery, SelectAll fairness, HashSet iteration order of the topic's sessions"]
RULE = ("configurations: 3 sessions/1 topic, 4 sessions/2 topics, 2x2, and same-peer pairs; random flows of 3-10 batches of arrivals and "
        "publications over 2-6 remote operations plus seeded local ones, with duplicates across sessions and batches, optional sync-phase "
        "arrivals, and small windows (cap 2-3). non-trivial = at least one forwarded send and at least one duplicate delivery")

FINDING = "same_peer_sessions_echo"

CONFIGS = [
    [[1, 0, 11], [2, 0, 12], [3, 0, 13]],
    [[1, 0, 11], [2, 0, 12], [3, 0, 13], [4, 1, 11]],
    [[1, 0, 11], [2, 0, 12], [3, 1, 11], [4, 1, 13]],
    [[1, 0, 11], [2, 0, 12]],
]
SAME_PEER = [
    [[1, 0, 7], [2, 0, 7]],
    [[1, 0, 7], [2, 0, 7], [3, 0, 8]],
]


def _same_peer(sessions):
    seen = set()
    for _s, t, p in sessions:
        if (t, p) in seen:
            return True
        seen.add((t, p))
    return False


def _flow(rng, sessions, store, extra, nb, maxb, dup):
    ops = [100 + i for i in range(extra)]
    seeds = list(range(store))
    topics = sorted({t for _s, t, _p in sessions})
    used = []
    flow = []
    for _ in range(nb):
        b = []
        for _ in range(rng.randint(1, maxb)):
            r = rng.random()
            if used and r < dup:
                op = rng.choice(used)
            elif seeds and r > 0.93:
                op = rng.choice(seeds)
            else:
                op = rng.choice(ops)
            used.append(op)
            if rng.random() < 0.15:
                b.append("P%d:%d" % (rng.choice(topics), op))
            else:
                b.append("a%d:%d" % (rng.choice(sessions)[0], op))
        flow.append(b)
    return flow


def _mk(part, sessions, store, extra, sync, flow, cap=None):
    return {"part": part, "cap": cap, "sessions": sessions, "store": store, "extra": extra, "sync": sync, "flow": flow}


def gen(tier, rng):
    quick = tier == "quick"
    n_each = 18 if quick else 220
    for cfg in CONFIGS:
        for i in range(n_each):
            store = rng.randint(0, 2)
            extra = rng.randint(2, 6)
            sync = {}
            if rng.random() < 0.3:
                s = rng.choice(cfg)[0]
                sync[str(s)] = sorted(rng.sample([100 + j for j in range(extra)], rng.randint(1, min(2, extra))))
            maxb = 1 if i % 2 == 0 else 3
            yield _mk("PR", cfg, store, extra, sync, _flow(rng, cfg, store, extra, rng.randint(3, 9), maxb, 0.45))
    for cfg in SAME_PEER:
        # the finding's witness shape first
        yield _mk("P", cfg, 0, 2, {}, [["a1:100"]])
        yield _mk("R", cfg, 0, 2, {}, [["a1:100"]])
        for i in range(8 if quick else 80):
            extra = rng.randint(2, 5)
            fl = _flow(rng, cfg, 0, extra, rng.randint(2, 7), 1 if i % 2 == 0 else 2, 0.4)
            yield _mk("P", cfg, 0, extra, {}, fl)
            yield _mk("R", cfg, 0, extra, {}, fl)
    # windows smaller than the flow: sequential flows, correspondence with the exact buffer model
    for cfg in CONFIGS[:2]:
        for i in range(10 if quick else 150):
            extra = rng.randint(3, 6)
            yield _mk("W", cfg, 0, extra, {}, _flow(rng, cfg, 0, extra, rng.randint(5, 12), 1, 0.5), cap=rng.choice([1, 2, 3]))


def harness_line(case):
    sync = ",".join("%s=%s" % (s, ".".join(map(str, ops))) for s, ops in sorted(case["sync"].items())) or "-"
    return "%s %s %d %d %s %s" % (
        "-" if case["cap"] is None else case["cap"],
        ",".join("%d:%d:%d" % tuple(s) for s in case["sessions"]), case["store"], case["extra"], sync,
        " ; ".join(" ".join(b) for b in case["flow"]))


def _cfg(case):
    return "[" + "; ".join("{| sid := %d; stopic := %d; speer := %d |}" % tuple(s) for s in case["sessions"]) + "]%N"


def _seeds(case):
    seed = "[" + "; ".join("%d%%N" % i for i in range(case["store"])) + "]"
    return "[" + "; ".join("(%d%%N, %s)" % (s[0], seed) for s in case["sessions"]) + "]"


def _label(t):
    a, b = t[1:].split(":")
    return ("Arrive %s%%N %s%%N" if t[0] == "a" else "Publish %s%%N %s%%N") % (a, b)


def _batches(case):
    first = ["Arrive %s%%N %d%%N" % (s, op) for s, ops in sorted(case["sync"].items(), key=lambda kv: int(kv[0])) for op in ops]
    bs = [first] + [[_label(t) for t in b] for b in case["flow"]]
    return "[" + "; ".join("[" + "; ".join(b) + "]" for b in bs) + "]"


def coq_model(case):
    return "model_line %s %s %d 1024 %s" % (_cfg(case), _seeds(case), case["cap"] or 1024, _batches(case))


def _entries(s):
    out = []
    for t in s.split():
        if t == "-":
            continue
        a, b = t[1:].split(":")
        out.append("%s %s%%N %s%%N" % ({"a": "EArr", "s": "ESent", "c": "ECons"}[t[0]], a, b))
    return "[" + "; ".join(out) + "]"


def coq_oracle(case, impl):
    log, q = [p.strip() for p in impl.split("|")]
    quiet = "true" if q == "q=1" else "false"
    rest = "check_rest %s %s %s %s" % (_cfg(case), _seeds(case), quiet, _entries(log))
    peer = "check_peer %s %s" % (_cfg(case), _entries(log))
    return {"PR": "(%s) && (%s)" % (rest, peer), "P": peer, "R": rest, "W": quiet}[case["part"]]


def racy(case):
    """A batch that delivers one operation more than once: the outcome depends on the interleaving."""
    batches = [["%s:%d" % (s, op) for s, ops in case["sync"].items() for op in ops]] + case["flow"]
    for b in batches:
        ops = [t.split(":")[1] for t in b]
        if len(ops) != len(set(ops)):
            return True
    return False


def agree(case, impl, model):
    if racy(case):
        return True
    a, b = impl.split("|"), model.split("|")
    return sorted(a[0].split()) == sorted(b[0].split()) and a[1].strip() == b[1].strip()


def known(case, impl):
    if case["part"] == "P" and _same_peer(case["sessions"]):
        return FINDING
    return None


def nontrivial(case, impl):
    log = impl.split("|")[0].split()
    arr = [t[1:] for t in log if t[0] == "a"]
    ops = [t.split(":")[1] for t in log if t[0] == "a"]
    return any(t[0] == "s" for t in log) and len(ops) != len(set(ops)) and bool(arr)


def shrink(case):
    fl = case["flow"]
    for i in range(len(fl)):
        c = dict(case)
        c["flow"] = fl[:i] + fl[i + 1:]
        if c["flow"]:
            yield c
    for i, b in enumerate(fl):
        if len(b) > 1:
            for j in range(len(b)):
                c = dict(case)
                c["flow"] = fl[:i] + [b[:j] + b[j + 1:]] + fl[i + 1:]
                yield c
    if case["sync"]:
        c = dict(case)
        c["sync"] = {}
        yield c


def distribution(cases, impl):
    parts = {}
    for c in cases:
        parts[c["part"]] = parts.get(c["part"], 0) + 1
    return {"cases": len(cases), "parts": parts, "same_peer_configs": sum(1 for c in cases if _same_peer(c["sessions"])),
            "racy_batches": sum(1 for c in cases if racy(c)), "with_sync_arrivals": sum(1 for c in cases if c["sync"]),
            "small_window": sum(1 for c in cases if c["cap"]),
            "max_sessions": max(len(c["sessions"]) for c in cases), "max_batches": max(len(c["flow"]) for c in cases),
            "entries_total": sum(len(impl.get(i, "").split("|")[0].split()) for i in range(len(cases)))}
