"""C29 — Gossip overlay is left exactly when the last handle is gone."""
import random

ID = "C29"
HARNESS_PKG = "h_net_b"
HARNESS_ARGS = ["c29"]
HARNESS_PROCS = 8
COQ_IMPORTS = "From PV Require Import Model.GossipGuard Oracle.C29."
# which variant of Gossip::stream the tree contains: True = compare-and-swap increment (after the fix)
FIXED = True

TECHNIQUE = ("Coq proof over a labelled transition system (threads x manager, all interleavings by induction over traces) of the topic "
             "reference counting + step-by-step replay of model schedules on the real Gossip::stream / TopicDropGuard through cfg-gated "
             "schedule points and a probe manager actor")
LEVEL_TEXT = ("Proved in Coq for the repaired (compare-and-swap) protocol, for every number of threads and every interleaving: the counter "
              "of a guard generation equals the number of live counted references; a counter that reached 0 never rises again, so each "
              "generation sends Unsubscribe exactly once, after its last reference is gone (number of Unsubscribe = number of 1->0 "
              "transitions); a returned handle's generation has not been left. For every interleaving outside the class of the open "
              "findings (a new subscription started while an earlier one is unfinished) additionally: every held handle is backed by the "
              "session the manager ends up with, joins and leaves alternate, and the overlay is left iff no reference remains. The as-is "
              "check-then-act protocol is refuted by a concrete trace (kept as C29_asis_toctou_refuted). The model is tied to the code on "
              "every run by replaying all interleavings of 2 threads and sampled interleavings of 3 threads on the real code.")
LEVEL_NOTE = ("PARTIAL: Rust atomics are assumed sequentially consistent and indivisible, the actor mailbox FIFO; the gossip manager is "
              "replaced by a probe that applies manager.rs's session bookkeeping (no iroh endpoint); tokio RwLock fairness not modelled. "
              "Open findings: overlapping subscriptions (late Unsubscribe after a re-subscribe; two concurrent first stream() calls).")
ASSUMPTIONS = ["SeqCst atomics, each fetch_add/fetch_sub/fetch_update is one indivisible step",
               "ractor mailbox is FIFO and send_message from drop() enqueues synchronously",
               "the manager's Subscribe/Unsubscribe handling is reduced to: register (overwrite) / stop-and-forget the topic's session"]
TRUSTED = ["modelled not verified: tokio RwLock, ractor mailbox, iroh-gossip session life cycle, GossipHandle::clone/subscribe increments"]
RULE = ("schedules are label lists (thread index | M = manager handles next message) over 2-4 threads each running "
        "'h = stream(topic); keep or drop h'; disabled labels are skipped and the rest runs to completion on both sides. quick: all "
        "5 free-running races (2000 repetitions each: after a complete drop, 2-4 threads call the real Gossip::stream at once; every "
        "returned handle must be backed), all complete interleavings of the two-thread programs dk, dd, kd, kk after thread 0 finished its stream() alone (exhaustive), 30 "
        "sampled interleavings each from a fully concurrent start, every interleaving of the fetch_sub / decision steps of two and three "
        "concurrent drops of the same topic's handles (counter 2 and 3, with and without a kept handle), 22 sampled interleavings for each of 6 three-thread programs x 2 "
        "sequential starts (counter 1 / counter 2), 40 random three-thread walks; thorough: two-thread exhaustive for both starts, 400 "
        "per three-thread program and start, 600 random three-thread and 300 four-thread walks. non-trivial = a drop's fetch_sub or a "
        "stream's check runs while another thread sits inside the fast-path window or between fetch_sub and the decision / Unsubscribe")
NONTRIVIAL_FLOOR = 10


# ------------------------------------------------------------------------------------------------
# python mirror of the model (generation of schedules and classification only; never the judge)
# ------------------------------------------------------------------------------------------------
class Sim:
    def __init__(self, flags, fixed=True):
        self.fixed = fixed
        self.ctr = []
        self.cur = None
        self.rlock = 0
        self.mbox = []
        self.sess = None
        self.dead = []
        self.log = []
        self.pc = [("Stream",) for _ in flags]
        self.drop = [f == "d" for f in flags]
        self.overlaps = []      # classes of overlapping subscriptions seen
        self.window = False     # some step ran concurrently with an open window

    def clone(self):
        s = Sim("", self.fixed)
        s.ctr, s.cur, s.rlock, s.mbox, s.sess = list(self.ctr), self.cur, self.rlock, list(self.mbox), self.sess
        s.dead, s.log, s.pc, s.drop = list(self.dead), list(self.log), list(self.pc), self.drop
        s.overlaps, s.window = list(self.overlaps), self.window
        return s

    def enabled(self, l):
        if l == "M":
            return bool(self.mbox)
        p = self.pc[l][0]
        if p in ("Wait", "Hold", "Done"):
            return False
        if p == "Ins":
            return self.rlock == 0
        return True

    def labels(self):
        return [i for i in range(len(self.pc)) if self.enabled(i)] + (["M"] if self.mbox else [])

    def after(self, i, g):
        return ("Drop", g) if self.drop[i] else ("Hold", g)

    def step(self, l):
        if not self.enabled(l):
            return False
        if l == "M":
            m = self.mbox.pop(0)
            self.log.append(m[0])
            if m[0] == "S":
                self.sess = m[1]
                self.pc = [("Ins", m[1]) if p == ("Wait", m[1]) else p for p in self.pc]
            else:
                if self.sess is not None:
                    self.dead.append(self.sess)
                self.sess = None
            return True
        i = l
        p = self.pc[i]
        others = [q for j, q in enumerate(self.pc) if j != i]
        if p[0] == "Stream":
            if any(q[0] in ("Send", "Dec") for q in others) or any(q[0] == "Drop" for q in others):
                self.window = True
            g = self.cur
            if g is not None and self.ctr[g] >= 1:
                if self.fixed:
                    self.ctr[g] += 1
                self.rlock += 1
                self.pc[i] = ("Win", g)
            else:
                self.pc[i] = ("Slow",)
        elif p[0] == "Win":
            if not self.fixed:
                self.ctr[p[1]] += 1
            self.rlock -= 1
            self.pc[i] = self.after(i, p[1])
        elif p[0] == "Slow":
            owed = any(q[0] == "Send" or (q[0] == "Dec" and q[2] == 1) for q in others)
            alive = any(c >= 1 for c in self.ctr)
            if owed:
                self.overlaps.append("late")
            elif alive:
                self.overlaps.append("concurrent")
            g = len(self.ctr)
            self.ctr.append(1)
            self.mbox.append(("S", g))
            self.pc[i] = ("Wait", g)
        elif p[0] == "Ins":
            self.cur = p[1]
            self.pc[i] = self.after(i, p[1])
        elif p[0] == "Drop":
            if any(q[0] == "Win" for q in others) or any(q[0] == "Dec" for q in others):
                self.window = True
            g = p[1]
            prev = self.ctr[g]
            self.ctr[g] = max(0, prev - 1)
            self.pc[i] = ("Dec", g, prev)      # fetch_sub done, the previous value is thread-local
        elif p[0] == "Dec":
            self.pc[i] = ("Send", p[1]) if p[2] == 1 else ("Done",)
        elif p[0] == "Send":
            self.mbox.append(("U", p[1]))
            self.pc[i] = ("Done",)
        return True

    def run(self, labels):
        for l in labels:
            self.step(l)
        while True:
            ls = self.labels()
            if not ls:
                break
            self.step(ls[0])
        return self


def _all_schedules(sim, prefix, limit, out):
    ls = sim.labels()
    if not ls:
        out.append(list(prefix))
        return
    for l in ls:
        if len(out) >= limit:
            return
        s2 = sim.clone()
        s2.step(l)
        prefix.append(l)
        _all_schedules(s2, prefix, limit, out)
        prefix.pop()


def _walk(sim, rng, prefix):
    out = list(prefix)
    while True:
        ls = sim.labels()
        if not ls:
            return out
        l = rng.choice(ls)
        sim.step(l)
        out.append(l)


SEQ_START = [0, 0, "M", 0]        # thread 0 completes its stream() (slow path) alone
SEQ2_START = [0, 0, "M", 0, 1, 1]  # ... then thread 1 completes its stream() (fast path) alone


SEQ3_START = [0, 0, "M", 0, 1, 1, 2, 2]  # ... then thread 2 as well (counter 3)


def _drop_interleavings(sim, prefix, out):
    """every interleaving of the fetch_sub / decision steps of the threads that are dropping their handle
    (the Unsubscribe and the manager run afterwards, in drain order)"""
    ls = [i for i, p in enumerate(sim.pc) if p[0] in ("Drop", "Dec")]
    if not ls:
        out.append(list(prefix))
        return
    for l in ls:
        s2 = sim.clone()
        s2.step(l)
        prefix.append(l)
        _drop_interleavings(s2, prefix, out)
        prefix.pop()


def _prefixed(flags, prefix):
    sim = Sim(flags)
    for l in prefix:
        sim.step(l)
    return sim


REAL_CASES = [
    {"flags": "dk", "labels": [0, 0, 0, 1, 0, 0, 1], "real": True},          # the fast-path window against a last drop
    {"flags": "dk", "labels": [0, 0, 0, 0, 0, 1, 1], "real": True},          # drop completely, then re-subscribe
    {"flags": "kk", "labels": [0, 0, 0, 1, 1], "real": True},                # second handle through the fast path
    {"flags": "dd", "labels": [0, 0, 0, 1, 1, 0, 1], "real": True},          # two handles, both dropped
    {"flags": "dd", "labels": [0, 0, 0, 1, 1, 0, 1, 0, 1], "real": True},    # ... both decrements before either decision
    {"flags": "dd", "labels": [0, 0, 0, 1, 1, 0, 1, 1, 0], "real": True},
]


# free-running races (no schedule control): after a complete drop, <threads> threads call the real Gossip::stream at once
RACE_CASES = [{"race": 2000, "threads": 2}, {"race": 2000, "threads": 3}, {"race": 2000, "threads": 3}, {"race": 2000, "threads": 4}, {"race": 2000, "threads": 4}]


def gen(tier, rng):
    quick = tier == "quick"
    for c in REAL_CASES:
        yield dict(c)
    for c in RACE_CASES:
        yield dict(c)
    for flags in ["dk", "dd", "kd", "kk"]:
        for prefix, cap in ((SEQ_START, None), ([], 30 if quick else None)):
            out = []
            _all_schedules(_prefixed(flags, prefix), list(prefix), 4000, out)
            if cap and len(out) > cap:
                out = rng.sample(out, cap)
            for s in out:
                yield {"flags": flags, "labels": s}
    # the last two / three handles of one topic dropped concurrently: every interleaving of the decrements and decisions
    for flags, prefix in (("dd", SEQ2_START), ("ddk", SEQ2_START), ("ddd", SEQ3_START), ("ddk", SEQ3_START), ("kdd", SEQ3_START)):
        out = []
        _drop_interleavings(_prefixed(flags, prefix), list(prefix), out)
        for s in out:
            yield {"flags": flags, "labels": s}
    for flags in ["ddk", "dkk", "dkd", "kdd", "ddd", "kkd"]:
        for prefix in (SEQ_START, SEQ2_START):
            out = []
            _all_schedules(_prefixed(flags, prefix), list(prefix), 6000, out)
            cap = 22 if quick else 400
            if len(out) > cap:
                out = rng.sample(out, cap)
            for s in out:
                yield {"flags": flags, "labels": s}
    for _ in range(40 if quick else 600):
        flags = "".join(rng.choice("dk") for _ in range(3))
        yield {"flags": flags, "labels": _walk(Sim(flags), rng, [])}
    if not quick:
        for _ in range(300):
            flags = "".join(rng.choice("dk") for _ in range(4))
            prefix = rng.choice([SEQ_START, SEQ2_START])
            yield {"flags": flags, "labels": _walk(_prefixed(flags, prefix), rng, prefix)}


def _labels(case):
    """real-manager runs: the manager handles every message at once = an M after every thread step"""
    if not case.get("real"):
        return case["labels"]
    out = []
    for l in case["labels"]:
        if l != "M":
            out += [l, "M"]
    return out


def _race_bad(impl):
    if impl.startswith("race bad=") and "/" in impl:
        k = impl[len("race bad="):].split("/")[0]
        return int(k) if k.isdigit() else None
    return None


def harness_line(case):
    if "race" in case:
        return "race %d %d" % (case["race"], case["threads"])
    return "%s%s %s" % ("real " if case.get("real") else "", case["flags"], " ".join(str(l) for l in case["labels"]))


def _clabels(ls):
    return "[" + ";".join("LM" if l == "M" else "LT %d" % l for l in ls) + "]"


def _cflags(f):
    return "[" + ";".join("true" if c == "d" else "false" for c in f) + "]"


def coq_model(case):
    if "race" in case:
        # free-running: no model line to compare with; every outcome the model allows keeps all handles backed
        return "model_line true %s %s" % (_cflags("d" + "k" * case["threads"]), _clabels(SEQ_START + [0, 0, 0, "M"]))
    return "model_line %s %s %s" % ("true" if FIXED else "false", _cflags(case["flags"]), _clabels(_labels(case)))


def _parse(impl):
    parts = [p.strip() for p in impl.split("|")]
    if len(parts) == 3 and parts[1].startswith("left=") and parts[1][5:].isdigit():
        parts = [parts[0], ",".join(["U"] * int(parts[1][5:])), parts[2]]
    if len(parts) != 3 or not parts[2].startswith("sub="):
        return None
    kept, done = [], True
    for t in parts[0].split():
        f = t.split(":")
        if len(f) == 2 and f[1] == "d":
            continue
        if len(f) == 3 and f[1] in ("L", "X") and f[2].isdigit():
            kept.append((f[1] == "L", int(f[2])))
            continue
        done = False
    log = [x for x in parts[1].split(",") if x]
    if any(x not in ("S", "U") for x in log):
        return None
    return kept, done, log, parts[2] == "sub=1"


def coq_oracle(case, impl):
    if "race" in case:
        bad = _race_bad(impl)
        # the property's first clause on the worst repetition: a kept handle must be backed by a live session
        return "check [(%s, 1)] true [true] true" % ("true" if bad == 0 else "false")
    p = _parse(impl)
    if p is None:
        return "false"
    kept, done, log, sub = p
    ck = "[" + ";".join("(%s, %d)" % ("true" if l else "false", c) for l, c in kept) + "]"
    if case.get("real"):
        return "check_real %s %s %d %s" % (ck, "true" if done else "false", len(log), "true" if sub else "false")
    cl = "[" + ";".join("true" if x == "S" else "false" for x in log) + "]"
    return "check %s %s %s %s" % (ck, "true" if done else "false", cl, "true" if sub else "false")


def _sim(case):
    if "race" in case:
        return Sim("", FIXED)
    return Sim(case["flags"], FIXED).run(_labels(case))


def agree(case, impl, model):
    if "race" in case:
        return _race_bad(impl) is not None
    if not case.get("real"):
        return impl == model
    pi, pm = _parse(impl), _parse(model)
    if pi is None or pm is None:
        return False
    strip = lambda x: x.split("|")[0].strip().replace(":X:", ":L:")  # noqa: E731  (publish is not a liveness probe there)
    return strip(impl) == strip(model) and pi[2].count("U") == pm[2].count("U") and pi[3] == pm[3]


def nontrivial(case, impl):
    return _sim(case).window


def known(case, impl):
    ov = _sim(case).overlaps
    if "late" in ov:
        return "late-unsubscribe-after-resubscribe"
    if "concurrent" in ov:
        return "concurrent-first-subscribe"
    return None


def shrink(case):
    if "race" in case:
        return
    ls = case["labels"]
    for i in range(len(ls) - 1, -1, -1):
        yield {"flags": case["flags"], "labels": ls[:i] + ls[i + 1:]}
    if len(case["flags"]) > 2:
        f = case["flags"]
        n = len(f) - 1
        yield {"flags": f[:n], "labels": [l for l in ls if l == "M" or l < n]}


def distribution(cases, impl):
    d = {"threads": {}, "window_hit": 0, "overlap_late": 0, "overlap_concurrent": 0, "max_labels": 0, "fast_paths": 0, "slow_paths": 0}
    for i, c in enumerate(cases):
        if "race" in c:
            d["race_cases"] = d.get("race_cases", 0) + 1
            continue
        k = str(len(c["flags"]))
        d["threads"][k] = d["threads"].get(k, 0) + 1
        s = _sim(c)
        d["window_hit"] += 1 if s.window else 0
        d["overlap_late"] += 1 if "late" in s.overlaps else 0
        d["overlap_concurrent"] += 1 if "concurrent" in s.overlaps and "late" not in s.overlaps else 0
        d["max_labels"] = max(d["max_labels"], len(c["labels"]))
        if i in impl:
            d["fast_paths"] += impl[i].count("f:")
            d["slow_paths"] += impl[i].count("s:")
    return d


REGISTERED = True
