"""C25 — Topic handshake transfers the initiator's topic or fails cleanly."""
import itertools
import re

ID = "C25"
HARNESS_PKG = "h_topicsync"
HARNESS_ARGS = ["c25"]
COQ_SHARD = 170
COQ_IMPORTS = "From PV Require Import Model.Handshake Oracle.C25."
TECHNIQUE = ("Coq proof over step-machine models of TopicHandshakeInitiator/Acceptor (exhaustive case analysis over every environment; "
             "invariant over every schedule of the composed pair) + differential correspondence with the real protocols over scripted "
             "streams, fault-injecting sinks and real channels with a man in the middle")
LEVEL_TEXT = ("Proved in Coq for an arbitrary topic type: C25_honest_run / C25_honest_safe_every_schedule / C25_honest_no_deadlock / "
              "C25_honest_bounded (the two machines composed over FIFO channels: every schedule is error free, the acceptor outputs exactly the "
              "initiator's topic, no deadlock, <= 20 steps); C25_run_terminates, C25_fault_gives_error, C25_acceptor_ok_iff, C25_initiator_ok_iff "
              "(one side against EVERY environment: arbitrary incoming items then closure, sink failing at any operation, event receiver gone: "
              "returns, and returns Ok iff the environment is clean; acceptor output = topic of the first message); C25_truncation_*, "
              "C25_substitution_* (every truncation / substitution of the transcript), C25_no_wait_after_close, C25_no_action_after_failure. "
              "The model is tied to p2panda-sync/src/protocols/topic_handshake.rs on every run: the real protocols are executed against all "
              "item sequences up to length 3-4 x all sink fault positions, and as a real pair over channels with every truncation/substitution; "
              "result, messages sent, events and polls-after-close are compared with the model, the oracle is evaluated on the implementation.")
LEVEL_NOTE = ("Trusted: Coq kernel + vm_compute; hand-written step-machine model (one action per await); FIFO reliable channels; "
              "Sink::poll_ready never fails by itself; parametricity in the topic type (harness uses Vec<u8>). Not covered: a peer that stays "
              "silent without closing (the protocol has no timeout; outside the property), a full event channel (back-pressure).")
ASSUMPTIONS = ["channels are FIFO and reliable; a returned side drops its sink so the peer's stream closes after draining",
               "the event receiver is either alive for the whole run or gone from the start; the event channel is never full",
               "the remote either sends an item or closes (a silent remote is not a fault the property covers)"]
TRUSTED = ["modelled not verified: SinkExt::send = start_send + flush with one shared error mapping; mpsc::Sender::poll_flush cannot fail"]
RULE = ("quick: both roles x every incoming item sequence of length <= 3 over {Topic a, Topic b, Done, Err} x sink fault at op 0..5 or none, "
        "event receiver gone for short sequences, plus the real pair over channels with every truncation (dir x k<=3) and substitution "
        "(dir x k x item) for several random topics (0..40 bytes); thorough: length <= 4, more topics. "
        "non-trivial = at least one item consumed, a fault injected, or a pair run")

ALPHA = ["Ta", "Tb", "D", "E"]


def _topics(rng, n):
    out = ["", "00", "ff" * 32]
    while len(out) < n:
        out.append(bytes(rng.randrange(256) for _ in range(rng.randint(1, 40))).hex())
    return out[:n]


def gen(tier, rng):
    maxlen = 3 if tier == "quick" else 4
    ntop = 3 if tier == "quick" else 10
    tops = _topics(rng, ntop + 2)
    ta, tb = tops[-1], tops[-2]
    # single side, exhaustive
    for role in ("I", "A"):
        for n in range(0, maxlen + 1):
            for seq in itertools.product(ALPHA, repeat=n):
                items = [("T:" + (ta if s == "Ta" else tb)) if s[0] == "T" else s for s in seq]
                for sf in [None, 0, 1, 2, 3, 4, 5]:
                    yield {"mode": "S", "role": role, "topic": ta, "ev": 1, "sf": sf, "items": items}
                if n <= 2:
                    yield {"mode": "S", "role": role, "topic": ta, "ev": 0, "sf": None, "items": items}
    # single side, arbitrary topics through the clean path and one fault each
    for t in tops:
        yield {"mode": "S", "role": "I", "topic": t, "ev": 1, "sf": None, "items": ["D"]}
        yield {"mode": "S", "role": "A", "topic": "", "ev": 1, "sf": None, "items": ["T:" + t, "D"]}
        yield {"mode": "S", "role": "A", "topic": "", "ev": 1, "sf": None, "items": ["T:" + t]}
        yield {"mode": "S", "role": "A", "topic": "", "ev": 1, "sf": 1, "items": ["T:" + t, "D"]}
    # real pair with a man in the middle
    for t in tops[:ntop]:
        other = ta if t != ta else tb
        yield {"mode": "P", "topic": t, "mitm": None}
        for d in "ia":
            for k in range(0, 4):
                yield {"mode": "P", "topic": t, "mitm": {"kind": "T", "dir": d, "k": k}}
            for k in range(0, 3):
                for x in ["T:" + other, "T:" + t, "D", "E"]:
                    yield {"mode": "P", "topic": t, "mitm": {"kind": "S", "dir": d, "k": k, "x": x}}


def _h(t):
    return t if t else "-"


def harness_line(case):
    if case["mode"] == "S":
        return "S %s %s %d %s %s" % (case["role"], _h(case["topic"]), case["ev"],
                                      "-" if case["sf"] is None else case["sf"], " ".join(case["items"]))
    m = case["mitm"]
    if m is None:
        spec = "-"
    elif m["kind"] == "T":
        spec = "T%s%d" % (m["dir"], m["k"])
    else:
        spec = "S%s%d:%s" % (m["dir"], m["k"], m["x"])
    return "P %s %s" % (_h(case["topic"]), spec)


def _s(t):
    return '"%s"%%string' % t


def _item(x):
    if x == "D":
        return "(IMsg Done)"
    if x == "E":
        return "IErr"
    return "(IMsg (Topic %s))" % _s(x[2:])


def _role(case):
    return "(Initiator %s)" % _s(case["topic"]) if case["role"] == "I" else "Acceptor"


def _env(case):
    return "[%s] %s %s" % ("; ".join(_item(x) for x in case["items"]),
                           "None" if case["sf"] is None else "(Some %d)" % case["sf"],
                           "true" if case["ev"] else "false")


def _mitm(case):
    m = case["mitm"]
    if m is None:
        return "NoMitm"
    d = "ItoA" if m["dir"] == "i" else "AtoI"
    if m["kind"] == "T":
        return "(Truncate %s %d)" % (d, m["k"])
    return "(Subst %s %d %s)" % (d, m["k"], _item(m["x"]))


def coq_model(case):
    if case["mode"] == "S":
        return "model_line_single %s %s" % (_role(case), _env(case))
    return "model_line_pair %s %s" % (_s(case["topic"]), _mitm(case))


def _ires(r):
    if r == "Ok":
        return "(IOk None)"
    if r.startswith("Ok:"):
        return "(IOk (Some %s))" % _s(r[3:])
    if r.startswith("Err"):
        return "IFail"
    if r == "HANG":
        return "IHang"
    raise ValueError(r)


def coq_oracle(case, impl):
    parts = [p.strip() for p in impl.split("|")]
    if case["mode"] == "S":
        n = int(parts[3].split("=")[1])
        return "check_single %s %s %s %d" % (_role(case), _env(case), _ires(parts[0]), n)
    ri, ra = parts[0].split()
    return "check_pair %s %s %s %s" % (_s(case["topic"]), _mitm(case), _ires(ri[2:]), _ires(ra[2:]))


def _norm(line):
    # the exact error variant is not part of the property: compare Ok/Err, messages, events, polls
    return re.sub(r"Err:[A-Za-z:0-9]*", "Err", line)


def agree(case, impl, model):
    return _norm(impl) == _norm(model)


def nontrivial(case, impl):
    if case["mode"] == "P":
        return True
    return bool(case["items"]) or case["sf"] is not None or not case["ev"]


def shrink(case):
    if case["mode"] == "S":
        for i in range(len(case["items"])):
            c = dict(case)
            c["items"] = case["items"][:i] + case["items"][i + 1:]
            yield c
        if case["sf"] is not None:
            c = dict(case)
            c["sf"] = None
            yield c


def distribution(cases, impl):
    kinds = {}
    for i, c in enumerate(cases):
        r = impl.get(i, "?").split("|")[0].strip()
        k = c["mode"] + ":" + re.sub(r":[0-9a-f]*$", "", re.sub(r"(Ok|Unexpected):[^ ]*", r"\1", r))
        kinds[k] = kinds.get(k, 0) + 1
    return {"cases": len(cases), "single": sum(1 for c in cases if c["mode"] == "S"),
            "pair": sum(1 for c in cases if c["mode"] == "P"),
            "max_items": max([len(c.get("items", [])) for c in cases] + [0]),
            "result_kinds": dict(sorted(kinds.items()))}
