"""C04 — Pruning is authenticated and scoped to the prune operation's own log (real Node, all entry points)."""
from . import ingestlib as L

ID = "C04"
HARNESS_PKG = "h_c04"
HARNESS_ARGS = ["c04"]
HARNESS_PROCS = 2
HARNESS_TIMEOUT = 1500
COQ_IMPORTS = "From PV Require Import Model.Ingest Model.Node Lib.IngestObs Oracle.C04."
COQ_SHARD = 40
TECHNIQUE = ("Coq proof (per pipeline step, for every store and every operation: what can disappear from the store and why) + "
             "differential correspondence of the Gallina node model with a real p2panda Node (real pipeline thread, SQLite store) "
             "driven through StreamPublisher::import / publish / prune and a StreamFrom::Start replay")
LEVEL_TEXT = ("Theorems C04_deleted_only_by_authentic_prune_in_scope, C04_prune_deletes_exactly_the_prefix, "
              "C04_invalid_event_changes_nothing, C04_failed_event_changes_nothing, C04_no_prune_flag_no_deletion are proved in Coq for "
              "every store and every operation reaching the pipeline (valid or forged, any author/log claimed, with or without prune flag); "
              "C04_unrepaired_pipeline_refuted keeps the defect found on the unchanged pipeline (failed event still pruned: forged operation "
              "wipes the victim's log) as a machine-checked witness. The model (Model/Ingest.v deliver, Model/Node.v entry points) is tied to "
              "p2panda/src/processor/pipeline.rs + event.rs, p2panda/src/streams/stream.rs, forge.rs and the SQLite store on every run: a real "
              "Node imports valid, forged and authentic-but-rejected operations (claiming other authors, the node itself, other topics; "
              "signed by the log's author but forking the log / below a newer prune point / with a body the header does not commit to / "
              "with inconsistent header fields), publishes, prunes and replays; after every step all logs of all authors on both topics are dumped, compared with the model and checked by the oracle.")
LEVEL_NOTE = ("Trusted: Coq kernel + vm_compute; hand-written model; validate_operation abstract (C01); the sync entry point is covered by "
              "the model argument that process_operation builds the same Event for sync, import and replay (one function in stream.rs) and "
              "is exercised through import and replay only, not through a second networked node; tokio plumbing of the pipeline "
              "(one event at a time) is C14's. Differential testing bounded by the generators (tens of scenarios in the quick tier: "
              "every step needs the real pipeline thread and SQLite).")
ASSUMPTIONS = ["every entry point reaches the pipeline through Event::new(operation, LogId::from_topic(stream topic), topic, header prune flag) "
               "(process_operation / process_published_operation in p2panda/src/streams/stream.rs) -- read off the code, exercised for import, "
               "publish, prune, replay",
               "the operation's log is the log of the stream it is processed in (the node ignores the log id inside the extensions; "
               "documented at StreamPublisher::import)",
               "events are processed one at a time (Pipeline::process awaits completion)"]
TRUSTED = ["modelled not verified: SQLite DELETE semantics, sqlx, tokio channels/threads of the pipeline, acknowledgement bookkeeping"]
RULE = ("quick: the finding's witness and the regression corpus first; 17 fixed scenarios (forged prune-flagged operation below/at/above the victim's height via "
        "import, forged operation claiming the node's own key, flag flipped after signing, valid prune by the author, cross-author and "
        "cross-topic bystander logs, publish/prune of the node itself, replay); 23 fixed scenarios with prune-flagged operations that "
        "are VALIDLY SIGNED by the log's author and rejected for every other reason ingest_operation knows (fork / prune point at or "
        "below the latest stored entry, also after a newer prune point; seq>0 without backlink, seq 0 with backlink; body not matching "
        "the committed hash or size, body although the header claims none, payload hash with size 0, header version 2; a stored "
        "operation's header re-delivered with another body / header only = AlreadyExists), against external logs and the node's own "
        "log, each with entries below the claimed prune point in the store; one author pruning in two logs with decreasing, equal "
        "and increasing prune points; 40 random step sequences over 3 authors x 2 topics + 10 with authentic-but-rejected imports "
        "mixed in; thorough: 400 + 150 random. non-trivial = a case that contains a forged prune-flagged step while the claimed "
        "log is non-empty, or a rejected prune-flagged import while the store holds entries its prune request would delete, or a "
        "successful prune with bystander logs present")
NONTRIVIAL_FLOOR = 10


FORGED = (1, 2, 5)              # not what the claimed author signed
AUTH_INVALID = (3, 4, 6, 7, 8, 9)  # signed by the claimed author, rejected by validate_operation (see harness/c04 header)
HEADER_OK = (0, 3, 6, 8)        # corruption kinds that leave the signed header itself valid (only the delivered body is wrong)


def eop(a, t, seq, bl, p=0, b=1, c=0, src=None):
    d = {"a": a, "t": t, "seq": seq, "bl": bl, "p": p, "b": b, "c": c}
    if src is not None:
        d["src"] = src
    return d


def consistent(o):
    return (o["seq"] == 0) == (o["bl"] is None)


def valid(o):
    """validate_operation on an op built from scratch (no src)."""
    return o["c"] == 0 and consistent(o)


def copy_of(ops, j, b=1, c=0):
    """Op definition re-using the signed header of op j (or of its source) unchanged."""
    while ops[j].get("src") is not None:
        j = ops[j]["src"]
    r = ops[j]
    return eop(r["a"], r["t"], r["seq"], r["bl"], p=r["p"], b=b, c=c, src=j)


def resolve(ops):
    """Per op what the model sees: header hash number, delivered body, validate_operation."""
    out = []
    for i, o in enumerate(ops):
        if o.get("src") is not None:
            r = ops[o["src"]]
            assert r.get("src") is None and o["c"] in (0, 3)
            hdr_ok = r["c"] in HEADER_OK and consistent(r)
            commits = (r["b"] == 1 and r["c"] != 6) or r["c"] in (3, 8)
            if o["c"] == 3:
                out.append({"hh": o["src"] + 1, "body": 1, "valid": False})
            else:
                out.append({"hh": o["src"] + 1, "body": 1 if (o["b"] and commits) else 0, "valid": hdr_ok})
        else:
            out.append({"hh": i + 1, "body": o["b"], "valid": valid(o)})
    return out


def klass(o, v):
    """Generator-side class of an imported op (v = resolved validate_operation bit)."""
    if v:
        return "valid"
    if o.get("src") is None and o["c"] in FORGED:
        return "forged"
    return "authentic_invalid"


def ext_chain(ops, a, t, n, prune_at=()):
    idx = []
    prev = None
    for k in range(n):
        ops.append(eop(a, t, k, None if k == 0 else ["o", prev], p=1 if k in prune_at else 0))
        prev = len(ops) - 1
        idx.append(prev)
    return idx


def fixed_cases():
    # 1-3: forged prune-flagged operation below / at / above the victim's height
    for seq in (1, 2, 3, 7):
        for c in (1, 2, 5):
            ops = []
            v = ext_chain(ops, 1, 0, 3)
            w = ext_chain(ops, 2, 0, 2)
            ops.append(eop(1, 0, seq, ["o", v[-1]], p=1, c=c))
            f = len(ops) - 1
            steps = [["i", 0, j] for j in v + w] + [["i", 0, f]]
            if seq == 3 and c == 1:
                ops.append(eop(1, 0, 3, ["o", v[-1]], p=1))
                steps += [["i", 0, len(ops) - 1], ["i", 0, f], ["r", 0]]
            yield {"na": 3, "ops": ops, "steps": steps}
    # forged operation claiming the node's own key, after the node published
    ops = [eop(0, 0, 2, ["b", 1], p=1, c=1), eop(0, 0, 9, ["b", 1], p=1, c=5)]
    yield {"na": 2, "ops": ops, "steps": [["p", 0, 0, 1], ["p", 0, 0, 1], ["p", 1, 0, 1], ["i", 0, 0], ["i", 0, 1], ["p", 0, 1, 1],
                                          ["p", 0, 0, 1], ["i", 0, 0], ["r", 0]]}
    # the node prunes its own log on topic 0; its topic-1 log and other authors stay
    ops = []
    v = ext_chain(ops, 1, 0, 3)
    yield {"na": 2, "ops": ops, "steps": [["p", 0, 0, 1], ["p", 1, 0, 1], ["p", 0, 0, 1]] + [["i", 0, j] for j in v]
           + [["p", 0, 1, 0], ["p", 0, 0, 1], ["p", 1, 1, 1], ["r", 1]]}
    # valid prune by author 1 on topic 0: author 2 and topic 1 are bystanders; then older operations again
    ops = []
    v = ext_chain(ops, 1, 0, 5, prune_at=(3,))
    w = ext_chain(ops, 2, 0, 3)
    u = ext_chain(ops, 1, 1, 3)
    yield {"na": 3, "ops": ops, "steps": [["i", 0, j] for j in v[:3] + w] + [["i", 1, j] for j in u]
           + [["i", 0, v[3]], ["i", 0, v[1]], ["i", 0, v[4]], ["i", 0, v[3]], ["r", 0]]}
    # an operation whose extensions name topic 1, imported through the stream of topic 0 (and vice versa)
    ops = []
    v = ext_chain(ops, 1, 0, 3)
    ops.append(eop(1, 1, 3, ["o", v[-1]], p=1))
    ops.append(eop(1, 1, 0, None, p=0))
    yield {"na": 2, "ops": ops, "steps": [["i", 0, j] for j in v] + [["i", 1, len(ops) - 1], ["i", 0, len(ops) - 2]]}
    # prune point delivered first, then the pruned prefix and a forged older prune point
    ops = []
    v = ext_chain(ops, 1, 0, 4, prune_at=(2,))
    ops.append(eop(1, 0, 1, ["o", v[0]], p=1, c=2))
    yield {"na": 2, "ops": ops, "steps": [["i", 0, v[2]], ["i", 0, v[0]], ["i", 0, v[1]], ["i", 0, len(ops) - 1], ["i", 0, v[3]]]}


def imports(t, idx):
    return [["i", t, j] for j in idx]


def authentic_cases():
    """Prune-flagged operations that carry a VALID signature of the log's author and are rejected all the same:
    every rejection reason of ingest_operation, with entries below the claimed prune point present in the store."""
    def base(n=5):
        ops = []
        v = ext_chain(ops, 1, 0, n)          # victim log, nothing pruned
        w = ext_chain(ops, 2, 0, 2)          # bystanders: another author, and the victim's log of the other topic
        u = ext_chain(ops, 1, 1, 2)
        return ops, v, imports(0, v + w) + imports(1, u)

    # (a) log integrity: fork / outdated prune point at or below the latest stored entry (SeqNumNonIncremental)
    for seq, bl in ((4, "prev"), (2, "prev"), (1, ["b", 0]), (3, ["b", 1])):
        ops, v, steps = base()
        ops.append(eop(1, 0, seq, ["o", v[seq - 1]] if bl == "prev" else bl, p=1))
        yield {"na": 3, "ops": ops, "steps": steps + [["i", 0, len(ops) - 1]]}
    # ... all of them one after the other, seq 0 as well, then a genuine prune point, then older ones again and a replay
    ops, v, steps = base()
    k = len(ops)
    ops += [eop(1, 0, 4, ["o", v[3]], p=1), eop(1, 0, 3, ["b", 0], p=1, b=0), eop(1, 0, 1, ["o", v[0]], p=1), eop(1, 0, 0, None, p=1),
            eop(1, 0, 6, ["b", 2], p=1),                       # genuine prune point (gap allowed): accepted, deletes 0..4
            eop(1, 0, 6, ["b", 3], p=1), eop(1, 0, 5, ["o", v[4]], p=1), eop(1, 0, 2, ["o", v[1]], p=1)]
    yield {"na": 3, "ops": ops, "steps": steps + imports(0, range(k, k + 8)) + [["i", 0, k + 4], ["r", 0], ["i", 0, k + 6]]}
    # an older / equal prune point after a newer one whose suffix is still stored: 0,1,2,3p,4,5 then forks at 5, 4, 3
    ops = []
    v = ext_chain(ops, 1, 0, 6, prune_at=(3,))
    k = len(ops)
    ops += [eop(1, 0, 5, ["o", v[4]], p=1), eop(1, 0, 4, ["b", 0], p=1), eop(1, 0, 3, ["o", v[2]], p=1)]
    yield {"na": 2, "ops": ops, "steps": imports(0, v) + imports(0, range(k, k + 3)) + [["i", 0, v[3]], ["r", 0]]}
    yield {"na": 2, "ops": ops, "steps": imports(0, v) + [["i", 0, k + 1]]}
    # the same fork through the stream of the other topic: there it lies above the latest entry, is accepted and prunes the
    # author's topic-1 log; delivered to topic 0 afterwards it is answered AlreadyExists (de-duplication is by hash, store-wide)
    # and log-prune runs for the topic-0 log although it lies below that log's latest entry -- the author's own signed request
    ops, v, steps = base()
    ops.append(eop(1, 0, 3, ["b", 0], p=1))
    yield {"na": 3, "ops": ops, "steps": steps + [["i", 1, len(ops) - 1], ["i", 0, len(ops) - 1]]}

    # (b) validate_header on an authentic header: seq > 0 without backlink, seq 0 with backlink
    ops, v, steps = base()
    k = len(ops)
    ops += [eop(1, 0, 5, None, p=1), eop(1, 0, 3, None, p=1), eop(1, 0, 9, None, p=1, b=0), eop(1, 0, 0, ["o", v[4]], p=1)]
    yield {"na": 3, "ops": ops, "steps": steps + imports(0, range(k, k + 4))}
    ops, v, steps = base()
    ops.append(eop(1, 0, 5, None, p=1))
    yield {"na": 3, "ops": ops, "steps": steps + [["i", 0, len(ops) - 1]]}

    # (c, d) payload: body the header does not commit to / body although the header claims none / payload info
    # inconsistent / size wrong; (and version 2) -- at the next free seq with the right backlink, below and above
    for c in AUTH_INVALID:
        ops, v, steps = base()
        k = len(ops)
        ops += [eop(1, 0, 5, ["o", v[4]], p=1, c=c), eop(1, 0, 2, ["o", v[1]], p=1, c=c), eop(1, 0, 9, ["b", 0], p=1, c=c)]
        st = steps + imports(0, range(k, k + 3))
        if c in (3, 6, 8):
            # the very same signed header with the body it commits to: accepted, prunes; then the bad delivery once more
            ops.append(copy_of(ops, k, b=1))
            st += [["i", 0, len(ops) - 1], ["i", 0, k], ["i", 0, len(ops) - 1]]
        yield {"na": 3, "ops": ops, "steps": st}
    # shortest form of the second witness: one authentic prune-flagged header, wrong body
    ops, v, steps = base(3)
    ops.append(eop(1, 0, 3, ["o", v[2]], p=1, c=3))
    yield {"na": 3, "ops": ops, "steps": steps + [["i", 0, len(ops) - 1]]}
    # a stored prune point re-delivered with a wrong body (PayloadMismatch comes before AlreadyExists), header only
    # (AlreadyExists: log-prune runs again), and with its body
    ops = []
    v = ext_chain(ops, 1, 0, 5, prune_at=(2,))
    ops += [copy_of(ops, v[2], c=3), copy_of(ops, v[2], b=0), copy_of(ops, v[4], b=0)]
    yield {"na": 2, "ops": ops, "steps": imports(0, v[:4]) + [["i", 0, 5], ["i", 0, 6], ["i", 0, v[2]], ["i", 0, 7], ["i", 0, v[4]], ["r", 0]]}

    # (e) the node's own log: authentic forks / wrong bodies signed with the node's key, imported
    ops = [eop(0, 0, 2, ["b", 0], p=1), eop(0, 0, 3, ["b", 1], p=1, b=0), eop(0, 0, 4, ["b", 2], p=1, c=3), eop(0, 0, 4, None, p=1),
           eop(0, 0, 1, ["b", 0], p=1, c=6)]
    yield {"na": 2, "ops": ops, "steps": [["p", 0, 0, 1]] * 4 + [["p", 1, 0, 1]] * 2 + imports(0, range(5))
           + [["p", 0, 1, 0], ["i", 0, 0], ["r", 0]]}

    # (f) one author, two logs (two topics), prune points in both, decreasing / equal / increasing across the logs
    for n0, p0, n1, p1 in ((6, 4, 4, 2), (5, 3, 5, 3), (4, 2, 6, 4)):
        ops = []
        v = ext_chain(ops, 1, 0, n0, prune_at=(p0,))
        u = ext_chain(ops, 1, 1, n1, prune_at=(p1,))
        w = ext_chain(ops, 2, 1, 3, prune_at=(1,))
        yield {"na": 3, "ops": ops, "steps": imports(0, v) + imports(1, u) + imports(1, w) + [["r", 1]]}
    # ... and the node itself: prune at seq 3 on topic 0, then at seq 2 on topic 1, then at seq 1 on topic 0's ... (own logs)
    yield {"na": 1, "ops": [], "steps": [["p", 0, 0, 1]] * 3 + [["p", 0, 1, 1]] + [["p", 1, 0, 1]] * 2 + [["p", 1, 1, 0], ["p", 1, 0, 1],
                                          ["p", 1, 1, 1], ["p", 0, 0, 1], ["r", 1]]}


def authentic_invalid_op(rng, ops, chains):
    """Append an operation signed by its claimed author (external author or the node) that ingest may reject for a reason
    other than authentication; mostly prune-flagged.  Returns [topic, index]."""
    a = rng.choice([0, 1, 1, 2, 2])
    t = rng.choice([0, 1])
    seq = rng.randint(0, 6)
    p = 1 if rng.random() < 0.85 else 0
    own = chains.get((a, t)) or []
    kind = rng.random()
    if kind < 0.15 and own:
        # a stored (or pruned) operation's own header again: other body / header only / as it was
        j = rng.choice(own)
        ops.append(copy_of(ops, j, b=rng.randint(0, 1), c=3 if rng.random() < 0.5 else 0))
    elif kind < 0.55:
        # fork or outdated prune point: valid on its own, log integrity decides
        if seq == 0:
            bl = None
        elif own and seq - 1 < len(own) and rng.random() < 0.6:
            bl = ["o", own[seq - 1]]
        else:
            bl = ["b", rng.randrange(3)]
        ops.append(eop(a, t, seq, bl, p=p, b=rng.randint(0, 1)))
    elif kind < 0.65:
        # header-level inconsistency on an authentic header
        ops.append(eop(a, t, seq, ["b", 0] if seq == 0 else None, p=p, b=rng.randint(0, 1)))
    else:
        bl = None if seq == 0 else (["o", own[seq - 1]] if own and seq - 1 < len(own) and rng.random() < 0.6 else ["b", rng.randrange(3)])
        ops.append(eop(a, t, seq, bl, p=p, b=1, c=rng.choice(AUTH_INVALID)))
    return [t if rng.random() < 0.9 else 1 - t, len(ops) - 1]


def random_case(rng, auth=0.0):
    """auth: extra probability mass of authentic-but-rejected imports (0 = the original mix)."""
    na = 3
    ops = []
    chains = {}
    for a in (1, 2):
        for t in (0, 1):
            if rng.random() < 0.7:
                n = rng.randint(1, 4 if not auth else 6)
                chains[(a, t)] = ext_chain(ops, a, t, n, prune_at=tuple(k for k in range(1, n) if rng.random() < 0.3))
    steps = []
    cursors = {k: 0 for k in chains}
    # cumulative thresholds: honest import, forged import, authentic-but-rejected import, publish/prune, replay
    th_forged, th_auth, th_pub = (0.70, 0.70, 0.92) if not auth else (0.55, 0.55 + auth + 0.05, 0.94)
    for _ in range(rng.randint(4, 10)):
        r = rng.random()
        if r < 0.45 and chains:
            k = rng.choice(list(chains))
            i = cursors[k]
            if i < len(chains[k]) and rng.random() < 0.8:
                steps.append(["i", k[1], chains[k][i]])
                cursors[k] += 1
            else:
                steps.append(["i", rng.choice([k[1], 1 - k[1]]) if rng.random() < 0.2 else k[1], rng.choice(chains[k])])
        elif r < th_forged:
            # forged operation: claims an existing author (or the node), prune flag mostly set
            a = rng.choice([0, 1, 2])
            t = rng.choice([0, 1])
            seq = rng.randint(0, 6)
            ops.append(eop(a, t, seq, None if seq == 0 else ["b", rng.randrange(3)], p=1 if rng.random() < 0.8 else 0,
                           b=rng.randint(0, 1), c=rng.choice([1, 2, 5])))
            steps.append(["i", t, len(ops) - 1])
        elif r < th_auth:
            steps.append(["i"] + authentic_invalid_op(rng, ops, chains))
        elif r < th_pub:
            steps.append(["p", rng.choice([0, 1]), 1 if rng.random() < 0.3 else 0, 1 if rng.random() < 0.8 else 0])
            if steps[-1][2] == 0:
                steps[-1][3] = 1
        else:
            steps.append(["r", rng.choice([0, 1])])
    return {"na": na, "ops": ops, "steps": steps}


def gen(tier, rng):
    yield from fixed_cases()
    yield from authentic_cases()
    for _ in range(40 if tier == "quick" else 400):
        yield random_case(rng)
    for _ in range(10 if tier == "quick" else 150):
        yield random_case(rng, auth=0.2)


def harness_line(case):
    ops = ";".join("%d,%d,%d,%s,%d,%d,%d" % (o["a"], o["t"], o["seq"], L._bl(o["bl"]), o["p"], o["b"], o["c"])
                   + ("" if o.get("src") is None else ",%d" % o["src"]) for o in case["ops"])
    steps = []
    for s in case["steps"]:
        if s[0] == "i":
            steps.append("i%d:%d" % (s[1], s[2]))
        elif s[0] == "p":
            steps.append("p%d:%d:%d" % (s[1], s[2], s[3]))
        else:
            steps.append("r%d" % s[1])
    return "%d|%s|%s" % (case["na"], ops, " ".join(steps))


def coq_steps(case):
    out = []
    published = 0
    res = resolve(case["ops"])
    for s in case["steps"]:
        if s[0] == "i":
            o = case["ops"][s[2]]
            m = res[s[2]]
            bl = o["bl"]
            blnum = None if bl is None else (res[bl[1]]["hh"] if bl[0] == "o" else 900 + bl[1])
            r = {"a": o["a"], "l": s[1], "seq": o["seq"], "id": m["hh"], "hh": m["hh"], "bl": blnum, "p": o["p"], "body": m["body"],
                 "valid": m["valid"]}
            out.append("NImport %s" % L.coq_op(r))
        elif s[0] == "p":
            out.append("NPublish %s %s %s %s" % (L.N(s[1]), L.B(s[2]), L.B(s[3]), L.N(501 + published)))
            published += 1
        else:
            out.append("NReplay %s" % L.N(s[1]))
    return "[" + ";".join(out) + "]"


def coq_model(case):
    return "model_line 0%%N %s 2%%N %s" % (L.N(case["na"]), coq_steps(case))


def agree(case, impl, model):
    # the implementation line starts with the validate_operation bits of the operation list
    bits = "".join("1" if m["valid"] else "0" for m in resolve(case["ops"]))
    return impl == ("V=%s" % bits) + (" ; " + model if model else "")


def coq_oracle(case, impl):
    _bits, steps = L.parse_impl(impl)
    obs = []
    for res, rows, _h in steps:
        if res not in ("ok", "fail"):
            raise ValueError(res)
        obs.append("(mkNobs %s [%s])" % (L.B(res == "ok"), ";".join(L.coq_row(r) for r in rows)))
    return "check 0%%N %s [%s]" % (coq_steps(case), ";".join(obs))


def would_delete(prev, o, l):
    """Rows a log-prune for o (imported through the stream of topic l) would delete from the dumped state prev."""
    return [r for r in prev if r["a"] == o["a"] and r["l"] == l and r["seq"] < o["seq"]]


def nontrivial(case, impl):
    try:
        _bits, steps = L.parse_impl(impl)
    except Exception:
        return False
    res = resolve(case["ops"])
    prev = []
    for s, (r, rows, _h) in zip(case["steps"], steps):
        if s[0] == "i":
            o = case["ops"][s[2]]
            v = res[s[2]]["valid"]
            in_log = [x for x in prev if x["a"] == o["a"] and x["l"] == s[1]]
            others = [x for x in prev if not (x["a"] == o["a"] and x["l"] == s[1])]
            if o["p"] and not v and in_log:
                return True
            # an authentic prune-flagged operation that was rejected while there was something for its prune request to delete
            if o["p"] and r == "fail" and would_delete(prev, o, s[1]):
                return True
            if o["p"] and v and r == "ok" and others and any(x["seq"] < o["seq"] for x in in_log):
                return True
        prev = rows
    return False


def shrink(case):
    st = case["steps"]
    for i in range(len(st)):
        yield dict(case, steps=st[:i] + st[i + 1:])


def distribution(cases, impl):
    kinds = {"import_valid": 0, "import_forged": 0, "import_authentic_invalid": 0, "publish": 0, "prune": 0, "replay": 0}
    # rejected prune-flagged imports by class; "..._live" = the store held entries the prune request would have deleted
    rej = {"forged": 0, "forged_live": 0, "authentic_invalid": 0, "authentic_invalid_live": 0,
           "valid_rejected_by_log_integrity": 0, "valid_rejected_by_log_integrity_live": 0}
    by_c = {}
    fails = 0
    two_log_prunes = 0
    for i, c in enumerate(cases):
        res = resolve(c["ops"])
        try:
            _bits, steps = L.parse_impl(impl.get(i) or "")
        except Exception:
            steps = []
        prev = []
        pruned_logs = set()
        for k, s in enumerate(c["steps"]):
            r, rows = (steps[k][0], steps[k][1]) if k < len(steps) else (None, prev)
            if s[0] == "i":
                o = c["ops"][s[2]]
                cl = klass(o, res[s[2]]["valid"])
                kinds["import_" + cl] += 1
                if o["p"] and r == "fail":
                    key = "valid_rejected_by_log_integrity" if cl == "valid" else cl
                    rej[key] += 1
                    if would_delete(prev, o, s[1]):
                        rej[key + "_live"] += 1
                    if cl == "authentic_invalid":
                        tag = "c%d" % o["c"] if o["c"] else "header"
                        by_c[tag] = by_c.get(tag, 0) + 1
                if o["p"] and r == "ok" and would_delete(prev, o, s[1]):
                    pruned_logs.add((o["a"], s[1]))
            elif s[0] == "p":
                kinds["prune" if s[2] else "publish"] += 1
                if s[2] and r == "ok" and any(x["a"] == 0 and x["l"] == s[1] for x in prev):
                    pruned_logs.add((0, s[1]))
            else:
                kinds["replay"] += 1
            prev = rows
        if any((a, 0) in pruned_logs and (a, 1) in pruned_logs for a in range(c["na"])):
            two_log_prunes += 1
        fails += (impl.get(i) or "").count("fail/")
    kinds["steps_reported_failed"] = fails
    kinds["rejected_prune_flagged_imports"] = rej
    kinds["authentic_invalid_rejections_by_kind"] = dict(sorted(by_c.items()))
    kinds["cases_one_author_pruning_in_two_logs"] = two_log_prunes
    return kinds


REGISTERED = True
