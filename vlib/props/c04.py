"""C04 — Pruning is authenticated and scoped to the prune operation's own log (real Node, all entry points)."""
from . import ingestlib as L

ID = "C04"
HARNESS_PKG = "h_c04"
HARNESS_ARGS = ["c04"]
HARNESS_PROCS = 2
HARNESS_TIMEOUT = 1500
COQ_IMPORTS = "From PV Require Import Model.Ingest Model.Node Lib.IngestObs Oracle.C04."
COQ_SHARD = 40
TECHNIQUE = ("Coq proof (per pipeline step, for every store and every operation: what can disappear from the store and why) + "
             "differential correspondence of the Gallina node model with a real p2panda Node (real pipeline thread, SQLite store) "
             "driven through StreamPublisher::import / publish / prune and a StreamFrom::Start replay")
LEVEL_TEXT = ("Theorems C04_deleted_only_by_authentic_prune_in_scope, C04_prune_deletes_exactly_the_prefix, "
              "C04_invalid_event_changes_nothing, C04_failed_event_changes_nothing, C04_no_prune_flag_no_deletion are proved in Coq for "
              "every store and every operation reaching the pipeline (valid or forged, any author/log claimed, with or without prune flag); "
              "C04_unrepaired_pipeline_refuted keeps the defect found on the unchanged pipeline (failed event still pruned: forged operation "
              "wipes the victim's log) as a machine-checked witness. The model (Model/Ingest.v deliver, Model/Node.v entry points) is tied to "
              "p2panda/src/processor/pipeline.rs + event.rs, p2panda/src/streams/stream.rs, forge.rs and the SQLite store on every run: a real "
              "Node imports valid and forged operations (claiming other authors, the node itself, other topics), publishes, prunes and "
              "replays; after every step all logs of all authors on both topics are dumped, compared with the model and checked by the oracle.")
LEVEL_NOTE = ("Trusted: Coq kernel + vm_compute; hand-written model; validate_operation abstract (C01); the sync entry point is covered by "
              "the model argument that process_operation builds the same Event for sync, import and replay (one function in stream.rs) and "
              "is exercised through import and replay only, not through a second networked node; tokio plumbing of the pipeline "
              "(one event at a time) is C14's. Differential testing bounded by the generators (tens of scenarios in the quick tier: "
              "every step needs the real pipeline thread and SQLite).")
ASSUMPTIONS = ["every entry point reaches the pipeline through Event::new(operation, LogId::from_topic(stream topic), topic, header prune flag) "
               "(process_operation / process_published_operation in p2panda/src/streams/stream.rs) -- read off the code, exercised for import, "
               "publish, prune, replay",
               "the operation's log is the log of the stream it is processed in (the node ignores the log id inside the extensions; "
               "documented at StreamPublisher::import)",
               "events are processed one at a time (Pipeline::process awaits completion)"]
TRUSTED = ["modelled not verified: SQLite DELETE semantics, sqlx, tokio channels/threads of the pipeline, acknowledgement bookkeeping"]
RULE = ("quick: the finding's witness first; 8 fixed scenarios (forged prune-flagged operation below/at/above the victim's height via "
        "import, forged operation claiming the node's own key, flag flipped after signing, valid prune by the author, cross-author and "
        "cross-topic bystander logs, publish/prune of the node itself, replay) and 40 random step sequences over 3 authors x 2 topics; "
        "thorough: 400 random. non-trivial = a case that contains a forged prune-flagged step while the claimed log is non-empty, or a "
        "successful prune with bystander logs present")
NONTRIVIAL_FLOOR = 10


def eop(a, t, seq, bl, p=0, b=1, c=0):
    return {"a": a, "t": t, "seq": seq, "bl": bl, "p": p, "b": b, "c": c}


def valid(o):
    return o["c"] == 0 and ((o["seq"] == 0) == (o["bl"] is None))


def ext_chain(ops, a, t, n, prune_at=()):
    idx = []
    prev = None
    for k in range(n):
        ops.append(eop(a, t, k, None if k == 0 else ["o", prev], p=1 if k in prune_at else 0))
        prev = len(ops) - 1
        idx.append(prev)
    return idx


def fixed_cases():
    # 1-3: forged prune-flagged operation below / at / above the victim's height
    for seq in (1, 2, 3, 7):
        for c in (1, 2, 5):
            ops = []
            v = ext_chain(ops, 1, 0, 3)
            w = ext_chain(ops, 2, 0, 2)
            ops.append(eop(1, 0, seq, ["o", v[-1]], p=1, c=c))
            f = len(ops) - 1
            steps = [["i", 0, j] for j in v + w] + [["i", 0, f]]
            if seq == 3 and c == 1:
                ops.append(eop(1, 0, 3, ["o", v[-1]], p=1))
                steps += [["i", 0, len(ops) - 1], ["i", 0, f], ["r", 0]]
            yield {"na": 3, "ops": ops, "steps": steps}
    # forged operation claiming the node's own key, after the node published
    ops = [eop(0, 0, 2, ["b", 1], p=1, c=1), eop(0, 0, 9, ["b", 1], p=1, c=5)]
    yield {"na": 2, "ops": ops, "steps": [["p", 0, 0, 1], ["p", 0, 0, 1], ["p", 1, 0, 1], ["i", 0, 0], ["i", 0, 1], ["p", 0, 1, 1],
                                          ["p", 0, 0, 1], ["i", 0, 0], ["r", 0]]}
    # the node prunes its own log on topic 0; its topic-1 log and other authors stay
    ops = []
    v = ext_chain(ops, 1, 0, 3)
    yield {"na": 2, "ops": ops, "steps": [["p", 0, 0, 1], ["p", 1, 0, 1], ["p", 0, 0, 1]] + [["i", 0, j] for j in v]
           + [["p", 0, 1, 0], ["p", 0, 0, 1], ["p", 1, 1, 1], ["r", 1]]}
    # valid prune by author 1 on topic 0: author 2 and topic 1 are bystanders; then older operations again
    ops = []
    v = ext_chain(ops, 1, 0, 5, prune_at=(3,))
    w = ext_chain(ops, 2, 0, 3)
    u = ext_chain(ops, 1, 1, 3)
    yield {"na": 3, "ops": ops, "steps": [["i", 0, j] for j in v[:3] + w] + [["i", 1, j] for j in u]
           + [["i", 0, v[3]], ["i", 0, v[1]], ["i", 0, v[4]], ["i", 0, v[3]], ["r", 0]]}
    # an operation whose extensions name topic 1, imported through the stream of topic 0 (and vice versa)
    ops = []
    v = ext_chain(ops, 1, 0, 3)
    ops.append(eop(1, 1, 3, ["o", v[-1]], p=1))
    ops.append(eop(1, 1, 0, None, p=0))
    yield {"na": 2, "ops": ops, "steps": [["i", 0, j] for j in v] + [["i", 1, len(ops) - 1], ["i", 0, len(ops) - 2]]}
    # prune point delivered first, then the pruned prefix and a forged older prune point
    ops = []
    v = ext_chain(ops, 1, 0, 4, prune_at=(2,))
    ops.append(eop(1, 0, 1, ["o", v[0]], p=1, c=2))
    yield {"na": 2, "ops": ops, "steps": [["i", 0, v[2]], ["i", 0, v[0]], ["i", 0, v[1]], ["i", 0, len(ops) - 1], ["i", 0, v[3]]]}


def random_case(rng):
    na = 3
    ops = []
    chains = {}
    for a in (1, 2):
        for t in (0, 1):
            if rng.random() < 0.7:
                n = rng.randint(1, 4)
                chains[(a, t)] = ext_chain(ops, a, t, n, prune_at=tuple(k for k in range(1, n) if rng.random() < 0.3))
    steps = []
    cursors = {k: 0 for k in chains}
    for _ in range(rng.randint(4, 10)):
        r = rng.random()
        if r < 0.45 and chains:
            k = rng.choice(list(chains))
            i = cursors[k]
            if i < len(chains[k]) and rng.random() < 0.8:
                steps.append(["i", k[1], chains[k][i]])
                cursors[k] += 1
            else:
                steps.append(["i", rng.choice([k[1], 1 - k[1]]) if rng.random() < 0.2 else k[1], rng.choice(chains[k])])
        elif r < 0.70:
            # forged operation: claims an existing author (or the node), prune flag mostly set
            a = rng.choice([0, 1, 2])
            t = rng.choice([0, 1])
            seq = rng.randint(0, 6)
            ops.append(eop(a, t, seq, None if seq == 0 else ["b", rng.randrange(3)], p=1 if rng.random() < 0.8 else 0,
                           b=rng.randint(0, 1), c=rng.choice([1, 2, 5])))
            steps.append(["i", t, len(ops) - 1])
        elif r < 0.92:
            steps.append(["p", rng.choice([0, 1]), 1 if rng.random() < 0.3 else 0, 1 if rng.random() < 0.8 else 0])
            if steps[-1][2] == 0:
                steps[-1][3] = 1
        else:
            steps.append(["r", rng.choice([0, 1])])
    return {"na": na, "ops": ops, "steps": steps}


def gen(tier, rng):
    yield from fixed_cases()
    for _ in range(40 if tier == "quick" else 400):
        yield random_case(rng)


def harness_line(case):
    ops = ";".join("%d,%d,%d,%s,%d,%d,%d" % (o["a"], o["t"], o["seq"], L._bl(o["bl"]), o["p"], o["b"], o["c"]) for o in case["ops"])
    steps = []
    for s in case["steps"]:
        if s[0] == "i":
            steps.append("i%d:%d" % (s[1], s[2]))
        elif s[0] == "p":
            steps.append("p%d:%d:%d" % (s[1], s[2], s[3]))
        else:
            steps.append("r%d" % s[1])
    return "%d|%s|%s" % (case["na"], ops, " ".join(steps))


def coq_steps(case):
    out = []
    published = 0
    for s in case["steps"]:
        if s[0] == "i":
            o = case["ops"][s[2]]
            bl = o["bl"]
            blnum = None if bl is None else (bl[1] + 1 if bl[0] == "o" else 900 + bl[1])
            r = {"a": o["a"], "l": s[1], "seq": o["seq"], "id": s[2] + 1, "hh": s[2] + 1, "bl": blnum, "p": o["p"], "body": o["b"],
                 "valid": valid(o)}
            out.append("NImport %s" % L.coq_op(r))
        elif s[0] == "p":
            out.append("NPublish %s %s %s %s" % (L.N(s[1]), L.B(s[2]), L.B(s[3]), L.N(501 + published)))
            published += 1
        else:
            out.append("NReplay %s" % L.N(s[1]))
    return "[" + ";".join(out) + "]"


def coq_model(case):
    return "model_line 0%%N %s 2%%N %s" % (L.N(case["na"]), coq_steps(case))


def agree(case, impl, model):
    # the implementation line starts with the validate_operation bits of the operation list
    bits = "".join("1" if valid(o) else "0" for o in case["ops"])
    return impl == ("V=%s" % bits) + (" ; " + model if model else "")


def coq_oracle(case, impl):
    _bits, steps = L.parse_impl(impl)
    obs = []
    for res, rows, _h in steps:
        if res not in ("ok", "fail"):
            raise ValueError(res)
        obs.append("(mkNobs %s [%s])" % (L.B(res == "ok"), ";".join(L.coq_row(r) for r in rows)))
    return "check 0%%N %s [%s]" % (coq_steps(case), ";".join(obs))


def nontrivial(case, impl):
    try:
        _bits, steps = L.parse_impl(impl)
    except Exception:
        return False
    prev = []
    for s, (res, rows, _h) in zip(case["steps"], steps):
        if s[0] == "i":
            o = case["ops"][s[2]]
            in_log = [r for r in prev if r["a"] == o["a"] and r["l"] == s[1]]
            others = [r for r in prev if not (r["a"] == o["a"] and r["l"] == s[1])]
            if o["p"] and not valid(o) and in_log:
                return True
            if o["p"] and valid(o) and res == "ok" and others and any(r["seq"] < o["seq"] for r in in_log):
                return True
        prev = rows
    return False


def shrink(case):
    st = case["steps"]
    for i in range(len(st)):
        yield dict(case, steps=st[:i] + st[i + 1:])


def distribution(cases, impl):
    kinds = {"import_valid": 0, "import_forged": 0, "publish": 0, "prune": 0, "replay": 0}
    fails = 0
    for i, c in enumerate(cases):
        for s in c["steps"]:
            if s[0] == "i":
                kinds["import_valid" if valid(c["ops"][s[2]]) else "import_forged"] += 1
            elif s[0] == "p":
                kinds["prune" if s[2] else "publish"] += 1
            else:
                kinds["replay"] += 1
        fails += (impl.get(i) or "").count("fail/")
    kinds["steps_reported_failed"] = fails
    return kinds


REGISTERED = True
