"""C26 — Wire framing decodes exactly the encoded message sequence (p2panda-net/src/codec.rs)."""
import subprocess

ID = "C26"
HARNESS_PKG = "h_net_a"
HARNESS_ARGS = ["c26"]
COQ_IMPORTS = "From PV Require Import Model.Codec Oracle.C26."
COQ_SHARD = 110
TECHNIQUE = ("Coq proof (prefix-stability of decode + induction over the decode loop and the chunk list: feeding any byte "
             "stream chunk by chunk = decoding it at once; induction over the message list for encoder-produced streams; "
             "big-endian u32 arithmetic by div/mod) + differential correspondence of the Gallina model with the real "
             "Codec (Encoder/Decoder on BytesMut) and the real tokio-util FramedRead")
LEVEL_TEXT = ("Proved in Coq for every message type/serialiser satisfying the postcard round-trip hypothesis, every max_frame_len, "
              "every message sequence and every chunking (no bound): C26_chunking_irrelevant (encoder output cut anywhere decodes to "
              "exactly the messages, buffer ends empty, FramedRead ends without error), C26_chunking_irrelevant_any_stream (for "
              "arbitrary, also malformed bytes the items/errors/left-over depend on the bytes only, not on the cuts; no postcard "
              "hypothesis), C26_truncated_stream, C26_too_large_rejected_both_ways, C26_no_smaller_frame_rejected, "
              "C26_size_refusal_only_if_larger, C26_boundary (max accepted, max+1 refused, both directions), C26_prefix_roundtrip(+_inv). "
              "The model is tied to codec.rs on every run: the real Codec encodes the case's messages into a BytesMut, the bytes (or a "
              "malformed/truncated stream) are fed back chunk by chunk both through Decoder::decode and through the real FramedRead; "
              "encode results, buffer bytes, decoded items, errors by variant and left-over length are compared with the model line, "
              "and the oracle (one-shot reading of the property) is evaluated on the implementation's observation.")
LEVEL_NOTE = ("Modelled, not verified: postcard (messages are opaque payload bytes; Size flavour = number of bytes written; from_bytes on "
              "the exact payload slice) and the FramedRead driver loop of tokio-util (re-stated as stream_out, exercised for real by "
              "the harness). usize = 64 bit. Correspondence is differential testing bounded by the generators.")
ASSUMPTIONS = ["postcard round trip on the exact payload slice: de (ser m) = Some m (Section hypothesis of the theorems that speak about messages)",
               "postcard's Size flavour reports exactly the number of bytes postcard::to_io writes (observed on every accepted message: prefix = payload length)",
               "usize is 64 bit, so 4 + frame_len cannot overflow in decode"]
TRUSTED = ["modelled not verified: postcard serialisation; tokio-util FramedRead loop and default decode_eof (re-stated in the model, run for real in the harness)",
           "harness message types Raw/Picky (serialise as their bytes; Picky refuses a payload starting with 0xFF) stand for `M`; real operation / "
           "TopicLogSyncMessage / TopicHandshakeMessage values are treated as their postcard payload"]
RULE = ("quick: every single cut and every pair of cuts of 6 short streams (well-formed, with a refused message, oversized prefix, truncated, "
        "undeserialisable payload, garbage) + byte-by-byte and random chunkings of ~500 random cases (message lengths around max: max-1, max, "
        "max+1; truncations, prefix/byte mutations, garbage) + real p2panda messages (signed operations, TopicLogSyncMessage, "
        "TopicHandshakeMessage) with boundary maxima + default-maximum and u32 boundary prefixes + 4 GiB messages (size checks only); "
        "thorough: same families, every triple of cuts for the shortest streams, ~5000 random cases, streams up to ~3000 bytes. "
        "non-trivial = the stream is cut at least once and at least one message is decoded, or an error/refusal is observed")

DEFAULT_MAX = 1024 * 1024 * 128
U32 = 2 ** 32 - 1
HUGE_ELEM = 65539


def _maxv(case):
    return DEFAULT_MAX if case["max"] == "default" else int(case["max"])


def be32(n):
    return [(n >> 24) & 255, (n >> 16) & 255, (n >> 8) & 255, n & 255]


def frame(p):
    return be32(len(p)) + list(p)


def encoded(case):
    mx = _maxv(case)
    out = []
    for m in case["msgs"]:
        if len(m) <= mx:
            out += frame(m)
    return out


def _ser(descs):
    """Real messages -> postcard payloads through the harness binary (`c26ser`)."""
    if not descs:
        return []
    from vlib import core
    inp = "".join("%d %s %d %d %d\n" % (i, k, s, v, z) for i, (k, s, v, z) in enumerate(descs))
    p = subprocess.run([core.harness_bin(HARNESS_PKG), "c26ser"], input=inp, capture_output=True, text=True, timeout=300)
    res = {}
    for l in p.stdout.split("\n"):
        a, _, b = l.partition(" ")
        if a.isdigit() and b.startswith("x"):
            res[int(a)] = list(bytes.fromhex(b[1:]))
    return [res[i] for i in range(len(descs))]


def _case(kind, mx, msgs, stream=None, cuts=()):
    return {"kind": kind, "max": mx, "msgs": [list(m) for m in msgs], "stream": None if stream is None else list(stream), "cuts": list(cuts)}


def _all_cuts(n, depth):
    """Chunk-size lists for every choice of `depth` cut positions 0 <= p1 <= .. <= pd <= n."""
    def rec(start, d):
        if d == 0:
            yield []
            return
        for p in range(start, n + 1):
            for r in rec(p, d - 1):
                yield [p] + r
    for pos in rec(0, depth):
        sizes, last = [], 0
        for p in pos:
            sizes.append(p - last)
            last = p
        yield sizes


def _rand_cuts(rng, n):
    style = rng.randrange(5)
    if style == 0 or n == 0:
        return []
    if style == 1:
        return [1] * n
    if style == 2:
        k = rng.randint(1, 4)
        return [k] * (n // k + 1)
    cuts, left = [], n
    while left > 0 and len(cuts) < 40:
        c = rng.choice([0, 1, 1, 2, 3, 4, 5, 7, rng.randint(0, max(1, n))])
        cuts.append(c)
        left -= c
    return cuts


def _rand_msgs(rng, mx, nmax, lmax):
    msgs = []
    for _ in range(rng.randint(0, nmax)):
        r = rng.random()
        if r < 0.35:
            ln = max(0, mx + rng.choice([-1, 0, 0, 1, 1, 2]))
        elif r < 0.45:
            ln = 0
        else:
            ln = rng.randint(0, max(1, min(lmax, mx + 3)))
        ln = min(ln, lmax)
        m = [rng.randrange(256) for _ in range(ln)]
        if m and rng.random() < 0.15:
            m[0] = 255
        msgs.append(m)
    return msgs


def _mutate(rng, case):
    s = encoded(case)
    r = rng.random()
    if r < 0.35 and s:
        s = s[:rng.randrange(len(s) + 1)]                     # truncate
    elif r < 0.6 and s:
        i = rng.randrange(len(s))
        s[i] = rng.choice([0, 1, 255, rng.randrange(256), (s[i] + 1) % 256])   # one byte
    elif r < 0.8:
        mx = _maxv(case)
        n = rng.choice([mx + 1, mx, mx + 2, U32, 0, 256 * (mx + 1)])
        n = max(0, min(U32, n))
        k = rng.randrange(len(s) + 1)
        s = s[:k] + be32(n) + [rng.randrange(256) for _ in range(rng.randint(0, 6))] + s[k:]
    else:
        s = [rng.choice([0, 0, 0, 1, 2, 255, rng.randrange(256)]) for _ in range(rng.randint(0, 24))]
    return s


def gen(tier, rng):
    quick = tier == "quick"
    # (a) every cut of short streams
    base = [
        _case("raw", 4, [[1, 2], [], [3, 4, 5, 6]]),
        _case("raw", 2, [[1, 2], [7, 8, 9], [5]]),                              # one refused message
        _case("picky", 3, [[1], [255, 2], [3]]),                                # payload the type refuses
        _case("raw", 3, [[9, 9]], stream=frame([9, 9]) + be32(4) + [1, 2, 3, 4]),   # oversized prefix behind a good frame
        _case("raw", 8, [[1, 2, 3]], stream=frame([1, 2, 3]) + frame([4, 5, 6])[:6]),  # ends inside a frame
        _case("raw", 5, [], stream=[0, 0, 0, 0, 0, 0, 0, 1, 7, 0, 0, 1, 0]),    # empty frame, then 256 > max
    ]
    for b in base:
        n = len(b["stream"] if b["stream"] is not None else encoded(b))
        for depth in (1, 2) if quick else (1, 2, 3):
            if depth == 3 and n > 13:
                continue
            for cuts in _all_cuts(n, depth):
                yield dict(b, cuts=cuts)
    # (b) random raw / picky cases
    nrand = 500 if quick else 5000
    for i in range(nrand):
        kind = "picky" if rng.random() < 0.3 else "raw"
        mx = rng.choice([0, 1, 2, 3, 5, 8, 16, 40, 255, 256, 300, "default", 2 ** 64 - 1]) if rng.random() < 0.8 else rng.randint(0, 70)
        mv = _maxv({"max": mx})
        lmax = (70 if quick else 300) if rng.random() < 0.9 else (600 if quick else 1400)
        # (coqtop's stack overflows when reading back a result string beyond ~30k characters:
        # keep the encoded stream below ~3000 bytes, the line shows it three times in hex)
        nm = 5 if quick else (9 if lmax <= 300 else 2)
        c = _case(kind, mx, _rand_msgs(rng, min(mv, 10 ** 6), nm, lmax))
        if rng.random() < 0.45:
            c["stream"] = _mutate(rng, c)
        n = len(c["stream"] if c["stream"] is not None else encoded(c))
        c["cuts"] = _rand_cuts(rng, n)
        yield c
    # (c) boundary prefixes at the default maximum and at the u32 limit (decode side only)
    for mx, n in [("default", DEFAULT_MAX), ("default", DEFAULT_MAX + 1), ("default", U32), (2 ** 64 - 1, U32),
                  (U32, U32), (U32 - 1, U32), (0, 0), (0, 1)]:
        for tail in ([], [1, 2, 3]):
            for cuts in ([], [1, 1, 1, 1], [4], [3]):
                yield _case("raw", mx, [], stream=be32(n) + tail, cuts=cuts)
    # (d) 4 GiB messages: only the size checks of encode run
    hl = 65536 * HUGE_ELEM
    for mx in [2 ** 64 - 1, 2 ** 33, hl, hl - 1, U32 + 1, U32, "default"]:
        yield {"kind": "huge", "max": mx, "n": 65536}
    for n in (65534, 70000):                                      # 65534 * 65539 is the first size above u32::MAX
        yield {"kind": "huge", "max": 2 ** 64 - 1, "n": n}
    # (e) real p2panda messages
    nreal = 40 if quick else 300
    descs, plan = [], []
    for i in range(nreal):
        kind = rng.choice(["op", "tls", "ths"])
        k = rng.randint(1, 4 if quick else 8)
        plan.append((kind, k))
        for _ in range(k):
            descs.append((kind, rng.randrange(2 ** 32), rng.randrange(12), rng.choice([0, 1, 5, 32, rng.randint(0, 200)])))
    payloads = _ser(descs)
    pos = 0
    for kind, k in plan:
        msgs = payloads[pos:pos + k]
        pos += k
        lens = sorted(len(m) for m in msgs)
        mx = rng.choice(["default", lens[-1], lens[-1] - 1, lens[0], 2 ** 64 - 1])
        c = _case(kind, mx, msgs)
        c["cuts"] = _rand_cuts(rng, len(encoded(c)))
        yield c


def _hex(b):
    return "x" + bytes(b).hex()


def harness_line(case):
    if case["kind"] == "huge":
        return "huge %s %d" % (case["max"], case["n"])
    msgs = ",".join(_hex(m) for m in case["msgs"]) or "-"
    stream = "-" if case["stream"] is None else _hex(case["stream"])
    cuts = ",".join(str(c) for c in case["cuts"]) or "-"
    return "%s %s %s %s %s" % (case["kind"], case["max"], msgs, stream, cuts)


def _bl(b):
    return "[" + ";".join(str(x) for x in b) + "]%N"


def _args(case):
    picky = "true" if case["kind"] == "picky" else "false"
    msgs = "[" + ";".join(_bl(m) for m in case["msgs"]) + "]"
    ov = "None" if case["stream"] is None else "(Some %s)" % _bl(case["stream"])
    return picky, "%d%%N" % _maxv(case), msgs, ov


def coq_model(case):
    if case["kind"] == "huge":
        return "model_line_huge %d%%N %d%%N" % (_maxv(case), case["n"])
    picky, mx, msgs, ov = _args(case)
    cuts = "[" + ";".join(str(c) for c in case["cuts"]) + "]%nat"
    return "model_line %s %s %s %s %s" % (picky, mx, msgs, ov, cuts)


def _fields(impl):
    return dict(t.split("=", 1) for t in impl.split(" ") if "=" in t)


def _err(t):
    p = t.split(":")
    if p[0] == "TooLarge":
        return "(TooLargeMessage %d%%N %d%%N)" % (int(p[1]), int(p[2]))
    if p[0] in ("Postcard", "Io"):
        return p[0]
    raise ValueError(t)


def _items(s):
    if s == "-":
        return "[]"
    out = []
    for t in s.split(";"):
        if t.startswith("ok:"):
            out.append("IOk %s" % _bl(bytes.fromhex(t[3:])))
        elif t.startswith("err:"):
            out.append("IErr %s" % _err(t[4:]))
        else:
            raise ValueError(t)
    return "[" + ";".join(out) + "]"


def _enc1(t):
    return "None" if t == "ok" else "(Some %s)" % _err(t)


def coq_oracle(case, impl):
    f = _fields(impl)
    if case["kind"] == "huge":
        return "check_huge %d%%N %d%%N %s %d%%N" % (_maxv(case), case["n"], _enc1(f["E"]), int(f["L"]))
    picky, mx, msgs, ov = _args(case)
    enc = "[]" if f["E"] == "-" else "[" + ";".join(_enc1(t) for t in f["E"].split(";")) + "]"
    resid = "None" if f["R"] == "X" else "(Some %d%%N)" % int(f["R"])
    return "check %s %s %s %s %s %s %s %s %s" % (picky, mx, msgs, ov, enc, _bl(bytes.fromhex(f["S"])), _items(f["D"]), resid, _items(f["F"]))


def nontrivial(case, impl):
    if case["kind"] == "huge":
        return "TooLarge" in impl
    f = _fields(impl)
    return (len(case["cuts"]) >= 1 and "ok:" in f.get("F", "")) or "err:" in impl or "TooLarge" in f.get("E", "")


def shrink(case):
    if case["kind"] == "huge":
        return
    for i in range(len(case["msgs"])):
        yield dict(case, msgs=case["msgs"][:i] + case["msgs"][i + 1:])
    for i in range(len(case["cuts"])):
        yield dict(case, cuts=case["cuts"][:i] + case["cuts"][i + 1:])
    if case["stream"] is not None:
        s = case["stream"]
        yield dict(case, stream=None)
        yield dict(case, stream=s[:len(s) // 2])
        yield dict(case, stream=s[:-1])
    for i, m in enumerate(case["msgs"]):
        if len(m) > 1 and case["kind"] in ("raw", "picky"):
            yield dict(case, msgs=case["msgs"][:i] + [m[:-1]] + case["msgs"][i + 1:])


def distribution(cases, impl):
    kinds, errs = {}, {"TooLarge(decode)": 0, "Postcard": 0, "Io": 0, "TooLarge(encode)": 0}
    override = cut = 0
    maxlen = 0
    for i, c in enumerate(cases):
        kinds[c["kind"]] = kinds.get(c["kind"], 0) + 1
        if c.get("stream") is not None:
            override += 1
        if c.get("cuts"):
            cut += 1
        o = impl.get(i, "")
        f = _fields(o)
        if "err:TooLarge" in f.get("F", ""):
            errs["TooLarge(decode)"] += 1
        if "err:Postcard" in f.get("F", ""):
            errs["Postcard"] += 1
        if "err:Io" in f.get("F", ""):
            errs["Io"] += 1
        if "TooLarge" in f.get("E", ""):
            errs["TooLarge(encode)"] += 1
        maxlen = max(maxlen, len(f.get("S", "")) // 2)
    return {"kinds": kinds, "explicit_stream": override, "with_cuts": cut, "cases_with_error": errs, "max_encoded_len": maxlen}
