"""C15 — Unacknowledged operations are replayed after any crash; acknowledged ones are not re-delivered."""
import re

ID = "C15"
HARNESS_PKG = "h_c15"
COQ_IMPORTS = "From PV Require Import Model.Replay Oracle.C15."
HARNESS_PROCS = 14
HARNESS_TIMEOUT = 6000
COQ_SHARD = 8
SEARCH_LIMIT = 150
NONTRIVIAL_FLOOR = 5
REGISTERED = True
TECHNIQUE = ("Coq proof over a transition-system model of the durable tables (operations, topic associations, ack cursor) with a crash "
             "label allowed anywhere in the trace (induction over the trace) + differential correspondence with a real Node on a "
             "file-backed SQLite database that is crashed (node drop / child-process abort) and restarted")
LEVEL_TEXT = ("PARTIAL. Proved in Coq for every trace of atomic durable transitions with crashes anywhere (no bound): the restart from the "
              "frontier (nacked_log_ranges = compare(cursor, heights of the topic's logs) followed by replay_log_ranges) replays exactly "
              "the stored operations of the topic above the cursor (C15_replay_exact, C15_delivered_exact); the cursor is the per-log maximum "
              "of committed acknowledgements (C15_cursor_is_max_acked), hence the replay set is exactly 'stored and not acknowledged, neither "
              "itself nor a later operation of its log' (C15_replay_iff_not_acked), C15_acked_not_redelivered, C15_unacked_replayed, "
              "C15_replay_then_restart; API calls cut by a crash are such traces (C15_crash_anywhere_in_api_calls); k acknowledgements in flight at once through the "
              "stream's one Acked (permit modelled, Model/AckConc.v) leave, in every interleaving, the tables of the same acks made one after the other in some order "
              "(C15_concurrent_acks_serialisable), so none of them is replayed after a restart (C15_concurrent_acks_not_redelivered). The model is tied to the code on "
              "every run: histories of publish/prune/import/ack on a real Node, crashed after each session and inside calls, restarted on the "
              "same database; tables are read with raw SQL before every restart; model line and implementation line are compared, the oracle "
              "checks the property on the observed tables and events. SQLite durability/atomicity and the process model are assumed, not verified.")
LEVEL_NOTE = ("Trusted: Coq kernel + vm_compute; hand-written model of acked.rs/replay.rs/stream.rs/forge.rs and of the SQL of get_log_heights/"
              "get_log_entries/prune_entries; SQLite transactions atomic+durable across a process crash (power loss not covered); a crash stops all "
              "tasks at once; harness/python glue. Correspondence is differential testing bounded by the generators.")
ASSUMPTIONS = ["SQLite: a committed transaction / single statement is atomic and survives a process crash (modelled, exercised by abort() runs, not verified)",
               "process model: a crash stops every task and thread of the node at once; restart uses the same signing key and database file",
               "one Acked instance per cursor name at a time; tokio's Semaphore (one permit, FIFO, released on drop) serialises the calls made through it - modelled, exercised by the concurrent bursts; restarts use StreamFrom::Frontier",
               "imported operations carry the log id of the topic they are imported into; operation ids (hashes) are unique"]
TRUSTED = ["modelled not verified: SQLite durability and atomicity, tokio task/thread scheduling of the stream task and pipeline thread, ed25519/BLAKE3, CBOR codecs"]
RULE = ("quick: 4 fixed histories with a burst of concurrent acknowledgements (join_all free running / every call held at each schedule point of Acked::ack in turn / "
        "one task per call on a multi-thread runtime; several authors; one log in descending order) + 3 fixed + 28 generated histories; generated sessions also contain such bursts "
        "(2-5 held events, optionally an ack by hash, random label lists replayed through the schedule points, 30% free running); histories = "
        "(2-4 node sessions each, 1-5 calls per session over publish/prune/import/ack/held-ack/other-topic publish, "
        "policies Explicit/Automatic per session, 1-3 authors, foreign logs up to 14 entries with body-less, undecodable and prune-flagged entries, "
        "duplicate and out-of-order imports)), crash by node drop after every session (all work awaited) or by abort() of a child process running the session; ~40% with a crash inside a call "
        "(publish/import not awaited, replay consumed partially) - always by abort(); thorough: 4 + 3 + 240 histories, up to 6 sessions. "
        "non-trivial = some restart replays at least one event while another stored operation with a body is held back by the cursor")

POL = {"E": "Explicit", "A": "Automatic"}
BODY = {"n": "NoBody", "b": "Body", "x": "BadBody"}


# ------------------------------------------------------------------------------------------------
# generation
# ------------------------------------------------------------------------------------------------

def _gen_case(rng, tier, crash):
    n = rng.choice([1, 2, 2, 3])
    me = rng.randrange(n)
    foreign = []
    flogs = {}
    fid = 100
    for a in range(n):
        if a == me:
            continue
        ln = rng.choice([1, 2, 3, 4, 6, 12, 14]) if rng.random() < 0.8 else rng.randint(1, 5)
        ids = []
        # at most one prune-flagged entry per foreign log, never the first one
        prune_at = rng.randrange(1, ln) if (ln > 1 and rng.random() < 0.3) else -1
        for s in range(ln):
            b = rng.choices(["b", "n", "x"], [70, 15, 15])[0]
            pr = 1 if s == prune_at else 0
            foreign.append([fid, a, s, b, pr])
            ids.append(fid)
            fid += 1
        flogs[a] = ids
    nseg = rng.randint(2, 4 if tier == "quick" else 6)
    mixed = rng.random() < 0.35
    base_pol = rng.choices(["E", "A"], [70, 30])[0]
    segs = []
    next_pub, next_other = 1, 200
    published, imported_upto = [], {a: 0 for a in flogs}
    fbody = {f[0]: f[3] for f in foreign}
    for _ in range(nseg):
        pol = rng.choice(["E", "A"]) if mixed else base_pol
        ops = []
        held = []
        for _ in range(rng.randint(1, 5)):
            kinds = ["P"] * 4 + ["A"] * 3 + ["K"] * 2 + ["O"]
            if flogs:
                kinds += ["I"] * 4
            if len(held) >= 2:
                kinds += ["J"] * 4
            k = rng.choice(kinds)
            if k == "P":
                r = rng.random()
                wb, pr = (1, 0) if r < 0.8 else ((1, 1) if r < 0.9 else (0, 1))
                ops.append(["P", next_pub, wb, pr])
                published.append(next_pub)
                if wb:
                    held.append(next_pub)
                next_pub += 1
            elif k == "I":
                a = rng.choice(sorted(flogs))
                ids = flogs[a]
                r = rng.random()
                if r < 0.7 and imported_upto[a] < len(ids):
                    cnt = rng.choice([1, 1, 2, 3, len(ids)])
                    chunk = ids[imported_upto[a]:imported_upto[a] + cnt]
                    imported_upto[a] += len(chunk)
                elif r < 0.85 and imported_upto[a] > 0:
                    st = rng.randrange(imported_upto[a])
                    chunk = ids[st:st + rng.randint(1, 2)]        # duplicates
                else:
                    st = rng.randrange(len(ids))
                    chunk = ids[st:st + rng.randint(1, 2)]        # possibly out of order (rejected)
                    if st == imported_upto[a]:
                        imported_upto[a] += len(chunk)
                if chunk:
                    ops.append(["I", chunk])
                    held += [i for i in chunk if fbody[i] == "b"]
            elif k == "A":
                pool = published + [i for a in flogs for i in flogs[a][:imported_upto[a]]]
                if pool:
                    ops.append(["A", rng.choice(pool)])
            elif k == "K":
                if held:
                    ops.append(["K", rng.choice(held)])
            elif k == "J":
                ops.append(_gen_join(rng, held, published + [i for a in flogs for i in flogs[a][:imported_upto[a]]]))
            else:
                ops.append(["O", next_other])
                next_other += 1
        segs.append({"pol": pol, "ops": ops})
    racy = None
    r = rng.random()
    if r < 0.15:
        wb, pr = rng.choice([(1, 0), (1, 0), (1, 1), (0, 1)])
        racy = {"kind": "p", "op": ["P", next_pub, wb, pr], "y": rng.choice([0, 1, 2, 4, 8, 30])}
    elif r < 0.28 and flogs:
        a = rng.choice(sorted(flogs))
        chunk = flogs[a][imported_upto[a]:imported_upto[a] + 1] or flogs[a][:1]
        racy = {"kind": "i", "op": ["I", chunk], "y": rng.choice([0, 1, 2, 4, 8, 30])}
    elif r < 0.45:
        racy = {"kind": "r", "pol": rng.choice(["A", "A", "E"]), "j": rng.randint(1, 3)}
    # a crash inside a call needs a process that really dies: a dropped node leaves its pipeline
    # thread running until its queue is empty, which is not a crash
    return {"crash": "a" if racy else crash, "me": me, "n": n, "foreign": foreign, "segs": segs, "racy": racy,
            "final": rng.choice(["E", "E", "A"])}


def _interleave(rng, k, per=5, extra=0.3):
    labels = [i for i in range(k) for _ in range(per)]
    labels += [rng.randrange(k) for _ in range(int(len(labels) * extra))]
    rng.shuffle(labels)
    return labels


def _gen_join(rng, held, pool):
    """Several acknowledgements in flight at once: held events (K) and, on the session's own
    runtime only, acks by hash (A); descending order half of the time (a stale write would move
    the cursor backwards)."""
    mode = rng.choice(["j", "j", "s"])
    k = rng.randint(2, min(5, max(2, len(held))))
    ents = [["K", i] for i in rng.sample(held, min(k, len(held)))]
    if mode == "j" and pool and rng.random() < 0.4:
        ents.append(["A", rng.choice(pool)])
    if rng.random() < 0.5:
        ents.sort(key=lambda e: -e[1])
    sched = None if rng.random() < 0.3 else _interleave(rng, len(ents))
    return ["J", mode, ents, sched]


def _round_robin(k, rounds=6):
    return [i for _ in range(rounds) for i in range(k)]


def gen(tier, rng):
    # concurrent acknowledgements: operations of several authors arrive by import and are all
    # acknowledged at once (join_all, free running / every call started before any of them reads /
    # tasks on a multi-thread runtime), then the node crashes and is restarted from the frontier
    f8 = [[100 + a, a + 1, 0, "b", 0] for a in range(5)]
    for mode, sched in (("j", None), ("j", _round_robin(5)), ("s", _round_robin(5))):
        yield {"crash": "d", "me": 0, "n": 6, "foreign": f8, "racy": None, "final": "E",
               "segs": [{"pol": "E", "ops": [["I", [100 + a for a in range(5)]],
                                              ["J", mode, [["K", 100 + a] for a in range(5)], sched]]}]}
    # one log, descending heights, the oldest call first at every point
    yield {"crash": "d", "me": 0, "n": 1, "foreign": [], "racy": None, "final": "E",
           "segs": [{"pol": "E", "ops": [["P", 1, 1, 0], ["P", 2, 1, 0], ["P", 3, 1, 0],
                                          ["J", "j", [["K", 3], ["K", 2], ["A", 1]], [0, 0, 0, 1, 1, 0, 0, 2, 1, 1, 1, 2, 2, 2, 2, 2]]]}]}
    # fixed seeds of the shape the property is about
    yield {"crash": "d", "me": 0, "n": 1, "foreign": [], "racy": None, "final": "E",
           "segs": [{"pol": "E", "ops": [["P", 1, 1, 0], ["P", 2, 1, 0], ["P", 3, 1, 0], ["A", 2]]},
                    {"pol": "E", "ops": [["K", 3]]}]}
    yield {"crash": "a", "me": 1, "n": 2, "final": "E",
           "foreign": [[100 + i, 0, i, "b" if i % 5 else "n", 0] for i in range(13)],
           "segs": [{"pol": "E", "ops": [["I", [100 + i for i in range(13)]], ["A", 109]]},
                    {"pol": "E", "ops": [["P", 1, 1, 0]]}],
           "racy": {"kind": "r", "pol": "A", "j": 1}}
    yield {"crash": "a", "me": 0, "n": 1, "foreign": [], "final": "A",
           "segs": [{"pol": "A", "ops": [["P", 1, 1, 0], ["O", 200]]}],
           "racy": {"kind": "p", "op": ["P", 2, 1, 0], "y": 2}}
    ncases = 28 if tier == "quick" else 240
    for i in range(ncases):
        if tier == "quick":
            crash = "a" if i % 3 == 0 else "d"
        else:
            crash = "a" if i % 2 == 0 else "d"
        yield _gen_case(rng, tier, crash)


# ------------------------------------------------------------------------------------------------
# harness line
# ------------------------------------------------------------------------------------------------

def _op_txt(op):
    if op[0] == "P":
        return "P%d:%d:%d" % (op[1], op[2], op[3])
    if op[0] == "I":
        return "I" + ",".join(map(str, op[1]))
    if op[0] == "J":
        return "J%s:%s:%s" % (op[1], ".".join("%s%d" % (k, i) for k, i in op[2]),
                              "free" if op[3] is None else ".".join(map(str, op[3])))
    return "%s%d" % (op[0], op[1])


def harness_line(case):
    head = "%s %d %d %s" % (case["crash"], case["me"], case["n"],
                            " ".join("F%d:%d:%d:%s:%d" % tuple(f) for f in case["foreign"]))
    segs = []
    rc = case.get("racy")
    for i, sg in enumerate(case["segs"]):
        toks = [sg["pol"]] + [_op_txt(o) for o in sg["ops"]]
        if rc and i == len(case["segs"]) - 1 and rc["kind"] in ("p", "i"):
            o = rc["op"]
            if rc["kind"] == "p":
                toks.append("p%d:%d:%d:%d" % (o[1], o[2], o[3], rc["y"]))
            else:
                toks.append("i%d:%s" % (rc["y"], ",".join(map(str, o[1]))))
        segs.append(" ".join(toks))
    if rc and rc["kind"] == "r":
        segs.append("%s r%d" % (rc["pol"], rc["j"]))
    segs.append(case["final"])
    return head.strip() + " | " + " | ".join(segs)


# ------------------------------------------------------------------------------------------------
# Gallina terms
# ------------------------------------------------------------------------------------------------

def _row(i, a, l, s, b, p):
    return "(Build_row %d%%N %d%%N %d%%N %d%%N %s %s)" % (i, a, l, s, BODY[b], "true" if int(p) else "false")


def _lst(xs):
    return "[" + "; ".join(xs) + "]"


def _frow(case, fid):
    for f in case["foreign"]:
        if f[0] == fid:
            return _row(f[0], f[1], 0, f[2], f[3], f[4])
    raise KeyError(fid)


def _hop(case, op):
    if op[0] == "P":
        return "(HPub %d%%N %s %s)" % (op[1], "true" if op[2] else "false", "true" if op[3] else "false")
    if op[0] == "I":
        return "(HImp %s)" % _lst([_frow(case, i) for i in op[1]])
    if op[0] == "A":
        return "(HAck %d%%N)" % op[1]
    if op[0] == "K":
        return "(HAckHeld %d%%N)" % op[1]
    if op[0] == "O":
        # rows of the other topic: own author, log 1, consecutive sequence numbers
        return "(HOther %s)" % _row(op[1], case["me"], 1, _other_seq(case, op[1]), "b", 0)
    raise ValueError(op)


def _hops(case, op):
    """Model terms of one call.  A burst of concurrent acks is, for the tables it leaves behind,
    the same acks one after the other (Properties/C15.v C15_concurrent_acks_serialisable)."""
    if op[0] == "J":
        return [_hop(case, [k, i]) for k, i in op[2]]
    return [_hop(case, op)]


def _other_seq(case, oid):
    n = 0
    for sg in case["segs"]:
        for o in sg["ops"]:
            if o[0] == "O":
                if o[1] == oid:
                    return n
                n += 1
    return n


def coq_model(case):
    segs = _lst(["(Build_segment %s %s)" % (POL[sg["pol"]], _lst([h for o in sg["ops"] for h in _hops(case, o)])) for sg in case["segs"]])
    rc = case.get("racy")
    if not rc:
        r = "RNone"
    elif rc["kind"] == "p":
        r = "(ROp %s %s 1%%nat)" % (POL[case["segs"][-1]["pol"]], _hop(case, rc["op"]))
    elif rc["kind"] == "i":
        r = "(ROp %s %s 0%%nat)" % (POL[case["segs"][-1]["pol"]], _hop(case, rc["op"]))
    else:
        r = "(RPartial %s %d%%nat)" % (POL[rc["pol"]], rc["j"])
    return "model_line %d%%N %s %s %s" % (case["me"], segs, r, POL[case["final"]])


# ------------------------------------------------------------------------------------------------
# parsing observation lines
# ------------------------------------------------------------------------------------------------

_DUR = re.compile(r"R\[(.*?)\] A\[(.*?)\] C\[(.*?)\]")


def _items(s):
    return [t for t in s.split(",") if t]


def _parse_dur(txt):
    m = _DUR.fullmatch(txt.strip())
    if not m:
        raise ValueError("bad tables: " + txt)
    rows = []
    for t in _items(m.group(1)):
        f = t.split(":")
        rows.append((f[0], int(f[1]), int(f[2]), int(f[3]), f[4], f[5]))
    assoc = sorted(tuple(int(x) for x in t.split(":")) for t in _items(m.group(2)))
    cur = []
    for t in _items(m.group(3)):
        k, h = t.split("=")
        a, l = k.split(":")
        cur.append((int(a), int(l), int(h)))
    rows.sort(key=lambda r: (r[1], r[2], r[3], r[0]))
    return {"rows": rows, "assoc": assoc, "cursor": sorted(cur)}


def _norm_dur(txt):
    d = _parse_dur(txt)
    return "R[%s] A[%s] C[%s]" % (",".join(":".join(map(str, r)) for r in d["rows"]),
                                 ",".join("%d:%d" % a for a in d["assoc"]),
                                 ",".join("%d:%d=%d" % c for c in d["cursor"]))


def _norm_obs(txt):
    """One restart observation `D # T.. E[..] [# D' [# O[..]]]` with the table parts normalised."""
    parts = [p.strip() for p in txt.split(" # ")]
    out = []
    for p in parts:
        out.append(_norm_dur(p) if p.startswith("R[") else p)
    return " # ".join(out)


def _split_line(line):
    body = line.split(" @@ ")[0]
    segs = [s.strip() for s in body.split(" ;; ")]
    last = segs[-1]
    if not (last.startswith("ALT{") and last.endswith("}")):
        raise ValueError("no final observation")
    alts = [a.strip() for a in last[4:-1].split(" || ")]
    return segs[:-1], alts


def agree(case, impl, model):
    try:
        isegs, ialts = _split_line(impl)
        msegs, malts = _split_line(model)
        if len(isegs) != len(msegs) or len(ialts) != 1:
            return False
        for a, b in zip(isegs, msegs):
            if _norm_obs(a) != _norm_obs(b):
                return False
        return _norm_obs(ialts[0]) in {_norm_obs(x) for x in malts}
    except Exception:
        return False


def _dur_term(d):
    rows = []
    for r in d["rows"]:
        if r[0] == "?" or r[5] not in ("0", "1"):
            raise ValueError("unknown row")
        rows.append(_row(int(r[0]), r[1], r[2], r[3], r[4], r[5]))
    return "(Build_durable %s %s %s)" % (
        _lst(rows),
        _lst(["(%d%%N, %d%%N)" % a for a in d["assoc"]]),
        _lst(["((%d%%N, %d%%N), %d%%N)" % c for c in d["cursor"]]))


_REPLAY = re.compile(r"T(\d+) E\[(.*?)\](.*)")


def _events_term(txt):
    m = _REPLAY.fullmatch(txt.strip())
    if not m or m.group(3).strip():
        raise ValueError("unexpected replay events: " + txt)
    evs = []
    for t in _items(m.group(2)):
        k, i = t.split(":")
        evs.append("(%s, %d%%N)" % ({"P": "Processed", "D": "DecodeFailed"}[k], int(i)))
    return _lst(evs), len(evs)


def _facts_term(txt):
    out = []
    for t in _items(txt):
        f = t.split(":")
        out.append("(%d%%nat, %s)" % (int(f[0]), _row(int(f[1]), int(f[2]), int(f[3]), int(f[4]), f[5], f[6])))
    return _lst(out)


def _policies(case):
    pols = [sg["pol"] for sg in case["segs"]]
    rc = case.get("racy")
    if rc and rc["kind"] == "r":
        pols.append(rc["pol"])
    pols.append(case["final"])
    return pols


def coq_oracle(case, impl):
    body, facts = impl.split(" @@ ")
    isegs, ialts = _split_line(impl)
    pols = _policies(case)
    texts = isegs + ialts
    if len(texts) != len(pols):
        return "false"
    obs = []
    for i, t in enumerate(texts):
        parts = [p.strip() for p in t.split(" # ")]
        d = _parse_dur(parts[0])
        evs, _ = _events_term(parts[1])
        complete = len(parts) >= 3
        explicit = all(p == "E" for p in pols[:i])
        obs.append("(Build_obs %s %s %s %s)" % (_dur_term(d), evs, "true" if complete else "false", "true" if explicit else "false"))
    fm = dict(kv.split("=", 1) for kv in facts.strip().split(" "))
    return "check %s %s %s %s" % (_lst(obs), _facts_term(fm.get("acked", "")), _facts_term(fm.get("stored", "")),
                                  _facts_term(fm.get("attempted", "")))


def nontrivial(case, impl):
    try:
        isegs, ialts = _split_line(impl)
        for t in isegs + ialts:
            parts = [p.strip() for p in t.split(" # ")]
            d = _parse_dur(parts[0])
            m = _REPLAY.fullmatch(parts[1])
            evs = set(_items(m.group(2)))
            if not evs:
                continue
            held_back = [r for r in d["rows"] if r[2] == 0 and r[4] == "b" and ("P:%s" % r[0]) not in evs]
            if held_back:
                return True
        return False
    except Exception:
        return False


def shrink(case):
    import copy
    if case.get("racy"):
        c = copy.deepcopy(case)
        c["racy"] = None
        yield c
    for i in range(len(case["segs"])):
        if len(case["segs"]) > 1:
            c = copy.deepcopy(case)
            del c["segs"][i]
            yield c
        for j in range(len(case["segs"][i]["ops"])):
            c = copy.deepcopy(case)
            del c["segs"][i]["ops"][j]
            yield c
            o = case["segs"][i]["ops"][j]
            if o[0] == "J" and len(o[2]) > 2:
                for x in range(len(o[2])):
                    c = copy.deepcopy(case)
                    oo = c["segs"][i]["ops"][j]
                    del oo[2][x]
                    if oo[3] is not None:
                        oo[3] = [y - (1 if y > x else 0) for y in oo[3] if y != x]
                    yield c
    if case["crash"] == "a" and not case.get("racy"):
        c = copy.deepcopy(case)
        c["crash"] = "d"
        yield c


def distribution(cases, impl):
    kinds, racy, crash, sessions, replayed = {}, {}, {}, 0, 0
    for i, c in enumerate(cases):
        crash[c["crash"]] = crash.get(c["crash"], 0) + 1
        rk = (c.get("racy") or {}).get("kind", "none")
        racy[rk] = racy.get(rk, 0) + 1
        sessions += len(c["segs"]) + 1 + (1 if rk == "r" else 0)
        for sg in c["segs"]:
            for o in sg["ops"]:
                kinds[o[0]] = kinds.get(o[0], 0) + 1
        line = impl.get(i)
        if line:
            replayed += len(re.findall(r"[PD]:\d+", " ".join(re.findall(r"T\d+ E\[(.*?)\]", line))))
    return {"op_kinds": kinds, "crash_inside_call": racy, "crash_mode": crash, "node_sessions": sessions,
            "replayed_events": replayed}
