"""C01 — Only authentic, well-formed operations are ingested or delivered."""
import copy

from vlib.props import c02 as enc

ID = "C01"
HARNESS_PKG = "h_header"
HARNESS_ARGS = ["c01"]
COQ_IMPORTS = "From PV Require Import Model.Header Model.Validate Oracle.C02 Oracle.C01."
COQ_SHARD = 60
HARNESS_PROCS = 16
TECHNIQUE = ("Coq proof over a branch-for-branch model of validate_header / validate_operation and of the accept/reject/rollback "
             "behaviour of ingest_operation, with symbolic (ideal) signatures and hashes and the token-level header encoding of C02 "
             "+ differential correspondence on real signed operations with value-level and byte-level tampering on a real SqliteStore")
LEVEL_TEXT = ("Proved in Coq for every operation, every signature scheme satisfying the ideal-signature hypotheses, every injective hash, every "
              "HashSet iteration order and every store: C01_validate_sound_complete (accepted <=> authentic, version 1, consistent payload and "
              "link fields, attached body matches), C01_tamper_rejected / C01_same_signature_same_header (any change of header fields under the "
              "same signature, any other signature, any other attached body is rejected; uses the injectivity of the header encoding proved "
              "without side conditions), C01_ingest_tamper_unchanged / C01_ingest_reject_unchanged (rejected => store unchanged), "
              "C01_ingest_ok_valid / C01_ingest_inserted_only_if_good, and the explicit boundary C01_body_removal_accepted. The model is tied to "
              "p2panda-core/src/operation.rs and p2panda-stream/src/ingest/operation.rs on every run: real operations (all presence "
              "combinations, () and Node extensions), every single-field mutation from a value pool, correctly signed operations with "
              "arbitrary field values, and single-byte substitutions at every offset of the encoded header / body are decoded, validated "
              "and ingested into a real in-memory SqliteStore; verdict, has_operation and row counts are compared with the model and "
              "checked by the oracle (whose boolean specification good_b is proved equal to the model's validator).")
LEVEL_NOTE = ("Modelled, not verified: Ed25519 verify_strict (ideal signatures as Section hypotheses, satisfiable: C01_hypotheses_satisfiable), BLAKE3 "
              "(injective), ciborium (token level, see C02), SQLite/sqlx transaction semantics (begin/rollback-on-drop/commit: observed through row "
              "counts only), the log-integrity part of ingest is an abstract function here (modelled for C03-C05 elsewhere); "
              "StreamPublisher::import on a real Node is not exercised. Correspondence is differential testing.")
ASSUMPTIONS = ["ideal signatures: verify pk m s = true <-> s = sign (sk_of pk) m; a signature determines signer and message; sk_of injective",
               "hash of bodies injective",
               "Operation.hash is header.hash() (set by every decode path; the harness does the same)",
               "the store is only touched by ingest through has_operation / latest entry / insert / associate inside one transaction"]
TRUSTED = ["modelled not verified: Ed25519, BLAKE3, ciborium byte layer, SQLite transaction semantics",
           "canonicalisation in the harness: pool keys, the original signature and the hash of the original body are named; unknown byte "
           "strings with more than three runs get numbered placeholders (only their being different matters under ideal crypto)"]
RULE = ("val cases: valid signed operations for () / Node Basic / Node Causal extensions x payload/backlink presence x with/without body; for each "
        "every single-field mutation from a value pool (version, author key, payload size/hash, seq, backlink, every extension field, "
        "signature removed/garbage/bit flip, signed by another key, body replaced / attached / removed / empty), plus correctly signed "
        "operations with arbitrary (inconsistent) field values, prune flag off with seq > 0, and double ingest; resub cases: the valid "
        "original is ingested, then on the SAME store a copy is re-submitted (identical, body removed, every same-signature header "
        "mutation, signature removed/garbage/flipped/other signer, body same-length/longer/empty/attached) and must be rejected unless "
        "it is good (duplicate only for the original header with matching or no body), store still holding the original; byte cases: single-byte "
        "xor at every offset of the encoded header and body (quick: 2 Node-extension operations, one random mask per offset; thorough: 8 operations of all extension kinds, 3 masks, plus deletion/insertion at every offset). "
        "non-trivial = the operation reached validate_operation (decoded)")
NONTRIVIAL_FLOOR = 100

KEYS = 6  # pool keys 0..5 for cases; key 7 signs the unrelated operation


def _h32(rng):
    return enc._hexb(rng, 32)


def _body(rng, n=None):
    n = rng.choice([1, 2, 3, 5, 8]) if n is None else n
    return enc._norm([[1, rng.randrange(256)] for _ in range(n)])


def _base(rng, kind, payload, link):
    body = _body(rng) if payload else None
    h = {"key": rng.randrange(KEYS), "version": 1,
         "psize": len(enc._expand(body)) if body else 0, "phash": ["H", body] if body else None,
         "seq": rng.choice([1, 2, 23, 24, 255, 256, 70000]) if link else 0,
         "backlink": ["x", _h32(rng)] if link else None,
         "ext": enc._mk_ext(rng, kind, rng.choice([0, 1, 2, 3]) if kind == "causal" else None)}
    if h["ext"]["kind"] in ("basic", "causal") and h["ext"]["ts"] >= 2 ** 64:
        h["ext"]["ts"] = 5
    return h, body


def _case(orig, header, body, signer="same", sig="ok", prune=True, twice=False, note=""):
    return {"kind": "val", "orig": orig, "hdr": header, "body": body,
            "signer": orig["key"] if signer == "same" else signer, "sig": sig, "prune": prune, "twice": twice, "note": note}


def _resub(orig, body0, header, body, signer="same", sig="ok", note=""):
    """the valid (orig, body0) is ingested first; then {header signed as in val, body} on the same store"""
    return {"kind": "resub", "orig": orig, "body0": body0, "hdr": header, "body": body,
            "signer": orig["key"] if signer == "same" else signer, "sig": sig, "note": note}


def _other(rng, cur, pool):
    c = [x for x in pool if x != cur]
    return rng.choice(c)


def _mutations(rng, h, body):
    """single-field mutations of header h (dicts), as (note, header', body')"""
    out = []

    def m(note, **kw):
        x = copy.deepcopy(h)
        b = body
        for k, v in kw.items():
            if k == "body":
                b = v
            elif k == "ext":
                x["ext"].update(v)
            else:
                x[k] = v
        out.append((note, x, b))

    for v in (0, 2, 65535):
        m("version", version=v)
    m("key", key=_other(rng, h["key"], range(KEYS)))
    m("psize", psize=h["psize"] + 1)
    if h["psize"] > 0:
        m("psize", psize=h["psize"] - 1)
        m("phash", phash=None)
        m("phash", phash=["x", _h32(rng)])
        m("phash", phash=["H", _body(rng, h["psize"])])
    else:
        m("phash", phash=["x", _h32(rng)])
    m("seq", seq=h["seq"] + 1)
    if h["seq"] > 0:
        m("seq", seq=h["seq"] - 1)
        m("seq", seq=0)
        m("backlink", backlink=None)
        m("backlink", backlink=["x", _h32(rng)])
    else:
        m("backlink", backlink=["x", _h32(rng)])
    e = h["ext"]
    if e["kind"] in ("basic", "causal"):
        m("ext.log", ext={"log": _h32(rng)})
        m("ext.ts", ext={"ts": e["ts"] + 1 if e["ts"] < 2 ** 64 - 1 else 0})
    if e["kind"] == "basic":
        m("ext.prune", ext={"prune": not e["prune"]})
        x = copy.deepcopy(h)
        x["ext"] = {"kind": "causal", "log": e["log"], "ts": e["ts"], "prev": []}
        out.append(("ext.kind", x, body))
    if e["kind"] == "causal":
        m("ext.prev+", ext={"prev": e["prev"] + [_h32(rng)]})
        if e["prev"]:
            m("ext.prev-", ext={"prev": e["prev"][1:]})
            m("ext.prev~", ext={"prev": [_h32(rng)] + e["prev"][1:]})
        x = copy.deepcopy(h)
        x["ext"] = {"kind": "basic", "log": e["log"], "ts": e["ts"], "prune": False}
        out.append(("ext.kind", x, body))
    # prev lists must stay duplicate-free
    out = [(n, x, b) for n, x, b in out
           if x["ext"]["kind"] != "causal" or len({enc._expand(p) for p in x["ext"]["prev"]}) == len(x["ext"]["prev"])]
    return out


def _ext_kinds(tier):
    return ["unit", "basic", "causal"]


def gen(tier, rng):
    reps = 1 if tier == "quick" else 2
    bases = []
    for _ in range(reps):
        for kind in _ext_kinds(tier):
            for payload in (0, 1):
                for link in (0, 1):
                    h, body = _base(rng, kind, payload, link)
                    bases.append((h, body))
                    # the valid operation itself: with body, without body, twice, without prune flag
                    yield _case(h, h, body, note="valid")
                    if body:
                        yield _case(h, h, None, note="body-removed")
                    yield _case(h, h, body, twice=True, note="valid-twice")
                    yield _case(h, h, body, prune=False, twice=True, note="valid-noprune")
                    # header mutations keeping the signature
                    for note, x, b in _mutations(rng, h, body):
                        yield _case(h, x, b, note="mut:" + note)
                    # the same mutated values, correctly signed by the author
                    for note, x, b in _mutations(rng, h, body):
                        if note != "key":
                            yield _case(x, x, b, note="signed:" + note)
                    # signature
                    yield _case(h, h, body, sig="none", note="sig-none")
                    yield _case(h, h, body, sig="garbage", note="sig-garbage")
                    for i in ([0, 63] if tier == "quick" else range(64)):
                        yield _case(h, h, body, sig="flip%d" % i, note="sig-flip")
                    yield _case(h, h, body, signer=_other(rng, h["key"], range(KEYS)), note="wrong-signer")
                    # body
                    if body:
                        n = len(enc._expand(body))
                        yield _case(h, h, _body(rng, n), note="body-other")
                        yield _case(h, h, _body(rng, n + 1), note="body-longer")
                        yield _case(h, h, [], note="body-empty")
                    else:
                        yield _case(h, h, _body(rng), note="body-attached")
                        yield _case(h, h, [], note="body-empty")
                    # re-submission on a store that already holds the valid original
                    yield _resub(h, body, h, body, note="resub-identical")
                    for note, x, b in _mutations(rng, h, body):
                        yield _resub(h, body, x, b, note="resub-mut:" + note)
                    yield _resub(h, body, h, body, sig="none", note="resub-sig-none")
                    yield _resub(h, body, h, body, sig="garbage", note="resub-sig-garbage")
                    for i in ([0, 63] if tier == "quick" else [0, 1, 31, 32, 63]):
                        yield _resub(h, body, h, body, sig="flip%d" % i, note="resub-sig-flip")
                    yield _resub(h, body, h, body, signer=_other(rng, h["key"], range(KEYS)), note="resub-wrong-signer")
                    if body:
                        n = len(enc._expand(body))
                        yield _resub(h, body, h, None, note="resub-body-removed")
                        yield _resub(h, body, h, _body(rng, n), note="resub-body-other")
                        yield _resub(h, body, h, _body(rng, n + 1), note="resub-body-longer")
                        yield _resub(h, body, h, _body(rng, max(1, n - 1)) if n > 1 else [], note="resub-body-shorter")
                        yield _resub(h, body, h, [], note="resub-body-empty")
                    else:
                        yield _resub(h, body, h, _body(rng), note="resub-body-attached")
                        yield _resub(h, body, h, [], note="resub-body-empty")
    # byte-level
    masks = (lambda: [rng.choice([1, 2, 4, 8, 16, 32, 64, 128, 255, rng.randrange(1, 256)])]) if tier == "quick" else \
        (lambda: [1, 128, rng.randrange(2, 255)])
    sel = [b for b in bases if b[1] is not None and b[0]["seq"] > 0 and b[0]["ext"]["kind"] != "unit"][:2] if tier == "quick" else \
        [b for b in bases if b[1] is not None and b[0]["seq"] > 0] + [b for b in bases if b[1] is None and b[0]["seq"] == 0][:2]
    for h, body in sel:
        n = _header_len(h)
        for pos in range(n):
            for mk in masks():
                yield {"kind": "byte", "hdr": h, "body": body, "part": "h", "mop": "sub", "pos": pos, "val": mk}
            if tier != "quick":
                yield {"kind": "byte", "hdr": h, "body": body, "part": "h", "mop": "del", "pos": pos, "val": 0}
                yield {"kind": "byte", "hdr": h, "body": body, "part": "h", "mop": "ins", "pos": pos, "val": rng.randrange(256)}
        if tier == "quick":
            for pos in sorted(rng.sample(range(n + 1), 12)):
                yield {"kind": "byte", "hdr": h, "body": body, "part": "h", "mop": rng.choice(["del", "ins"]), "pos": pos,
                       "val": rng.randrange(256)}
        if body is not None:
            bl = len(enc._expand(body))
            for pos in range(bl):
                for mk in masks():
                    yield {"kind": "byte", "hdr": h, "body": body, "part": "b", "mop": "sub", "pos": pos, "val": mk}
                yield {"kind": "byte", "hdr": h, "body": body, "part": "b", "mop": "del", "pos": pos, "val": 0}
                yield {"kind": "byte", "hdr": h, "body": body, "part": "b", "mop": "ins", "pos": pos, "val": rng.randrange(256)}


def _ul(n):
    return 1 if n < 24 else 2 if n < 256 else 3 if n < 65536 else 5 if n < 2 ** 32 else 9


def _header_len(h):
    n = 1 + _ul(h["version"]) + 34 + 66 + _ul(h["psize"]) + (34 if h["phash"] else 0) + _ul(h["seq"]) + (34 if h["backlink"] else 0)
    e = h["ext"]
    if e["kind"] == "basic":
        n += 3 + 34 + _ul(e["ts"]) + 1
    elif e["kind"] == "causal":
        n += 3 + 34 + _ul(e["ts"]) + _ul(len(e["prev"])) + 34 * len(e["prev"])
    return n


# ---- rendering -----------------------------------------------------------------------------------

def _hword(x):
    if x is None:
        return "-"
    return ("H" if x[0] == "H" else "") + enc._bw(x[1])


def _hdr_words(h):
    e = h["ext"]
    if e["kind"] == "unit":
        ew = ["unit"]
    elif e["kind"] == "basic":
        ew = ["basic", enc._bw(e["log"]), str(e["ts"]), "1" if e["prune"] else "0"]
    else:
        ew = ["causal", enc._bw(e["log"]), str(e["ts"])] + [enc._bw(p) for p in e["prev"]]
    return [str(h["key"]), str(h["version"]), str(h["psize"]), _hword(h["phash"]), str(h["seq"]), _hword(h["backlink"])] + ew


def _etype(h):
    return "unit" if h["ext"]["kind"] == "unit" else "node"


def harness_line(case):
    if case["kind"] == "val":
        return " | ".join([
            " ".join(["val", _etype(case["hdr"]), "1" if case["prune"] else "0", "1" if case["twice"] else "0"]),
            " ".join(_hdr_words(case["orig"])),
            "%s %s" % (case["signer"], case["sig"]),
            " ".join(_hdr_words(case["hdr"])),
            enc._bw(case["body"]) if case["body"] is not None else "-"])
    if case["kind"] == "resub":
        return " | ".join([
            " ".join(["resub", _etype(case["hdr"])]),
            " ".join(_hdr_words(case["orig"])),
            "%s %s" % (case["signer"], case["sig"]),
            " ".join(_hdr_words(case["hdr"])),
            enc._bw(case["body"]) if case["body"] is not None else "-",
            enc._bw(case["body0"]) if case["body0"] is not None else "-"])
    return " | ".join([
        " ".join(["byte", _etype(case["hdr"]), case["part"], case["mop"], str(case["pos"]), str(case["val"])]),
        " ".join(_hdr_words(case["hdr"])),
        enc._bw(case["body"]) if case["body"] is not None else "-"])


def _coq_hash(x):
    if x is None:
        return "None"
    if x[0] == "H":
        return "(Some (ideal_hash %s))" % enc._hx(x[1])
    return "(Some %s)" % enc._hx(x[1])


def _coq_header(h, sig):
    return "(mkHeader %d %s %s %s %s %s %s %s)" % (
        h["version"], enc._hx([[32, h["key"]]]), sig, enc._n(h["psize"]), _coq_hash(h["phash"]), enc._n(h["seq"]),
        _coq_hash(h["backlink"]), enc._coq_ext(h["ext"]))


def _coq_body(b):
    return "None" if b is None else "(Some %s)" % enc._hx(b)


def _sig_term(case):
    if case["sig"] == "ok":
        return "(Some (sig_by %s %s))" % (enc._hx([[32, case["signer"]]]), _coq_header(case["orig"], "None"))
    if case["sig"] == "none":
        return "None"
    if case["sig"] == "garbage":
        return "(Some %s)" % enc._hx([[64, 251]])
    return "(Some %s)" % enc._hx([[63, 252], [1, 253]])  # a flipped signature: some other 64 bytes


def _valid_sig(h):
    return "(Some (sig_by %s %s))" % (enc._hx([[32, h["key"]]]), _coq_header(h, "None"))


def _b(x):
    return "true" if x else "false"


def coq_model(case):
    if case["kind"] == "val":
        return "model_val %s %s %s %s" % (_b(case["prune"]), _b(case["twice"]), _coq_header(case["hdr"], _sig_term(case)),
                                          _coq_body(case["body"]))
    if case["kind"] == "resub":
        return "model_resub %s %s %s %s" % (_coq_header(case["orig"], _valid_sig(case["orig"])), _coq_body(case["body0"]),
                                            _coq_header(case["hdr"], _sig_term(case)), _coq_body(case["body"]))
    return "model_base %s %s" % (_coq_header(case["hdr"], _valid_sig(case["hdr"])), _coq_body(case["body"]))


_ERRS = {"UnsupportedVersion", "MissingSignature", "SignatureMismatch", "SeqNumMismatch", "InconsistentPayloadInfo",
         "MissingPayloadHash", "PayloadMismatch", "TooManyAuthors", "SeqNumNonIncremental", "BacklinkMissing", "BacklinkMismatch"}


def _icls(w):
    if w == "NEW":
        return "INew"
    if w == "DUP":
        return "IDup"
    if w in _ERRS:
        return "IRej"
    raise ValueError(w)


def _rows(w):
    a, b = w.split("+")
    return int(a), int(b)


def _verdict(s):
    f = dict(p.split("=", 1) for p in s.split())
    before, after = f["rows"].split("/")
    return f, _rows(before), _rows(after)


def _sym_bytes(w, case):
    """name printed by the harness for a byte string of a decoded header -> Gallina bytes"""
    if w == "S":
        return "(sig_by %s %s)" % (enc._hx([[32, case["hdr"]["key"]]]), _coq_header(case["hdr"], "None"))
    if w == "X":
        return enc._hx([[64, 251]])
    if w == "H":
        return "(ideal_hash %s)" % enc._hx(case["body"])
    return enc._hx(enc._unbw(w))


def _sym_header(s, case):
    f = dict(p.split("=", 1) for p in s.split())
    o = lambda v: "None" if v == "-" else "(Some %s)" % _sym_bytes(v, case)
    e = f["ext"].split(":")
    if e[0] == "unit":
        ext = "EUnit"
    elif e[0] == "basic":
        ext = "(EBasic %s %s %s)" % (_sym_bytes(e[1], case), enc._n(int(e[2])), _b(e[3] == "T"))
    elif e[0] == "causal":
        ext = "(ECausal %s %s [%s])" % (_sym_bytes(e[1], case), enc._n(int(e[2])),
                                         ";".join(_sym_bytes(h, case) for h in e[3].split(",") if h))
    else:
        raise ValueError("ext")
    return "(mkHeader %s %s %s %s %s %s %s %s)" % (enc._n(int(f["v"])), _sym_bytes(f["pk"], case), o(f["sig"]), enc._n(int(f["ps"])),
                                                   o(f["ph"]), enc._n(int(f["sq"])), o(f["bl"]), ext)


def coq_oracle(case, impl):
    if case["kind"] == "val":
        f, (ob, tb), (oa, ta) = _verdict(impl)
        second = "None"
        if "ing2" in f:
            o2, t2 = _rows(f["rows2"])
            second = "(Some (%s, %d%%N, %d%%N))" % (_icls(f["ing2"]), o2, t2)
        return "check_val %s %s %s %s %s %s %d%%N %d%%N %d%%N %d%%N %s" % (
            _b(case["prune"]), _coq_header(case["hdr"], _sig_term(case)), _coq_body(case["body"]), _b(f["val"] == "OK"),
            _icls(f["ing"]), _b(f["has"] == "1"), ob, tb, oa, ta, second)
    if case["kind"] == "resub":
        p1, p2 = impl.split(" | ")
        f1, (ob, tb), (om, tm) = _verdict(p1)
        f = dict(p.split("=", 1) for p in p2.split())
        oa, ta = _rows(f["rows"])
        return "check_resub %s %s %s %s %s %s %s %s %s %d%%N %d%%N %d%%N %d%%N %d%%N %d%%N %s %s" % (
            _coq_header(case["orig"], _valid_sig(case["orig"])), _coq_body(case["body0"]),
            _coq_header(case["hdr"], _sig_term(case)), _coq_body(case["body"]),
            _b(f1["first"] == "NEW"), _b(f["val"] == "OK"), _icls(f["ing"]), _b(f["has"] == "1"), _b(f["hasorig"] == "1"),
            ob, tb, om, tm, oa, ta, _b(f["samehash"] == "1"), _b(f["stored"] == "1"))
    parts = impl.split(" | ")
    base_new = _b(parts[0] == "base=NEW")
    if parts[1] == "NODEC":
        return "check_byte %s None IRej false false 0%%N 0%%N 0%%N 0%%N" % base_new
    hd, _, body = parts[1][4:].rpartition(" body=")
    f, (ob, tb), (oa, ta) = _verdict(parts[2])
    cls = "None" if f["val"] == "OK" else "(Some %s)" % f["val"]
    if f["val"] != "OK" and f["val"] not in _ERRS:
        raise ValueError(f["val"])
    bterm = "None" if body == "-" else "(Some %s)" % enc._hx(enc._unbw(body))
    return "check_byte %s (Some (%s, %s, %s)) %s %s %s %d%%N %d%%N %d%%N %d%%N" % (
        base_new, _sym_header(hd, case), bterm, cls, _icls(f["ing"]), _b(f["has"] == "1"), _b(f["same"] == "1"), ob, tb, oa, ta)


def agree(case, impl, model):
    if case["kind"] in ("val", "resub"):
        return impl == model
    return impl.split(" | ")[0] == model


def nontrivial(case, impl):
    return "NODEC" not in impl and "TIMEOUT" not in impl and "PANIC" not in impl


def shrink(case):
    if case["kind"] == "val":
        if case["twice"]:
            c = copy.deepcopy(case)
            c["twice"] = False
            yield c
        for who in ("orig", "hdr"):
            e = case[who]["ext"]
            if e["kind"] == "causal" and e["prev"]:
                c = copy.deepcopy(case)
                c["orig"]["ext"]["prev"] = c["orig"]["ext"]["prev"][1:] if c["orig"]["ext"]["kind"] == "causal" else []
                if c["hdr"]["ext"]["kind"] == "causal":
                    c["hdr"]["ext"]["prev"] = c["hdr"]["ext"]["prev"][1:]
                yield c
                break


def distribution(cases, impl):
    d = {"val": 0, "resub": 0, "resub_rejected": 0, "resub_duplicate": 0, "resub_inserted": 0, "byte": 0, "byte_not_decodable": 0, "byte_decoded_rejected": 0, "byte_decoded_accepted_same_content": 0,
         "val_accepted": 0, "val_rejected": 0, "verdicts": {}, "notes": {}}
    for i, c in enumerate(cases):
        r = impl.get(i, "")
        if c["kind"] == "val":
            d["val"] += 1
            d["val_accepted" if "ing=NEW" in r else "val_rejected"] += 1
            n = c.get("note", "").split(":")[0]
            d["notes"][n] = d["notes"].get(n, 0) + 1
            v = r.split(" ")[0]
        elif c["kind"] == "resub":
            d["resub"] += 1
            d["resub_inserted" if " ing=NEW" in r else "resub_duplicate" if " ing=DUP" in r else "resub_rejected"] += 1
            n = c.get("note", "").split(":")[0]
            d["notes"][n] = d["notes"].get(n, 0) + 1
            v = "resub:" + (r.split(" | ")[1].split(" ")[1] if " | " in r else r)
        else:
            d["byte"] += 1
            if "NODEC" in r:
                d["byte_not_decodable"] += 1
                v = "NODEC"
            else:
                d["byte_decoded_accepted_same_content" if "ing=NEW" in r else "byte_decoded_rejected"] += 1
                v = r.split(" | ")[-1].split(" ")[0] if " | " in r else r
        d["verdicts"][v] = d["verdicts"].get(v, 0) + 1
    return d


REGISTERED = True
